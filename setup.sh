#!/bin/sh
# Build the framework offline from files on disk only.
cd "$(dirname "$0")" && exec ./check build
