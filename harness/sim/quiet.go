package sim

import scalibrlog "github.com/google/osv-scalibr/log"

type quietLogger struct{}

func (quietLogger) Errorf(string, ...any) {}
func (quietLogger) Error(...any)          {}
func (quietLogger) Warnf(string, ...any)  {}
func (quietLogger) Warn(...any)           {}
func (quietLogger) Infof(string, ...any)  {}
func (quietLogger) Info(...any)           {}
func (quietLogger) Debugf(string, ...any) {}
func (quietLogger) Debug(...any)          {}

// Quiet silences the library's logger (arguments are still evaluated by the callers).
func Quiet() { scalibrlog.SetLogger(quietLogger{}) }
