package sim

import (
	"io"
	stdlog "log"
)

// Quiet silences the library's log output without replacing its logger: the library's
// DefaultLogger (which writes through Go's standard logger) stays in play, only the standard
// logger's output is discarded.  Replacing the logger would take real code - which runs
// concurrently with the walk in the status-printing goroutine - out of the simulation.
func Quiet() { stdlog.SetOutput(io.Discard) }
