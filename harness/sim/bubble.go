//go:build go1.25

package sim

import (
	"testing"
	"testing/synctest"
)

// Bubble runs f inside a testing/synctest bubble (fake clock, quiescence detection) and
// returns when the bubble has finished.  A panic inside f propagates to the caller.
func Bubble(t *testing.T, f func()) {
	var pv any
	panicked := false
	done := make(chan struct{})
	go func() {
		defer close(done)
		defer func() {
			// synctest.Test itself panics when the bubble's root returns while goroutines are still
			// durably blocked ("deadlock"); hand that to the caller like any other panic.
			if r := recover(); r != nil && !panicked {
				pv = r
				panicked = true
			}
		}()
		synctest.Test(t, func(st *testing.T) {
			defer func() {
				if r := recover(); r != nil {
					pv = r
					panicked = true
				}
			}()
			f()
		})
	}()
	<-done
	if panicked {
		panic(pv)
	}
}

// Wait is synctest.Wait.
func Wait() { synctest.Wait() }
