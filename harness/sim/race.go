package sim

import (
	"fmt"
	"os"
	"regexp"
	"sort"
	"strings"
)

// RaceWatcher attributes race-detector reports to scenarios: GORACE=log_path=... makes the
// runtime append reports to <prefix>.<pid>; after each run the growth of that file is parsed.
type RaceWatcher struct {
	path string
	off  int64
}

func NewRaceWatcher() *RaceWatcher {
	p := os.Getenv("VERIF_RACE_LOG")
	if p == "" {
		return nil
	}
	return &RaceWatcher{path: fmt.Sprintf("%s.%d", p, os.Getpid())}
}

// RaceReport is one de-duplicated report.
type RaceReport struct {
	Key  string // sorted pair of the innermost library frames
	Text string
}

var reAccess = regexp.MustCompile(`(?m)^(?:Previous )?(?:[Ww]rite|[Rr]ead) at 0x[0-9a-f]+ by (?:main )?goroutine[^\n]*:\n((?:  \S[^\n]*\n      [^\n]*\n)+)`)
var reFn = regexp.MustCompile(`(?m)^  (\S+)\(`)

// Poll returns the reports written since the last call.
func (w *RaceWatcher) Poll() []RaceReport {
	if w == nil {
		return nil
	}
	st, err := os.Stat(w.path)
	if err != nil || st.Size() <= w.off {
		return nil
	}
	b, err := os.ReadFile(w.path)
	if err != nil {
		return nil
	}
	chunk := string(b[w.off:])
	w.off = int64(len(b))
	var out []RaceReport
	for _, blk := range strings.Split(chunk, "WARNING: DATA RACE")[1:] {
		var fns []string
		for _, m := range reAccess.FindAllStringSubmatch(blk, 2) {
			fn := "?"
			for _, f := range reFn.FindAllStringSubmatch(m[1], -1) {
				if !strings.HasPrefix(f[1], "runtime.") && !strings.HasPrefix(f[1], "sync") && !strings.HasPrefix(f[1], "internal/") {
					fn = f[1]
					break
				}
			}
			fns = append(fns, fn)
		}
		sort.Strings(fns)
		txt := blk
		if len(txt) > 3000 {
			txt = txt[:3000]
		}
		out = append(out, RaceReport{Key: strings.Join(fns, "+"), Text: strings.TrimSpace(txt)})
	}
	return out
}
