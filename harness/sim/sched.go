//go:build go1.25

package sim

import (
	"fmt"
	"runtime"
	"sort"
	"strconv"
	"strings"
	"sync"
)

// Sched is the cooperative scheduler of worlds with concurrency.  Every simulated actor parks
// on a private channel whenever it reaches a seam (Park); the scheduler loop waits for
// quiescence (all goroutines of the bubble durably blocked), picks one parked actor by the
// next element of the schedule vector (vec[i] mod len(parked); exhausted => index 0 = lowest
// actor id) and releases it.  Exactly one released goroutine runs at a time, so the Go
// scheduler never gets a choice that matters.  Must be used inside sim.Bubble.
type Sched struct {
	mu      sync.Mutex
	parked  map[int]*parkSlot
	byGoid  map[int64]int
	vec     []int
	pos     int
	Steps   int
	Trace   []string // "actor@site" in release order: the interleaving
	MaxPar  int      // maximum number of simultaneously parked actors seen
	running int      // goroutines started via Go and not finished
	// actorPanic: the first panic that ended an actor (reported by Run)
	actorPanic string
}

type parkSlot struct {
	site string
	ch   chan struct{}
}

func NewSched(vec []int) *Sched {
	return &Sched{parked: map[int]*parkSlot{}, byGoid: map[int64]int{}, vec: vec}
}

func goid() int64 {
	var buf [64]byte
	n := runtime.Stack(buf[:], false)
	f := strings.Fields(string(buf[:n]))
	if len(f) < 2 {
		return -1
	}
	id, _ := strconv.ParseInt(f[1], 10, 64)
	return id
}

// Go starts f as actor id.  The goroutine parks immediately at site "start".
func (s *Sched) Go(actor int, f func()) {
	s.mu.Lock()
	s.running++
	s.mu.Unlock()
	go func() {
		s.mu.Lock()
		s.byGoid[goid()] = actor
		s.mu.Unlock()
		defer func() {
			// a panic inside the code under test ends this actor, not the worker: Run reports it
			r := recover()
			s.mu.Lock()
			if r != nil && s.actorPanic == "" {
				s.actorPanic = fmt.Sprintf("panic in actor %d: %v", actor, r)
			}
			s.running--
			s.mu.Unlock()
		}()
		s.ParkAs(actor, "start")
		f()
	}()
}

// Park parks the calling goroutine (which must have been started with Go) at a site.
// Goroutines not known to the scheduler pass through.
func (s *Sched) Park(site string) {
	s.mu.Lock()
	actor, ok := s.byGoid[goid()]
	s.mu.Unlock()
	if !ok {
		return
	}
	s.ParkAs(actor, site)
}

// ParkAs parks the calling goroutine as the given actor.
func (s *Sched) ParkAs(actor int, site string) {
	slot := &parkSlot{site: site, ch: make(chan struct{})}
	s.mu.Lock()
	if _, dup := s.parked[actor]; dup {
		s.mu.Unlock()
		panic(fmt.Sprintf("sched: actor %d parked twice", actor))
	}
	s.parked[actor] = slot
	s.mu.Unlock()
	<-slot.ch
}

// Run drives the actors until none is parked.  It returns an error if maxSteps is exceeded or
// if actors are still running but none is parked (a deadlock inside the code under test).
func (s *Sched) Run(maxSteps int) error {
	for {
		Wait() // quiescence: every goroutine of the bubble is durably blocked
		s.mu.Lock()
		if len(s.parked) == 0 {
			running := s.running
			s.mu.Unlock()
			if s.actorPanic != "" {
				return fmt.Errorf("%s", s.actorPanic)
			}
			if running > 0 {
				return fmt.Errorf("deadlock: %d actor(s) blocked inside the code under test, none parked at a seam", running)
			}
			return nil
		}
		ids := make([]int, 0, len(s.parked))
		for id := range s.parked {
			ids = append(ids, id)
		}
		sort.Ints(ids)
		if len(ids) > s.MaxPar {
			s.MaxPar = len(ids)
		}
		choice := 0
		if s.pos < len(s.vec) {
			choice = s.vec[s.pos] % len(ids)
			if choice < 0 {
				choice = -choice
			}
			s.pos++
		}
		id := ids[choice]
		slot := s.parked[id]
		delete(s.parked, id)
		s.Steps++
		s.Trace = append(s.Trace, fmt.Sprintf("%d@%s", id, slot.site))
		s.mu.Unlock()
		if s.Steps > maxSteps {
			return fmt.Errorf("step budget of %d exceeded", maxSteps)
		}
		close(slot.ch)
	}
}
