// Package sim is the kernel shared by all simulated worlds: the scenario/outcome
// types, the rapid-driven worker loop (generation, shrinking, replay files), known-finding
// matching and the per-worker result file that verifctl merges into evidence.
//
// A run is a pure function of its scenario.  The PRNG (rapid's bit stream, seeded from
// VERIF_SEED) is consumed only while a scenario is being generated; the replay file is the
// scenario itself.
package sim

import (
	"crypto/sha256"
	"encoding/hex"
	"encoding/json"
	"flag"
	"fmt"
	"os"
	"path/filepath"
	"regexp"
	"runtime/debug"
	"sort"
	"strconv"
	"strings"
	"testing"
	"time"

	"pgregory.net/rapid"
)

// Violation is one disagreement between the real code and an oracle.
type Violation struct {
	Class  string `json:"class"`  // short, stable tag: "extra-extract", "panic", ...
	Key    string `json:"key"`    // class plus the distinguishing features of the failing input/history; known findings match on it
	Detail string `json:"detail"` // human readable
}

// Outcome is what one scenario execution produced.
type Outcome struct {
	Violations []Violation
	Nontrivial bool             // by the check's stated rule
	Executions int              // real-code executions performed for this scenario (fault plans, orders, ...)
	Counters   map[string]int64 // fault kinds fired, probes hit, ...
	HistoryFP  string           // fingerprint of the recorded history (determinism self-test)
	SimTime    time.Duration    // simulated time covered
	Sample     any              // abbreviated description for the evidence file
	// ReplayScenario, if set, replaces the generated scenario in the replay file (e.g. the
	// scenario narrowed to the one fault plan that violated).
	ReplayScenario any
	// NoShrink: the violation cannot be re-observed in this process (the race detector reports
	// each race once per process); report the scenario as generated and stop.
	NoShrink bool
}

func (o *Outcome) Count(k string, n int64) {
	if o.Counters == nil {
		o.Counters = map[string]int64{}
	}
	o.Counters[k] += n
}

func (o *Outcome) Violate(class, key, format string, a ...any) {
	o.Violations = append(o.Violations, Violation{Class: class, Key: key, Detail: fmt.Sprintf(format, a...)})
}

// Check is one property's simulation: generator, executor+oracle, decoder.
type Check interface {
	ID() string
	// Rule describes how scenarios are generated and what makes one non-trivial.
	Rule() string
	// Gen draws a scenario (a JSON-serialisable value) from rapid's bit stream.
	Gen(rt *rapid.T, tier string) any
	// Decode parses a scenario from a replay file.
	Decode(raw json.RawMessage) (any, error)
	// Run executes the scenario against the real code and evaluates the oracle.  It must not
	// consume randomness.  t is the outer *testing.T (needed for synctest bubbles).
	Run(t *testing.T, sc any) *Outcome
}

// ReplayFile is the on-disk format of a violation report.
type ReplayFile struct {
	Property   string          `json:"property"`
	Seed       int64           `json:"seed"`
	Class      string          `json:"class"`
	Key        string          `json:"key"`
	Detail     string          `json:"detail"`
	Violations []Violation     `json:"violations"`
	HistoryFP  string          `json:"history_fingerprint"`
	Part       int             `json:"part"` // which world of a multi-world check produced it
	Scenario   json.RawMessage `json:"scenario"`
}

// KnownFinding is an entry of known_findings.json.
type KnownFinding struct {
	Status   string `json:"status"` // "known" | "fixed"
	Property string `json:"property"`
	ID       string `json:"id"`
	What     string `json:"what"`
	KeyRegex string `json:"key_regex,omitempty"` // matched against Violation.Key (anchored)
	Commit   string `json:"commit,omitempty"`
	re       *regexp.Regexp
}

// WorkerResult is what one worker process writes for verifctl.
type WorkerResult struct {
	Property     string            `json:"property"`
	Rule         string            `json:"rule"`
	Tier         string            `json:"tier"`
	Seed         int64             `json:"seed"`
	Worker       int               `json:"worker"`
	Scenarios    int               `json:"scenarios"`
	Executions   int               `json:"executions"`
	Nontrivial   int               `json:"nontrivial"`
	DistinctFPs  []uint64          `json:"distinct_fps"`  // hashes of distinct non-trivial scenarios
	DistinctHist []uint64          `json:"distinct_hist"` // hashes of distinct histories
	Counters     map[string]int64  `json:"counters"`
	SimTimeNs    int64             `json:"sim_time_ns"`
	WallS        float64           `json:"wall_s"`
	Samples      []any             `json:"samples"`
	Violations   []ReplayRef       `json:"violations"`
	Known        map[string]int    `json:"known"` // known finding id -> times matched
	KnownSample  map[string]string `json:"known_sample"`
	RapidSeeds   []uint64          `json:"rapid_seeds"`
	Done         bool              `json:"done"`
	Trouble      string            `json:"trouble,omitempty"`
}

type ReplayRef struct {
	Class  string `json:"class"`
	Key    string `json:"key"`
	Detail string `json:"detail"`
	Path   string `json:"path"`
}

func envInt(k string, def int64) int64 {
	if v := os.Getenv(k); v != "" {
		n, err := strconv.ParseInt(v, 10, 64)
		if err == nil {
			return n
		}
	}
	return def
}

func LoadKnown(path, prop string) ([]*KnownFinding, error) {
	if path == "" {
		return nil, nil
	}
	b, err := os.ReadFile(path)
	if err != nil {
		return nil, err
	}
	var all []*KnownFinding
	if err := json.Unmarshal(b, &all); err != nil {
		return nil, fmt.Errorf("known findings: %w", err)
	}
	var out []*KnownFinding
	for _, k := range all {
		if k.Property != prop || k.Status != "known" {
			continue
		}
		re, err := regexp.Compile("^(?:" + k.KeyRegex + ")$")
		if err != nil {
			return nil, fmt.Errorf("known finding %s: %w", k.ID, err)
		}
		k.re = re
		out = append(out, k)
	}
	return out, nil
}

func matchKnown(known []*KnownFinding, v Violation) *KnownFinding {
	for _, k := range known {
		if k.re.MatchString(v.Key) {
			return k
		}
	}
	return nil
}

func hash64(b []byte) uint64 {
	h := sha256.Sum256(b)
	var x uint64
	for i := 0; i < 8; i++ {
		x = x<<8 | uint64(h[i])
	}
	return x
}

// FP returns a short hex fingerprint of any JSON-serialisable value.
func FP(v any) string {
	b, _ := json.Marshal(v)
	h := sha256.Sum256(b)
	return hex.EncodeToString(h[:8])
}

type captureTB struct {
	name   string
	failed bool
	msgs   []string
}

func (c *captureTB) Helper()                  {}
func (c *captureTB) Name() string             { return c.name }
func (c *captureTB) Logf(f string, a ...any)  {}
func (c *captureTB) Log(a ...any)             {}
func (c *captureTB) Skipf(f string, a ...any) {}
func (c *captureTB) Skip(a ...any)            {}
func (c *captureTB) SkipNow()                 {}
func (c *captureTB) Errorf(f string, a ...any) {
	c.failed = true
	c.msgs = append(c.msgs, fmt.Sprintf(f, a...))
}
func (c *captureTB) Error(a ...any)            { c.failed = true; c.msgs = append(c.msgs, fmt.Sprint(a...)) }
func (c *captureTB) Fatalf(f string, a ...any) { c.Errorf(f, a...) }
func (c *captureTB) Fatal(a ...any)            { c.Error(a...) }
func (c *captureTB) FailNow()                  { c.failed = true }
func (c *captureTB) Fail()                     { c.failed = true }
func (c *captureTB) Failed() bool              { return c.failed }

// safeRun runs the check and converts a panic that reaches the harness frame into a
// violation of class "panic" (the harness never recovers inside the engine).
func safeRun(t *testing.T, c Check, sc any) (out *Outcome) {
	defer func() {
		if r := recover(); r != nil {
			st := string(debug.Stack())
			out = &Outcome{Executions: 1}
			out.Violate("panic", "panic:"+panicSite(st), "panic reached the harness: %v\n%s", r, trimStack(st))
		}
	}()
	return c.Run(t, sc)
}

var reFrame = regexp.MustCompile(`(?m)^(github\.com/google/osv-scalibr[^\s(]*)\(`)

func panicSite(stack string) string {
	m := reFrame.FindStringSubmatch(stack)
	if m != nil {
		return m[1]
	}
	return "unknown"
}

func trimStack(s string) string {
	lines := strings.Split(s, "\n")
	if len(lines) > 40 {
		lines = lines[:40]
	}
	return strings.Join(lines, "\n")
}

// RunWorker is the body of every world's TestWorker.
//
// Environment: VERIF_PROP, VERIF_TIER, VERIF_SEED, VERIF_WORKER, VERIF_NWORKERS,
// VERIF_MAX_SCENARIOS, VERIF_MAX_SECONDS, VERIF_OUT (result json), VERIF_REPLAY_DIR,
// VERIF_KNOWN (known_findings.json), VERIF_REPLAY (replay mode: path of a replay file).
func RunWorker(t *testing.T, checks []Check) {
	prop := os.Getenv("VERIF_PROP")
	var c Check
	for _, x := range checks {
		if x.ID() == prop {
			c = x
		}
	}
	if c == nil {
		t.Skipf("VERIF_PROP=%q not served by this world", prop)
		return
	}
	outPath := os.Getenv("VERIF_OUT")
	res := &WorkerResult{Property: prop, Tier: os.Getenv("VERIF_TIER"), Seed: envInt("VERIF_SEED", 1),
		Rule: c.Rule(), Worker: int(envInt("VERIF_WORKER", 0)), Counters: map[string]int64{}, Known: map[string]int{}, KnownSample: map[string]string{}}
	if res.Tier == "" {
		res.Tier = "quick"
	}
	writeRes := func() {
		if outPath == "" {
			return
		}
		b, _ := json.Marshal(res)
		tmp := outPath + ".tmp"
		if err := os.WriteFile(tmp, b, 0o644); err == nil {
			os.Rename(tmp, outPath)
		}
	}
	known, err := LoadKnown(os.Getenv("VERIF_KNOWN"), prop)
	if err != nil {
		res.Trouble = err.Error()
		writeRes()
		t.Fatalf("%v", err)
	}
	replayDir := os.Getenv("VERIF_REPLAY_DIR")
	if replayDir == "" {
		replayDir = "."
	}

	if rp := os.Getenv("VERIF_REPLAY"); rp != "" {
		replay(t, c, rp, known, res)
		res.Done = true
		writeRes()
		return
	}

	maxScen := envInt("VERIF_MAX_SCENARIOS", 200)
	maxSec := envInt("VERIF_MAX_SECONDS", 60)
	nworkers := envInt("VERIF_NWORKERS", 1)
	start := time.Now()
	deadline := start.Add(time.Duration(maxSec) * time.Second)
	fps := map[uint64]struct{}{}
	hists := map[uint64]struct{}{}
	flag.Set("rapid.nofailfile", "true")
	flag.Set("rapid.shrinktime", "45s")

	var firstClass string // class of the first unknown violation; shrinking keeps to it
	var lastReplay *ReplayFile

	stop := false
	curFile := os.Getenv("VERIF_CURRENT_FILE")
	if cp, ok := c.(interface{ CrashProne() bool }); !ok || !cp.CrashProne() {
		curFile = ""
	}
	prop1 := func(rt *rapid.T) {
		sc := c.Gen(rt, res.Tier)
		if stop {
			return
		}
		raw, err := json.Marshal(sc)
		if err != nil {
			panic(fmt.Sprintf("harness: scenario not serialisable: %v", err))
		}
		if curFile != "" {
			// the code under test may take the whole process down (panic in a goroutine it
			// started, runtime fatal error): leave the scenario where the coordinator finds it
			os.WriteFile(curFile, raw, 0o644)
		}
		out := safeRun(t, c, sc)
		shrinking := firstClass != ""
		if !shrinking {
			res.Scenarios++
			res.Executions += out.Executions
			for k, v := range out.Counters {
				res.Counters[k] += v
			}
			res.SimTimeNs += int64(out.SimTime)
			if out.Nontrivial {
				res.Nontrivial++
				fps[hash64(raw)] = struct{}{}
			}
			if out.HistoryFP != "" {
				hists[hash64([]byte(out.HistoryFP))] = struct{}{}
			}
			if out.Sample != nil && (len(res.Samples) < 4) && (out.Nontrivial || res.Scenarios > 50) {
				res.Samples = append(res.Samples, out.Sample)
			}
		}
		var unknown []Violation
		for _, v := range out.Violations {
			if k := matchKnown(known, v); k != nil {
				if !shrinking {
					res.Known[k.ID]++
					if _, ok := res.KnownSample[k.ID]; !ok {
						res.KnownSample[k.ID] = v.Detail
					}
				}
				continue
			}
			unknown = append(unknown, v)
		}
		if len(unknown) == 0 {
			return
		}
		var pick *Violation
		if firstClass == "" {
			firstClass = unknown[0].Class
			pick = &unknown[0]
		} else {
			for i := range unknown {
				if unknown[i].Class == firstClass {
					pick = &unknown[i]
					break
				}
			}
		}
		if pick == nil {
			return // a different violation class: not the one being minimised
		}
		rsc := raw
		if out.ReplayScenario != nil {
			if b, err := json.Marshal(out.ReplayScenario); err == nil {
				rsc = b
			}
		}
		lastReplay = &ReplayFile{Property: prop, Seed: res.Seed, Class: pick.Class, Key: pick.Key, Detail: pick.Detail,
			Violations: unknown, HistoryFP: out.HistoryFP, Scenario: rsc, Part: int(envInt("VERIF_PART", 0))}
		if out.NoShrink {
			stop = true
			return
		}
		rt.Fatalf("VIOLATION %s %s: %s", prop, pick.Class, pick.Detail)
	}

	chunk := 0
	for res.Scenarios < int(maxScen) && time.Now().Before(deadline) {
		n := int(maxScen) - res.Scenarios
		if n > 100 {
			n = 100
		}
		// rapid seed: a pure function of (VERIF_SEED, worker, chunk); never 0 (0 = random).
		rs := uint64(res.Seed)*1_000_003 + uint64(res.Worker)*10_007 + uint64(chunk)*uint64(nworkers+1)*131 + 1
		chunk++
		res.RapidSeeds = append(res.RapidSeeds, rs)
		flag.Set("rapid.seed", strconv.FormatUint(rs, 10))
		flag.Set("rapid.checks", strconv.Itoa(n))
		ctb := &captureTB{name: "verif-" + prop}
		rapid.Check(ctb, prop1)
		if lastReplay != nil {
			// rapid has shrunk; lastReplay is the last failing (minimal) scenario it executed.
			name := fmt.Sprintf("%s-s%d-w%d-%s.json", prop, res.Seed, res.Worker, FP(lastReplay.Scenario))
			p := filepath.Join(replayDir, name)
			b, _ := json.MarshalIndent(lastReplay, "", " ")
			os.MkdirAll(replayDir, 0o755)
			if err := os.WriteFile(p, b, 0o644); err != nil {
				res.Trouble = "cannot write replay file: " + err.Error()
			}
			res.Violations = append(res.Violations, ReplayRef{Class: lastReplay.Class, Key: lastReplay.Key, Detail: lastReplay.Detail, Path: p})
			break
		}
		if ctb.failed {
			// rapid failed without a recorded violation: generator trouble
			res.Trouble = "rapid: " + strings.Join(ctb.msgs, "; ")
			break
		}
		if chunk%5 == 0 {
			res.WallS = time.Since(start).Seconds()
			writeRes()
		}
	}
	res.WallS = time.Since(start).Seconds()
	for k := range fps {
		res.DistinctFPs = append(res.DistinctFPs, k)
	}
	for k := range hists {
		res.DistinctHist = append(res.DistinctHist, k)
	}
	sort.Slice(res.DistinctFPs, func(i, j int) bool { return res.DistinctFPs[i] < res.DistinctFPs[j] })
	sort.Slice(res.DistinctHist, func(i, j int) bool { return res.DistinctHist[i] < res.DistinctHist[j] })
	res.Done = true
	writeRes()
}

func replay(t *testing.T, c Check, path string, known []*KnownFinding, res *WorkerResult) {
	b, err := os.ReadFile(path)
	if err != nil {
		res.Trouble = err.Error()
		return
	}
	var rf ReplayFile
	if err := json.Unmarshal(b, &rf); err != nil {
		res.Trouble = "replay file: " + err.Error()
		return
	}
	sc, err := c.Decode(rf.Scenario)
	if err != nil {
		res.Trouble = "replay scenario: " + err.Error()
		return
	}
	reps := int(envInt("VERIF_REPLAY_REPS", 1))
	for i := 0; i < reps; i++ {
		out := safeRun(t, c, sc)
		res.Scenarios++
		res.Executions += out.Executions
		for _, v := range out.Violations {
			if k := matchKnown(known, v); k != nil {
				res.Known[k.ID]++
				res.KnownSample[k.ID] = v.Detail
				continue
			}
			res.Violations = append(res.Violations, ReplayRef{Class: v.Class, Key: v.Key, Detail: v.Detail, Path: path})
		}
		if len(res.Violations) > 0 {
			fmt.Printf("replay: history fingerprint %s (recorded %s)\n", out.HistoryFP, rf.HistoryFP)
			break
		}
	}
}
