package guidedremediation

// Added to the package only in the verification build (go test -overlay); never part of
// the repository.  It references nothing but exported functions of the internal packages,
// so that edits of guidedremediation.go itself cannot break the harness build.

import (
	"context"
	"errors"
	"path/filepath"
	"strings"

	"deps.dev/util/resolve"
	"deps.dev/util/resolve/dep"
	scalibrfs "github.com/google/osv-scalibr/fs"
	"github.com/google/osv-scalibr/guidedremediation/internal/manifest"
	"github.com/google/osv-scalibr/guidedremediation/internal/manifest/maven"
	"github.com/google/osv-scalibr/guidedremediation/internal/manifest/npm"
	"github.com/google/osv-scalibr/guidedremediation/internal/remediation"
	"github.com/google/osv-scalibr/guidedremediation/internal/strategy/override"
	"github.com/google/osv-scalibr/guidedremediation/internal/strategy/relax"
	"github.com/google/osv-scalibr/guidedremediation/options"
	"github.com/google/osv-scalibr/guidedremediation/result"
)

// VerifAnalysis is what the harness may look at without going through choosePatches.
type VerifAnalysis struct {
	VulnIDs []string       // in-scope vulnerabilities of the manifest as it is on disk
	Nodes   [][2]string    // (name, version) of every node of the resolved graph except the root
	Edges   [][4]string    // (from name, from version, to name, to version); root is ("", "")
	Direct  [][3]string    // (requirement name, KnownAs alias, resolved version) of every root edge
	Patches []result.Patch // complete result of the strategy's ComputePatches (nil unless requested)
	Errors  []string       // node errors of the resolved graph
}

// VerifAnalyse reads and resolves the manifest exactly as FixVulns does and, if compute is
// set, runs the strategy's ComputePatches; nothing is chosen and nothing is written.
func VerifAnalyse(opts options.FixVulnsOptions, compute bool) (*VerifAnalysis, error) {
	var rw manifest.ReadWriter
	var err error
	switch strings.ToLower(filepath.Base(opts.Manifest)) {
	case "pom.xml":
		rw, err = maven.GetReadWriter(opts.DefaultRepository)
	case "package.json":
		rw, err = npm.GetReadWriter(opts.DefaultRepository)
	default:
		err = errors.New("unsupported manifest")
	}
	if err != nil {
		return nil, err
	}
	abs, err := filepath.Abs(opts.Manifest)
	if err != nil {
		return nil, err
	}
	m, err := rw.Read(strings.TrimPrefix(filepath.ToSlash(abs), "/"), scalibrfs.DirFS("/"))
	if err != nil {
		return nil, err
	}
	ctx := context.Background()
	resolved, err := remediation.ResolveManifest(ctx, opts.ResolveClient, opts.MatcherClient, m, &opts.RemediationOptions)
	if err != nil {
		return nil, err
	}
	a := &VerifAnalysis{}
	for _, v := range resolved.Vulns {
		a.VulnIDs = append(a.VulnIDs, v.OSV.ID)
	}
	g := resolved.Graph
	for i, n := range g.Nodes {
		if i > 0 {
			a.Nodes = append(a.Nodes, [2]string{n.Version.Name, n.Version.Version})
		}
		for _, e := range n.Errors {
			a.Errors = append(a.Errors, n.Version.Name+"@"+n.Version.Version+": "+e.Req.Name+"@"+e.Req.Version+": "+e.Error)
		}
	}
	nv := func(id resolve.NodeID) (string, string) {
		if id == 0 {
			return "", ""
		}
		return g.Nodes[id].Version.Name, g.Nodes[id].Version.Version
	}
	for _, e := range g.Edges {
		fn, fv := nv(e.From)
		tn, tv := nv(e.To)
		a.Edges = append(a.Edges, [4]string{fn, fv, tn, tv})
		if e.From == 0 {
			alias, _ := e.Type.GetAttr(dep.KnownAs)
			a.Direct = append(a.Direct, [3]string{tn, alias, tv})
		}
	}
	if compute {
		if m.System() == resolve.NPM {
			a.Patches, err = relax.ComputePatches(ctx, opts.ResolveClient, opts.MatcherClient, resolved, &opts.RemediationOptions)
		} else {
			a.Patches, err = override.ComputePatches(ctx, opts.ResolveClient, opts.MatcherClient, resolved, &opts.RemediationOptions)
		}
		if err != nil {
			return nil, err
		}
		if a.Patches == nil {
			a.Patches = []result.Patch{}
		}
	}
	return a, nil
}
