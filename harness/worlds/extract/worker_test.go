package extract

import (
	"testing"

	"verif/sim"
)

// TestWorker is the entry point verifctl spawns (one OS process per worker).
func TestWorker(t *testing.T) {
	sim.Quiet()
	if inChild() {
		childMain([]evaluator{C02{}, C06{}, C08X{}})
	}
	sim.RunWorker(t, []sim.Check{C02{}, C06{}, C08X{}})
}
