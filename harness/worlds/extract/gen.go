package extract

import (
	"bytes"
	"fmt"
	"os"
	"path"
	"strings"

	"github.com/google/osv-scalibr/plugin"
	"pgregory.net/rapid"
)

type reqOnly struct{ req plugin.Capabilities }

func (r reqOnly) Name() string                       { return "probe" }
func (r reqOnly) Version() int                       { return 0 }
func (r reqOnly) Requirements() *plugin.Capabilities { return &r.req }

// enabled lists the covered extractors that can run under the capabilities (sorted).
func (t *table) enabled(osName string, running, real bool) []string {
	caps := &plugin.Capabilities{OS: osOf(osName), Network: plugin.NetworkOffline, RunningSystem: running, DirectFS: real}
	var out []string
	for _, n := range t.Names {
		if plugin.ValidateRequirements(reqOnly{t.Ext[n].Req}, caps) == nil {
			out = append(out, n)
		}
	}
	return out
}

// placer accumulates the files of a tree and keeps placements apart: no two placements
// share a path, and no placement lives inside the directory of another one.
type placer struct {
	t     *table
	files []FileSpec
	used  map[string]bool // file paths
	dirs  map[string]bool // directories owned by a placement
	next  int             // placement index {i}
	group int
	alone bool        // place the next fixture without its companion files (go.sum, _locales, metadata.db)
	fixOf map[int]int // index in files -> fixture index (main files placed through place)
}

func newPlacer(t *table) *placer {
	return &placer{t: t, used: map[string]bool{}, dirs: map[string]bool{}}
}

func (p *placer) free(fp string) bool {
	if p.used[fp] || p.dirs[fp] {
		return false
	}
	for d := path.Dir(fp); d != "."; d = path.Dir(d) {
		if p.used[d] {
			return false
		}
	}
	for i := range p.files {
		if strings.HasPrefix(p.files[i].Path, fp+"/") {
			return false
		}
	}
	return true
}

func (p *placer) add(f FileSpec) bool {
	if !p.free(f.Path) {
		return false
	}
	p.used[f.Path] = true
	p.files = append(p.files, f)
	return true
}

func fixSrc(f *fixture) Src {
	if f.Synth != nil {
		return cloneSrc(*f.Synth)
	}
	return Src{Fix: f.Rel}
}

func cloneSrc(s Src) Src {
	c := s
	c.Ops = append([]Op(nil), s.Ops...)
	c.Zip = nil
	for _, e := range s.Zip {
		c.Zip = append(c.Zip, ZipEnt{Name: e.Name, Src: cloneSrc(e.Src), Deflate: e.Deflate})
	}
	return c
}

// place puts fixture fi at template tm (instantiated with a fresh index and directory d) and
// brings its companions along.  Returns the index of the main file in p.files, or -1.
func (p *placer) place(fi int, tm string, d string) int {
	f := p.t.Fix[fi]
	i := p.next
	p.next++
	fp := inst(tm, f.Sub, i, inst(d, f.Sub, i, ""))
	if !p.free(fp) {
		return -1
	}
	main := FileSpec{Path: fp, Src: fixSrc(f), Exec: f.Exec}
	info := p.t.Ext[f.Ext]
	var comp []FileSpec
	switch {
	case info.Def.Tree && strings.Contains(tm, "{rel}") && strings.Contains(f.Sub, "/"):
		// the other files of the fixture's directory, at the same relative position
		base := path.Dir(f.Sub)
		for _, s := range info.Subs {
			if s != f.Sub && strings.HasPrefix(s, base+"/") && info.Sizes[s] <= 300_000 {
				comp = append(comp, FileSpec{Path: path.Join(path.Dir(fp), strings.TrimPrefix(s, base+"/")),
					Src: Src{Fix: path.Join("extractor/filesystem", info.Def.Dir, "testdata", s)}})
			}
		}
	case f.Ext == "go/gomod":
		sum := strings.TrimSuffix(f.Sub, ".mod") + ".sum"
		if _, ok := info.Sizes[sum]; ok {
			comp = append(comp, FileSpec{Path: path.Join(path.Dir(fp), "go.sum"), Src: Src{Fix: path.Join("extractor/filesystem", info.Def.Dir, "testdata", sum)}})
		}
	case f.Ext == "containers/containerd":
		if _, ok := info.Sizes["metadata_linux_test.db"]; ok {
			comp = append(comp, FileSpec{Path: "var/lib/containerd/io.containerd.snapshotter.v1.overlayfs/metadata.db",
				Src: Src{Fix: path.Join("extractor/filesystem", info.Def.Dir, "testdata", "metadata_linux_test.db")}})
		}
	}
	if p.alone {
		comp = nil
	}
	if len(comp) > 0 {
		p.group++
		main.Group = p.group
	}
	if !p.add(main) {
		return -1
	}
	idx := len(p.files) - 1
	if p.fixOf == nil {
		p.fixOf = map[int]int{}
	}
	p.fixOf[idx] = fi
	for _, c := range comp {
		c.Group = main.Group
		p.add(c)
	}
	// the placement owns its project directory: nothing else is put next to it
	if strings.Contains(tm, "{d}") {
		p.dirs[inst(d, f.Sub, i, "")] = true
	}
	p.dirs[path.Dir(fp)] = true
	return idx
}

func drawDir(rt *rapid.T, label string, nixOK bool) string {
	n := len(dirPool)
	if !nixOK {
		n--
	}
	return dirPool[pick(rt, n, label)]
}

// genOp draws one corruption operator for a content of about size bytes.
var (
	binKinds  = []string{"trunc", "bitflip", "bitflip", "subst", "subst", "zero", "dup", "swap", "garbage", "empty", "setu32", "setu32", "setu32", "nul"}
	textKinds = []string{"trunc", "bitflip", "subst", "subst", "zero", "dup", "swap", "garbage", "empty", "cutquote", "delclose", "emptyval", "emptyval",
		"longtok", "cutkey", "cutkey", "dupline", "delline", "nul", "crlf", "nullval", "nullval", "nullval", "strval", "strval"}
)

// isBinary: the content looks like a binary format (NUL among the first bytes, or a known magic).
func isBinary(b []byte) bool {
	h := b
	if len(h) > 512 {
		h = h[:512]
	}
	return bytes.IndexByte(h, 0) >= 0 || bytes.HasPrefix(h, []byte("PK")) || bytes.HasPrefix(h, []byte("MZ")) || bytes.HasPrefix(h, []byte("\x7fELF"))
}

// genOp draws one corruption operator; the operator mix depends on whether the content is a
// binary or a text format (quote/bracket/delimiter/line-aware and JSON-structural operators).
func genOp(rt *rapid.T, size int, bin bool, label string) Op {
	kinds := textKinds
	if bin {
		kinds = binKinds
	}
	kind := oneOf(rt, kinds, label+".kind")
	o := Op{Kind: kind}
	switch kind {
	case "nullval", "strval":
		o.Off = rapid.IntRange(0, 300).Draw(rt, label+".node")
		if chance(rt, 50, label+".uni") {
			o.Off = pick(rt, 3000, label+".nodeu")
		}
		o.Val = pick(rt, 64, label+".val")
		return o
	case "cutquote", "delclose", "emptyval", "longtok", "cutkey", "dupline", "delline":
		// Off = which occurrence (reduced modulo their number when applied)
		o.Off = rapid.IntRange(0, 400).Draw(rt, label+".nth")
		if chance(rt, 50, label+".uni") {
			o.Off = pick(rt, 4000, label+".nthu")
		}
		o.Val = rapid.IntRange(0, 5).Draw(rt, label+".val")
		if kind == "longtok" {
			o.Len = oneOf(rt, []int{64, 1024, 4096, 65536, 70000, 1 << 20}, label+".len")
		}
		return o
	case "crlf":
		return o
	}
	if size < 1 {
		size = 1
	}
	switch pick(rt, 4, label+".where") {
	case 3: // binary headers beyond the first bytes (PE optional header / section table, ELF, zip local headers)
		o.Off = rapid.IntRange(0x3c, 0x400).Draw(rt, label+".off")
		if kind == "setu32" && chance(rt, 60, label+".anyfield") {
			o.Off = pick(rt, size+1, label+".off4") // any 32-bit field (metadata row counts, directory sizes, ...)
		}
	case 0: // header
		o.Off = rapid.IntRange(0, 63).Draw(rt, label+".off")
	case 1: // trailer (zip central directory, closing brackets, ...)
		o.Off = rapid.IntRange(0, 63).Draw(rt, label+".off")
		o.FromEnd = true
	default:
		o.Off = pick(rt, size+1, label+".off")
	}
	switch kind {
	case "bitflip":
		o.Val = rapid.IntRange(0, 7).Draw(rt, label+".bit")
	case "subst":
		o.Val = oneOf(rt, []int{0, 0xff, '\n', '"', '{', '[', '<', ' ', '\\', 0x80, '-', ':', '0', '9', 'A'}, label+".byte")
	case "zero", "dup", "swap":
		o.Len = oneOf(rt, []int{1, 2, 4, 8, 16, 64, 512, 4096}, label+".len")
	case "setu32":
		o.Val = rapid.IntRange(0, 7).Draw(rt, label+".u32")
	case "nul":
		o.Len = oneOf(rt, []int{1, 2, 16, 4096}, label+".len")
	case "garbage":
		o.Len = oneOf(rt, []int{1, 4, 16, 64, 1024, 70000}, label+".len")
		o.Val = rapid.IntRange(0, 255).Draw(rt, label+".seed")
	}
	return o
}

func genOps(rt *rapid.T, content []byte, label string) []Op {
	n := rapid.IntRange(1, 4).Draw(rt, label+".n")
	bin := isBinary(content)
	var ops []Op
	for i := 0; i < n; i++ {
		ops = append(ops, genOp(rt, len(content), bin, fmt.Sprintf("%s.%d", label, i)))
	}
	return ops
}

func pickFixture(rt *rapid.T, t *table, ext string, maxSize int, preferGood bool, label string) int {
	var good, all []int
	for _, fi := range t.Ext[ext].Fix {
		f := t.Fix[fi]
		if f.Size > maxSize {
			continue
		}
		all = append(all, fi)
		if f.Good {
			good = append(good, fi)
		}
	}
	if len(all) == 0 {
		return -1
	}
	if preferGood && len(good) > 0 && chance(rt, 80, label+".good") {
		return good[pick(rt, len(good), label+".fix")]
	}
	return all[pick(rt, len(all), label+".fix")]
}

func homeTmpl(rt *rapid.T, t *table, fi int, label string) string {
	f := t.Fix[fi]
	return t.Ext[f.Ext].Def.Tmpl[f.Tmpls[pick(rt, len(f.Tmpls), label)]]
}

const osRelease = "NAME=\"Debian GNU/Linux\"\nID=debian\nVERSION_ID=\"12\"\nVERSION_CODENAME=bookworm\n"

var osReleaseVariants = []string{
	osRelease,
	"PRETTY_NAME=\"Ubuntu 22.04.4 LTS\"\nNAME=\"Ubuntu\"\nVERSION_ID=\"22.04\"\nVERSION=\"22.04.4 LTS (Jammy Jellyfish)\"\nVERSION_CODENAME=jammy\nID=ubuntu\nID_LIKE=debian\nHOME_URL=\"https://www.ubuntu.com/\"\n",
	"NAME=\"Alpine Linux\"\nID=alpine\nVERSION_ID=3.19.1\nPRETTY_NAME=\"Alpine Linux v3.19\"\n",
	"NAME='Fedora Linux'\nVERSION='39 (Container Image)'\nID=fedora\nVERSION_ID=39\nBUILD_ID=\"20240101\"\n# a comment\n\nVARIANT_ID=container\n",
	"ID=cos\nBUILD_ID=17800.147.22\nVERSION_ID=109\nNAME=\"Container-Optimized OS\"\n",
}

// genEnv draws the capability part of a scenario.
func genEnv(rt *rapid.T, realShare int) (osName string, running bool, mode string) {
	osName = oneOf(rt, []string{"linux", "linux", "linux", "linux", "linux", "linux", "windows", "windows", "mac", "mac"}, "os")
	running = rapid.Bool().Draw(rt, "running")
	mode = "sim"
	if osName == "windows" && realShare < 25 {
		// dotnet/pe only gets to parse a PE file on a real directory (through a virtual root its
		// temporary copy lacks the two magic bytes it has already consumed)
		realShare = 25
	}
	if chance(rt, realShare, "mode") {
		mode = "real"
	}
	if info := theTable().Ext[os.Getenv("VERIF_X_ONLY")]; info != nil {
		// targeted run: capabilities under which that extractor is enabled
		running = running || info.Req.RunningSystem
		switch info.Req.OS {
		case plugin.OSWindows:
			osName = "windows"
		case plugin.OSMac:
			osName = "mac"
		case plugin.OSLinux:
			osName = "linux"
		}
		if info.Req.DirectFS {
			mode = "real"
		}
	}
	return
}

// addHealthy places n healthy fixtures of distinct extractors (none of them in avoid).
func addHealthy(rt *rapid.T, p *placer, enabled []string, avoid map[string]bool, n int, maxSize int) []string {
	t := p.t
	var cands []string
	for _, e := range enabled {
		if t.Ext[e].Why == "" && !avoid[e] {
			cands = append(cands, e)
		}
	}
	var placed []string
	for k := 0; k < n && len(cands) > 0; k++ {
		ci := pick(rt, len(cands), fmt.Sprintf("h%d.ext", k))
		e := cands[ci]
		cands = append(cands[:ci:ci], cands[ci+1:]...)
		fi := pickFixture(rt, t, e, maxSize, true, fmt.Sprintf("h%d", k))
		if fi < 0 {
			continue
		}
		p.alone = chance(rt, 20, fmt.Sprintf("h%d.alone", k))
		idx := p.place(fi, homeTmpl(rt, t, fi, fmt.Sprintf("h%d.tm", k)), drawDir(rt, fmt.Sprintf("h%d.dir", k), false))
		p.alone = false
		if idx >= 0 {
			placed = append(placed, e)
		}
	}
	return placed
}

func chunkFor(rt *rapid.T, total int) int {
	switch {
	case total <= 16<<10:
		return oneOf(rt, []int{0, 1, 7, 13, 4096}, "chunk")
	case total <= 160<<10:
		return oneOf(rt, []int{0, 13, 509, 4096}, "chunk")
	}
	return oneOf(rt, []int{0, 4096, 65536}, "chunk")
}

func totalSize(files []FileSpec) int {
	n := 0
	for i := range files {
		if b, err := files[i].Src.Bytes(false); err == nil {
			n += len(b)
		}
	}
	return n
}

// rapid's integer generators are deliberately biased towards small values; choices among
// alternatives (which extractor, which fixture, which kind) should be uniform instead, so they
// are derived from a full-width draw through a fixed mixing function (splitmix64).
func pick(rt *rapid.T, n int, label string) int {
	if n <= 1 {
		return 0
	}
	// rapid favours a handful of special values (0, 1, max, ...) with several per cent each: one
	// draw, however well mixed, keeps those spikes.  Three independent draws are mixed, so that a
	// spike needs all three to be special at once.
	var x uint64
	for i, c := range []uint64{0x9e3779b97f4a7c15, 0xd6e8feb86659fd93, 0xa0761d6478bd642f} {
		d := rapid.Uint64().Draw(rt, fmt.Sprintf("%s.%d", label, i)) + c
		d = (d ^ (d >> 30)) * 0xbf58476d1ce4e5b9
		d = (d ^ (d >> 27)) * 0x94d049bb133111eb
		x ^= d ^ (d >> 31)
		x = x<<21 | x>>43
	}
	return int(x % uint64(n))
}

func chance(rt *rapid.T, pct int, label string) bool { return pick(rt, 100, label) < pct }

func oneOf[T any](rt *rapid.T, xs []T, label string) T { return xs[pick(rt, len(xs), label)] }

// addDuplicate installs a second copy of an already placed healthy fixture at another production
// path of its extractor (the same Chrome extension for two channels, the same assembly or lock file
// in two projects): two identical packages of one extractor.
func addDuplicate(rt *rapid.T, p *placer, skip int) {
	var placed []int
	for i := range p.files {
		if _, ok := p.fixOf[i]; ok && i != skip {
			placed = append(placed, i)
		}
	}
	if len(placed) == 0 {
		return
	}
	src := placed[pick(rt, len(placed), "dup.which")]
	fi := p.fixOf[src]
	f := p.t.Fix[fi]
	def := p.t.Ext[f.Ext].Def
	start := pick(rt, len(f.Tmpls), "dup.tm")
	for k := range f.Tmpls {
		tm := def.Tmpl[f.Tmpls[(start+k)%len(f.Tmpls)]]
		if p.place(fi, tm, drawDir(rt, fmt.Sprintf("dup.dir%d", k), false)) >= 0 {
			return
		}
	}
}
