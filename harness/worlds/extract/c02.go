package extract

import (
	"encoding/json"
	"fmt"
	"os"
	"path"
	"sort"
	"strings"
	"testing"

	"github.com/google/osv-scalibr/plugin"
	"pgregory.net/rapid"
	"verif/sim"
	"verif/worlds/scan"
)

// C02Scenario: a tree of healthy fixtures + one victim whose Src carries corruption operators
// and which an optional read fault hits.  Everything the run needs is in here; contents are
// referenced by repository path.
type C02Scenario struct {
	RunSpec
	Victim int    `json:"victim"` // index into Files
	Kind   string `json:"kind"`   // how the victim was chosen (informational)
}

type C02 struct{}

func (C02) ID() string { return "C02" }

func (C02) Rule() string {
	return "Tree with 3-8 healthy repository fixtures of different built-in extractors at production paths (probed with the real FileRequired) + one victim: a fixture with 1-4 stacked corruption operators (truncate, bit flip, byte substitution, zero block, duplicated/transposed block, garbage tail, emptied; also on an inner file of a zip container), seeded read chunking, optional read fault on the victim; multi-file fixtures (requirements -r includes incl. self-includes and >64 KiB lines, go.sum, chrome _locales); victims required by two or more extractors in both extractor orders; foreign content at another extractor's path; sibling zip bombs; accepted paths that cannot be stat'ed (sticky/one-shot stat fault) or have been replaced by a dangling link / a link to a directory (ReadSymlinks); one-shot and persistent (sticky) read faults; a harness canary extractor (canary-*.txt) in every scan that panics or errors on a marker the scenario plants = plugin failure as a fault kind. Two real Scanner.Scan runs (healthy baseline, corrupted) with every extractor enabled that the capabilities allow. Non-trivial = the corrupted content differs from the healthy one (or the read fault fired), an extractor that got the victim returned an error or different packages, and at least one other extractor reported packages. " + theTable().summary()
}

func (C02) Decode(raw json.RawMessage) (any, error) {
	var s C02Scenario
	if err := json.Unmarshal(raw, &s); err != nil {
		return nil, err
	}
	return &s, nil
}

func (C02) Gen(rt *rapid.T, tier string) any {
	t := theTable()
	if t.Err != nil {
		panic("harness: " + t.Err.Error())
	}
	osName, running, mode := genEnv(rt, 8)
	enabled := t.enabled(osName, running, mode == "real")
	var cov []string
	for _, e := range enabled {
		if t.Ext[e].Why == "" {
			cov = append(cov, e)
		}
	}
	sc := &C02Scenario{RunSpec: RunSpec{Mode: mode, OS: osName, Running: running, CancelAt: -1}}
	p := newPlacer(t)
	kind := oneOf(rt, []string{"plain", "plain", "plain", "plain", "shared", "shared", "include", "inner", "foreign", "sibling",
		"nostat", "symlink", "canary"}, "kind")
	if kind == "nostat" && mode == "real" {
		kind = "symlink" // stat faults need the simulated disk; a dangling link works on the real one too
	}
	if chance(rt, 2, "zipbomb") {
		kind = "zipbomb"
	}
	if os.Getenv("VERIF_X_ONLY") != "" {
		kind = "plain"
	}
	if os.Getenv("VERIF_X_ONLY") == "osrelease" || (mode == "sim" && chance(rt, 5, "osrel")) {
		kind = "osrelease"
	}
	if mode == "real" && rapid.Bool().Draw(rt, "containerd") {
		kind = oneOf(rt, []string{"containerd", "containerd-graph"}, "containerd.kind")
	}
	if pick(rt, 2000, "elfbomb") < 3 && os.Getenv("VERIF_X_ONLY") == "" || os.Getenv("VERIF_X_ONLY") == "elfbomb" {
		kind = "elfbomb"
	}
	if os.Getenv("VERIF_X_ONLY") == "containerd-graph" {
		kind = "containerd-graph"
	}
	if pick(rt, 2000, "eggbomb") < 3 && os.Getenv("VERIF_X_ONLY") == "" || os.Getenv("VERIF_X_ONLY") == "eggbomb" {
		kind = "eggbomb"
	}
	if pick(rt, 2000, "propchain") < 3 && os.Getenv("VERIF_X_ONLY") == "" || os.Getenv("VERIF_X_ONLY") == "propchain" {
		kind = "propchain"
	}
	if chance(rt, 2, "workspace") && os.Getenv("VERIF_X_ONLY") == "" || os.Getenv("VERIF_X_ONLY") == "workspace" {
		kind = "workspace"
	}
	if mode == "sim" && chance(rt, 6, "compfault") && os.Getenv("VERIF_X_ONLY") == "" || os.Getenv("VERIF_X_ONLY") == "companion-fault" {
		kind = "companion-fault"
	}
	maxV := 256 << 10
	if chance(rt, 10, "bigvictim") {
		maxV = maxFixtureBytes
	}
	victim := -1
	avoid := map[string]bool{}
	switch kind {
	case "shared":
		var cands []int
		for i, sp := range t.Shared {
			n := 0
			for _, o := range sp.Owners {
				if has(enabled, o) {
					n++
				}
			}
			if n >= 2 && has(enabled, t.Fix[sp.Fix].Ext) {
				cands = append(cands, i)
			}
		}
		if len(cands) > 0 {
			sp := t.Shared[cands[pick(rt, len(cands), "shared")]]
			victim = p.place(sp.Fix, sp.Tmpl, "srv/app{i}")
			var own []string
			for _, o := range sp.Owners {
				if has(enabled, o) {
					own = append(own, o)
				}
			}
			// both orders of the owners: a drawn rotation + optional reversal
			r := pick(rt, len(own), "rot")
			own = append(own[r:], own[:r]...)
			if rapid.Bool().Draw(rt, "swap") {
				for i, j := 0, len(own)-1; i < j; i, j = i+1, j-1 {
					own[i], own[j] = own[j], own[i]
				}
			}
			sc.Order.Front = own
			for _, o := range own {
				avoid[o] = true
			}
		}
	case "include":
		if has(enabled, "python/requirements") && t.Ext["python/requirements"].Why == "" {
			victim = genInclude(rt, p)
			avoid["python/requirements"] = true
		}
	case "inner":
		var cands []int
		for fi, f := range t.Fix {
			if f.Synth != nil && has(enabled, f.Ext) {
				cands = append(cands, fi)
			}
		}
		if len(cands) > 0 {
			fi := cands[pick(rt, len(cands), "synth")]
			victim = p.place(fi, homeTmpl(rt, t, fi, "v.tm"), drawDir(rt, "v.dir", true))
			if victim >= 0 {
				// corrupt one inner file of the structurally valid container
				z := p.files[victim].Src.Zip
				zi := pick(rt, len(z), "inner")
				inner, _ := z[zi].Src.Bytes(false)
				z[zi].Src.Ops = genOps(rt, inner, "iop")
				avoid[t.Fix[fi].Ext] = true
			}
		}
	case "osrelease":
		// the victim is a COMPANION file: os-release, which every OS extractor reads through
		// input.FS next to its own (healthy) database
		if mode == "sim" {
			var osx []string
			for _, e := range cov {
				if strings.HasPrefix(e, "os/") && e != "os/homebrew" && e != "os/macapps" {
					osx = append(osx, e)
				}
			}
			for k, n := 0, 2+pick(rt, 3, "osr.n"); k < n && len(osx) > 0; k++ {
				ci := pick(rt, len(osx), fmt.Sprintf("osr.ext%d", k))
				e := osx[ci]
				osx = append(osx[:ci:ci], osx[ci+1:]...)
				if fi := pickFixture(rt, t, e, 600_000, true, fmt.Sprintf("osr%d", k)); fi >= 0 {
					p.place(fi, homeTmpl(rt, t, fi, fmt.Sprintf("osr%d.tm", k)), drawDir(rt, fmt.Sprintf("osr%d.dir", k), true))
					avoid[e] = true
				}
			}
			src := Src{Text: oneOf(rt, osReleaseVariants, "osr.text")}
			if chance(rt, 50, "osr.targeted") {
				// a value cut right after the delimiter, optionally keeping its first character (a lone quote)
				src.Ops = append(src.Ops, Op{Kind: "emptyval", Off: pick(rt, 12, "osr.line"), Val: pick(rt, 2, "osr.keep")})
			}
			if len(src.Ops) == 0 || chance(rt, 50, "osr.more") {
				src.Ops = append(src.Ops, genOps(rt, []byte(src.Text), "osr.op")...)
			}
			fifo := chance(rt, 15, "osr.fifo")
			if fifo {
				src.Ops = nil // the file has been replaced by a named pipe nobody writes to
			}
			if p.add(FileSpec{Path: oneOf(rt, []string{"etc/os-release", "etc/os-release", "usr/lib/os-release"}, "osr.path"), Src: src, CorruptFifo: fifo}) {
				victim = len(p.files) - 1
			}
		}
	case "propchain":
		// structured text input: a pom.xml whose properties are defined in terms of each other, every
		// level using the next one twice (expansion doubles per level)
		if has(enabled, "java/pomxml") {
			i := p.next
			p.next++
			n := oneOf(rt, []int{10, 16, 20, 22, 24}, "pc.depth")
			var sb strings.Builder
			sb.WriteString("<project>\n <modelVersion>4.0.0</modelVersion>\n <groupId>g</groupId>\n <artifactId>a</artifactId>\n <version>1</version>\n <properties>\n")
			for k := 0; k < n; k++ {
				fmt.Fprintf(&sb, "  <p%d>${p%d}${p%d}</p%d>\n", k, k+1, k+1, k)
			}
			fmt.Fprintf(&sb, "  <p%d>x</p%d>\n </properties>\n <dependencies>\n  <dependency><groupId>d</groupId><artifactId>e</artifactId><version>${p0}</version></dependency>\n </dependencies>\n</project>\n", n, n)
			d := inst(drawDir(rt, "pc.dir", true), "", i, "")
			if p.add(FileSpec{Path: d + "/pom.xml", Src: Src{Text: sb.String()}}) {
				victim = len(p.files) - 1
				p.dirs[d] = true
				avoid["java/pomxml"] = true
			}
		}
	case "workspace":
		// structured input: a Cargo.toml member that inherits from its workspace
		// (version.workspace = true), with the workspace root present, absent, or at the scan root
		if has(enabled, "rust/cargotoml") {
			i := p.next
			p.next++
			top := oneOf(rt, []string{"third_party", "srv/ws", "home/user/src/mono"}, "ws.top")
			member := fmt.Sprintf("%s/crates/orphan%d", top, i)
			inherit := oneOf(rt, []string{"version.workspace = true", "version = { workspace = true }"}, "ws.syntax")
			switch oneOf(rt, []string{"absent", "absent", "above", "scanroot", "no-version"}, "ws.root") {
			case "above":
				p.add(FileSpec{Path: top + "/Cargo.toml", Src: Src{Text: "[workspace]\nmembers = [\"crates/*\"]\n\n[workspace.package]\nversion = \"1.2.3\"\n"}})
			case "scanroot":
				p.add(FileSpec{Path: "Cargo.toml", Src: Src{Text: "[workspace]\nmembers = [\"*\"]\n\n[workspace.package]\nversion = \"4.5.6\"\n"}})
			case "no-version":
				p.add(FileSpec{Path: top + "/Cargo.toml", Src: Src{Text: "[workspace]\nmembers = [\"crates/*\"]\n"}})
			}
			if p.add(FileSpec{Path: member + "/Cargo.toml", Src: Src{Text: fmt.Sprintf("[package]\nname = \"orphan%d\"\n%s\nedition = \"2021\"\n\n[dependencies]\nfutures = \"0.3\"\n", i, inherit)}}) {
				victim = len(p.files) - 1
				p.dirs[top] = true
				avoid["rust/cargotoml"] = true
			}
		}
	case "eggbomb":
		// an .egg whose metadata entry inflates beyond the extractor's size limit (100 MiB) as one
		// long header line: a tiny archive, an entry the extractor must refuse by its uncompressed size
		if has(enabled, "python/wheelegg") {
			i := p.next
			p.next++
			name := oneOf(rt, []string{"EGG-INFO/PKG-INFO", "bomb-1.0.dist-info/METADATA", "bomb.egg-info/PKG-INFO"}, "egg.entry")
			ents := []ZipEnt{{Name: "bomb.py", Src: Src{Text: "print('x')\n"}},
				{Name: name, Deflate: true, Src: Src{Text: "Metadata-Version: 2.1\nName: bomb\nVersion: 1.0\nSummary: ", Pad: 160 << 20}}}
			if p.add(FileSpec{Path: fmt.Sprintf("%s/bomb%d-1.0-py3.10.egg", sitePkgs, i), Src: Src{Zip: ents}}) {
				victim = len(p.files) - 1
				avoid["python/wheelegg"] = true
			}
		}
	case "companion-fault":
		// several healthy files of extractors that open a COMPANION file through input.FS (os-release,
		// go.sum, _locales, -r includes), and a one-shot fault on the k-th open or read of that
		// companion: only the Extract call that met the fault may differ from the fault-free run
		if mode == "sim" {
			victim = genCompanionFault(rt, p, cov, avoid)
		}
	case "elfbomb":
		// structured input: a small ELF file whose one section inflates to 256 MiB - a kernel
		// module with an SHF_COMPRESSED .modinfo, or an executable with a cargo-auditable .dep-v0
		i := p.next
		p.next++
		mib := oneOf(rt, []int{0, 1, 256, 256}, "elf.mib")
		if chance(rt, 50, "elf.ko") {
			e := &ElfSpec{Section: ".modinfo", Compressed: chance(rt, 85, "elf.comp"), InflateMiB: mib, Fill: oneOf(rt, []int{'a', 0}, "elf.fill"),
				Text: "name=bomb\x00version=1.0\x00license=GPL\x00srcversion=ABCDEF\x00depends=\x00vermagic=6.1.0 SMP\x00"}
			if chance(rt, 35, "elf.multi") {
				// many section headers of that name sharing one stream that stays below any per-section limit
				e.Compressed, e.InflateMiB, e.Fill, e.Repeat = true, 15, 'a', 16+pick(rt, 49, "elf.rep")
			}
			if chance(rt, 15, "elf.lie") {
				e.ChSize = oneOf(rt, []int64{1, 1 << 20, 1 << 32, 1 << 40}, "elf.chsize")
			}
			if p.add(FileSpec{Path: fmt.Sprintf("lib/modules/6.1.0/kernel/drivers/bomb%d.ko", i), Src: Src{Elf: e}}) {
				victim = len(p.files) - 1
				avoid["os/kernel/module"] = true
			}
		} else {
			if mib > 1 {
				mib = 768 // go-rustaudit inflates with io.ReadAll: about 2.2 x the inflated size is allocated
			}
			e := &ElfSpec{Section: ".dep-v0", Zlib: true, InflateMiB: mib, Fill: ' ', Text: `{"packages":[{"name":"bomb","version":"0.1.0","source":"local","root":true}]}`}
			if p.add(FileSpec{Path: fmt.Sprintf("usr/local/bin/bomb%d", i), Src: Src{Elf: e}, Exec: true}) {
				victim = len(p.files) - 1
				avoid["rust/cargoauditable"], avoid["go/binary"] = true, true
			}
		}
	case "containerd-graph":
		// structured input: valid bolt databases - a running container in meta.db, its CRI status
		// file, and a snapshot parent graph (chain, cycle, self-parent, missing parent, long chain) in
		// the overlayfs snapshotter's metadata.db
		if mode == "real" && has(enabled, "containers/containerd") {
			n := oneOf(rt, []int{1, 2, 3, 5, 8, 40}, "cg.n")
			shape := oneOf(rt, []string{"chain", "chain", "self", "cycle", "missing", "random"}, "cg.shape")
			name := func(k int) string { return fmt.Sprintf("default/%d/key%d", k+1, k) }
			var snaps []BoltSnapshot
			for k := 0; k < n; k++ {
				sn := BoltSnapshot{Name: name(k), ID: uint64(k + 1)}
				switch shape {
				case "chain":
					if k > 0 {
						sn.Parent = name(k - 1)
					}
				case "self":
					sn.Parent = name(k)
				case "cycle":
					sn.Parent = name((k + n - 1) % n)
				case "missing":
					sn.Parent = fmt.Sprintf("default/99/gone%d", k)
				default:
					if j := pick(rt, n+1, fmt.Sprintf("cg.p%d", k)); j < n {
						sn.Parent = name(j)
					}
				}
				snaps = append(snaps, sn)
			}
			var ctrs []BoltContainer
			p.group++
			g := p.group
			for k, nc := 0, 1+pick(rt, 2, "cg.nc"); k < nc; k++ {
				id := fmt.Sprintf("c%d", k)
				ctrs = append(ctrs, BoltContainer{NS: oneOf(rt, []string{"default", "k8s.io"}, fmt.Sprintf("cg.ns%d", k)), ID: id, Image: "docker.io/library/busybox:latest",
					Runtime: "io.containerd.runc.v2", Snapshotter: "overlayfs", SnapshotKey: fmt.Sprintf("key%d", pick(rt, n, fmt.Sprintf("cg.key%d", k)))})
				if chance(rt, 85, fmt.Sprintf("cg.run%d", k)) {
					p.add(FileSpec{Path: "var/lib/containerd/io.containerd.grpc.v1.cri/containers/" + id + "/status", Src: Src{Text: `{"Pid": 4242}`}, Group: g})
				}
			}
			p.add(FileSpec{Path: "var/lib/containerd/io.containerd.metadata.v1.bolt/meta.db", Src: Src{Bolt: &BoltSpec{Containers: ctrs}}, Group: g})
			if p.add(FileSpec{Path: "var/lib/containerd/io.containerd.snapshotter.v1.overlayfs/metadata.db", Src: Src{Bolt: &BoltSpec{Snapshots: snaps}}, Group: g}) {
				victim = len(p.files) - 1
				avoid["containers/containerd"] = true
			}
		}
	case "canary":
		// plugin failure as a fault kind: the harness canary extractor fails on the victim
		i := p.next
		p.next++
		m := Op{Kind: "marker", Off: pick(rt, 60, "canary.off")}
		if chance(rt, 25, "canary.err") {
			m.Val = 1
		}
		if p.add(FileSpec{Path: fmt.Sprintf("srv/canary%d/canary-%d.txt", i, i), Src: Src{Text: canaryText(i), Ops: []Op{m}}}) {
			victim = len(p.files) - 1
			p.dirs[fmt.Sprintf("srv/canary%d", i)] = true
		}
	case "zipbomb":
		// a small jar whose many sibling inner "archives" inflate to a multiple of the extractor's
		// opened-bytes budget and are not archives at all (each fails to extract)
		if has(enabled, "java/archive") {
			n := 44 + pick(rt, 13, "zb.n")
			sz := 2 << 20
			ents := []ZipEnt{{Name: "META-INF/MANIFEST.MF", Src: Src{Text: "Manifest-Version: 1.0\nImplementation-Title: bomb\nImplementation-Version: 1.0\n"}}}
			for k := 0; k < n; k++ {
				ents = append(ents, ZipEnt{Name: fmt.Sprintf("lib/dep%d.%s", k, oneOf(rt, []string{"jar", "war"}, fmt.Sprintf("zb.ext%d", k))), Src: Src{Pad: sz}, Deflate: true})
			}
			i := p.next
			p.next++
			d := inst(drawDir(rt, "zb.dir", true), "", i, "")
			if p.add(FileSpec{Path: fmt.Sprintf("%s/lib/bundle%d.jar", d, i), Src: Src{Zip: ents}}) {
				victim = len(p.files) - 1
				p.dirs[d] = true
				avoid["java/archive"] = true
			}
		}
	case "foreign":
		// content of extractor A at a path of extractor B
		a := cov[pick(rt, len(cov), "fa")]
		b := cov[pick(rt, len(cov), "fb")]
		fa := pickFixture(rt, t, a, 256<<10, false, "ffa")
		fb := pickFixture(rt, t, b, maxFixtureBytes, false, "ffb")
		if fa >= 0 && fb >= 0 && t.Fix[fa].Synth == nil {
			tm := homeTmpl(rt, t, fb, "f.tm")
			if !strings.Contains(tm, "{rel}") {
				i := p.next
				p.next++
				fp := inst(tm, t.Fix[fb].Sub, i, inst(drawDir(rt, "f.dir", true), "", i, ""))
				if p.add(FileSpec{Path: fp, Src: Src{Fix: t.Fix[fa].Rel}, Exec: t.Fix[fb].Exec}) {
					victim = len(p.files) - 1
					avoid[b] = true
				}
			}
		}
	case "containerd":
		fi := pickFixture(rt, t, "containers/containerd", maxFixtureBytes, false, "cd")
		if fi >= 0 {
			victim = p.place(fi, t.Ext["containers/containerd"].Def.Tmpl[0], "")
			avoid["containers/containerd"] = true
			if victim >= 0 && victim+1 < len(p.files) && chance(rt, 30, "cd.meta") {
				victim++ // the snapshotter's metadata.db, read by the same Extract call
			}
		}
	}
	if victim < 0 { // plain (also the fallback), and "sibling": the victim is a companion file
		e := cov[pick(rt, len(cov), "v.ext")]
		if only := os.Getenv("VERIF_X_ONLY"); has(cov, only) {
			e = only // targeted run: every plain victim belongs to this extractor
		}
		if kind == "sibling" {
			e = oneOf(rt, []string{"go/gomod", "chrome/extensions"}, "v.sib")
			if !has(cov, e) {
				e = "go/gomod"
			}
		}
		fi := pickFixture(rt, t, e, maxV, kind == "sibling", "v")
		if fi < 0 {
			fi = pickFixture(rt, t, e, maxFixtureBytes, false, "v2")
		}
		p.alone = kind != "sibling" && chance(rt, 40, "v.alone") // e.g. an old go.mod without its go.sum
		victim = p.place(fi, homeTmpl(rt, t, fi, "v.tm"), drawDir(rt, "v.dir", true))
		p.alone = false
		if kind == "sibling" && victim >= 0 && p.files[victim].Group > 0 {
			var sib []int
			for i := range p.files {
				if i != victim && p.files[i].Group == p.files[victim].Group {
					sib = append(sib, i)
				}
			}
			if len(sib) > 0 {
				victim = sib[pick(rt, len(sib), "sib")]
				// the companion (go.sum, _locales/*/message.json) replaced by a named pipe nobody writes to
				p.files[victim].CorruptFifo = chance(rt, 25, "sib.fifo")
			}
		}
		if kind == "osrelease" {
			kind = "plain"
		}
		if kind != "sibling" && kind != "nostat" && kind != "symlink" {
			kind = "plain"
		}
		// sometimes a second, healthy file of the same extractor: the owner's other files
		if chance(rt, 30, "ownother") {
			if f2 := pickFixture(rt, t, e, 256<<10, true, "o"); f2 >= 0 {
				p.place(f2, homeTmpl(rt, t, f2, "o.tm"), drawDir(rt, "o.dir", false))
			}
		} else {
			avoid[e] = true
		}
	}
	if victim < 0 {
		panic("harness: could not place a victim")
	}
	sc.Kind = kind
	nh := 3 + pick(rt, 6, "nhealthy")
	addHealthy(rt, p, enabled, avoid, nh, 600_000)
	if chance(rt, 15, "dup") {
		addDuplicate(rt, p, victim)
	}
	if rapid.Bool().Draw(rt, "osrelease") && kind != "osrelease" {
		p.add(FileSpec{Path: "etc/os-release", Src: Src{Text: osRelease}})
	}
	if kind == "canary" || chance(rt, 30, "canary.healthy") {
		// healthy canary files: the canary's other files / the canary as an unaffected extractor
		for k, n := 0, 1+pick(rt, 2, "canary.n"); k < n && (kind != "canary" || chance(rt, 75, "canary.other")); k++ {
			i := p.next
			p.next++
			p.add(FileSpec{Path: fmt.Sprintf("opt/canary%d/canary-%d.txt", i, i), Src: Src{Text: canaryText(i)}})
		}
	}
	sc.Files = p.files
	sc.Victim = victim
	v := &sc.Files[victim]
	vb, _ := v.Src.Bytes(false)
	if kind == "symlink" {
		// the file has been replaced by a link that cannot be read: dangling, or to a directory
		sc.ReadSymlinks = true
		v.CorruptLink = "no/such/target"
		if rapid.Bool().Draw(rt, "link.dir") {
			v.CorruptLink = path.Dir(v.Path)
		}
	}
	if !v.Src.HasOps() && (kind != "include" || rapid.Bool().Draw(rt, "incops")) && kind != "foreign" && (kind != "zipbomb" || rapid.Bool().Draw(rt, "zbops")) &&
		kind != "symlink" && (kind != "nostat" || rapid.Bool().Draw(rt, "nsops")) && !v.CorruptFifo &&
		kind != "companion-fault" && (kind != "workspace" || chance(rt, 30, "wsops")) && kind != "propchain" && ((kind != "elfbomb" && kind != "containerd-graph" && kind != "eggbomb") || chance(rt, 20, "structops")) {
		v.Src.Ops = genOps(rt, vb, "op")
	}
	if kind == "foreign" && rapid.Bool().Draw(rt, "fops") {
		v.Src.Ops = genOps(rt, vb, "op")
	}
	sc.Order.Rev = rapid.Bool().Draw(rt, "rev")
	if mode == "sim" {
		sc.Disk.Chunk = chunkFor(rt, totalSize(sc.Files))
		sc.Disk.EOFWithData = rapid.Bool().Draw(rt, "eofdata")
		sc.NoSeek = chance(rt, 10, "noseek")
		if chance(rt, 40, "fault") {
			k := rapid.IntRange(1, 6).Draw(rt, "fault.k")
			if sc.Disk.Chunk > 0 && rapid.Bool().Draw(rt, "fault.late") {
				k = rapid.IntRange(1, len(vb)/sc.Disk.Chunk+2).Draw(rt, "fault.k2")
			}
			// one-shot, or persistent from the k-th read on (a bad block stays bad)
			sc.Disk.Faults = []scan.Fault{{Op: "read", Path: v.Path, K: k, Kind: oneOf(rt, []string{"eio", "eio-partial", "perm"}, "fault.kind"), Sticky: chance(rt, 40, "fault.sticky")}}
		}
		if kind == "companion-fault" {
			opens := 0
			for _, f := range sc.Files {
				if f.Group == v.Group && v.Group > 0 || strings.HasPrefix(f.Path, "var/") || strings.HasPrefix(f.Path, "lib/") {
					opens++
				}
			}
			sc.Disk.Faults = []scan.Fault{{Op: oneOf(rt, []string{"open", "open", "read"}, "cf.op"), Path: v.Path, K: 1 + pick(rt, opens+1, "cf.k"),
				Kind: oneOf(rt, []string{"eio", "perm", "notexist"}, "cf.kind"), Sticky: chance(rt, 15, "cf.sticky")}}
		}
		if kind == "nostat" {
			// the path is accepted by name, but the file cannot be stat'ed when FileRequired asks
			sc.Disk.Faults = append(sc.Disk.Faults, scan.Fault{Op: "stat", Path: v.Path, K: 1 + pick(rt, 7, "stat.k")/6,
				Kind: oneOf(rt, []string{"eio", "perm", "notexist"}, "stat.kind"), Sticky: chance(rt, 70, "stat.sticky")})
		}
	}
	return sc
}

// genInclude builds a requirements.txt family: top-level file with -r includes, included files
// that include themselves / each other / a missing file, optionally with one physical line
// longer than bufio.Scanner's 64 KiB token limit.  Returns the index of the victim.
func genInclude(rt *rapid.T, p *placer) int {
	t := p.t
	i := p.next
	p.next++
	d := inst(drawDir(rt, "inc.dir", true), "", i, "")
	fix := func(label string) string {
		if fi := pickFixture(rt, t, "python/requirements", 64<<10, true, label); fi >= 0 && t.Fix[fi].Synth == nil {
			return t.Fix[fi].Rel
		}
		return ""
	}
	p.group++
	g := p.group
	names := []string{"pins.txt", "sub/more.txt", "dev.txt"}
	n := 1 + pick(rt, 3, "inc.n")
	top := "-r pins.txt\n"
	if n > 1 && rapid.Bool().Draw(rt, "inc.top2") {
		top += "-r sub/more.txt\n"
	}
	if chance(rt, 20, "inc.missing") {
		top += "-r missing.txt\n"
	}
	first := len(p.files)
	p.add(FileSpec{Path: d + "/requirements.txt", Group: g, Src: Src{Text: top, Fix: fix("inc.f0")}})
	for k := 0; k < n; k++ {
		txt := ""
		for _, tgt := range []string{"pins.txt", "sub/more.txt", "dev.txt", "requirements.txt"} {
			if chance(rt, 33, fmt.Sprintf("inc.%d.%s", k, tgt)) {
				rel := tgt
				if strings.HasPrefix(names[k], "sub/") {
					rel = "../" + tgt
					if strings.HasPrefix(tgt, "sub/") {
						rel = strings.TrimPrefix(tgt, "sub/")
					}
				}
				txt += "-r " + rel + "\n"
			}
		}
		// wave 8 (C02-w8-1): an included file that lists no package itself (only -r lines), so a
		// cycle behind the root whose members yield nothing is reachable
		only := txt != "" && chance(rt, 35, fmt.Sprintf("inc.%d.only", k))
		if !only {
			txt += fmt.Sprintf("incpkg%d==1.%d\n", k, k)
		}
		src := Src{Text: txt}
		if !only {
			src.Fix = fix(fmt.Sprintf("inc.f%d", k+1))
		}
		if chance(rt, 33, fmt.Sprintf("inc.%d.long", k)) {
			src.Pad = oneOf(rt, []int{65536, 65537, 70000, 140000}, fmt.Sprintf("inc.%d.pad", k))
		}
		p.add(FileSpec{Path: d + "/" + names[k], Group: g, Src: src})
	}
	p.dirs[d] = true
	v := first + pick(rt, len(p.files)-first, "inc.victim")
	if v > first {
		p.files[v].CorruptFifo = chance(rt, 15, "inc.fifo") // an included file that is a named pipe
	}
	return v
}

func sortedKeys[V any](m map[string]V) []string {
	var ks []string
	for k := range m {
		ks = append(ks, k)
	}
	sort.Strings(ks)
	return ks
}

func statusName(s plugin.ScanStatusEnum) string {
	switch s {
	case plugin.ScanStatusSucceeded:
		return "SUCCEEDED"
	case plugin.ScanStatusPartiallySucceeded:
		return "PARTIALLY_SUCCEEDED"
	case plugin.ScanStatusFailed:
		return "FAILED"
	}
	return "UNSPECIFIED"
}

// fatal reports the violations that make a run unusable for comparison.
func fatal(out *sim.Outcome, o *Obs, which string) bool {
	switch {
	case o.Hang:
		out.Violate("hang", "hang:"+o.HangKind+":"+o.HangExt, "%s run: Scan did not return (%s: limit %v of wall clock / 1.5 GiB of process memory growth; last extractor started: %s)", which, o.HangKind, watchdog, o.HangExt)
		out.NoShrink = true // the abandoned scan goroutine is still running: report as generated and stop
		return true
	case o.Budget != "":
		out.Violate("hang", "hang:"+o.Budget, "%s run: per-Extract budget exceeded (%s) after %d seam events: extraction does not terminate within the simulated-step budget", which, o.Budget, o.Events)
		return true
	case o.Panic != "" && strings.HasPrefix(o.Panic, "canary:"):
		out.Violate("plugin-panic-not-contained", "plugin-panic-not-contained", "%s run: the panic of one plugin (the harness canary extractor) took the whole scan down: %s\n%s", which, o.Panic, o.PanicStack)
		return true
	case o.Panic != "":
		out.Violate("panic", "panic:"+o.PanicExt+":"+o.PanicSite, "%s run: panic reached the harness (last extractor started: %s): %s\n%s", which, o.PanicExt, o.Panic, o.PanicStack)
		return true
	case !o.Returned:
		out.Violate("no-result", "no-result", "%s run: Scan returned nil", which)
		return true
	}
	if o.ExtPanic != "" && o.ExtPanicExt != canaryName {
		// not fatal for the comparison: the engine contained it and the scan went on
		out.Violate("panic", "panic:"+o.ExtPanicExt+":"+o.ExtPanicSite, "%s run: Extract of %s panicked (the engine recovered it and reported it as this extractor's error, the scan went on): %s\n%s", which, o.ExtPanicExt, o.ExtPanic, o.ExtPanicStack)
	}
	return false
}

func (c C02) Run(t *testing.T, scAny any) *sim.Outcome {
	sc := scAny.(*C02Scenario)
	out := c.evaluate(sc)
	if len(out.Violations) > 0 && !out.NoShrink && !isKnown("C02", out.Violations[0].Key) {
		// structural minimisation (rapid cannot see through the uniform-choice mixing): keep
		// the first violation's key, drop healthy files, operators, the fault, the chunking
		key := out.Violations[0].Key
		var last *sim.Outcome
		best := minimiseC02(sc, func(x *C02Scenario) bool {
			o := c.evaluate(x)
			out.Executions += o.Executions
			if hasKey(o, key) && !o.NoShrink {
				last = o
				return true
			}
			return false
		})
		if last != nil {
			out.Violations = keyFirst(last.Violations, key)
		}
		out.ReplayScenario = best
		out.NoShrink = true
	}
	return out
}

func hasKey(o *sim.Outcome, key string) bool {
	for _, v := range o.Violations {
		if v.Key == key {
			return true
		}
	}
	return false
}

// keyFirst moves the violation with the given key to the front (the kernel reports the first).
func keyFirst(vs []sim.Violation, key string) []sim.Violation {
	var out, rest []sim.Violation
	for _, v := range vs {
		if v.Key == key && len(out) == 0 {
			out = append(out, v)
		} else {
			rest = append(rest, v)
		}
	}
	return append(out, rest...)
}

// evaluate runs the scenario (healthy baseline + corrupted) and applies the oracle.
func (c C02) evaluate(sc *C02Scenario) *sim.Outcome {
	if poisoned {
		o := &sim.Outcome{}
		o.Count("skipped.poisoned_worker", 1)
		return o
	}
	if needsChild(&sc.RunSpec) {
		return evalInChild("C02", sc)
	}
	out := &sim.Outcome{}
	if sc.Victim < 0 || sc.Victim >= len(sc.Files) {
		return out // shrunk into nonsense: nothing to check
	}
	sb, err := newSandbox(false)
	if err != nil {
		panic("harness: " + err.Error())
	}
	defer sb.remove()
	if err := sb.enter(); err != nil {
		panic("harness: " + err.Error())
	}
	defer sb.leave()

	v := sc.Files[sc.Victim]
	hb, err1 := v.Src.Bytes(false)
	cb, err2 := v.Src.Bytes(true)
	if err1 != nil || err2 != nil {
		panic(fmt.Sprintf("harness: fixture unreadable: %v %v", err1, err2))
	}
	differs := string(hb) != string(cb) || v.CorruptLink != "" || v.CorruptFifo
	for _, o := range v.Src.Ops {
		out.Count("op."+o.Kind, 1)
	}
	out.Count("kind."+sc.Kind, 1)
	out.Count("mode."+sc.Mode, 1)

	baseSpec := sc.RunSpec
	baseSpec.Disk.Faults = nil
	base, err := runScan(&baseSpec, false, sb, nil)
	if err != nil {
		panic("harness: " + err.Error())
	}
	out.Executions++
	out.Sample = map[string]any{"os": sc.OS, "mode": sc.Mode, "kind": sc.Kind, "files": len(sc.Files), "victim": v.Path, "content": v.Src.describe(),
		"chunk": sc.Disk.Chunk, "faults": sc.Disk.Faults, "front": sc.Order.Front, "corrupt_link": v.CorruptLink}
	if fatal(out, base, "healthy") {
		out.HistoryFP = base.HistFP
		return out
	}
	resetDir(sb.Root)
	resetDir(sb.Tmp)
	cor, err := runScan(&sc.RunSpec, true, sb, nil)
	if err != nil {
		panic("harness: " + err.Error())
	}
	out.Executions++
	out.HistoryFP = sim.FP([]string{base.HistFP, cor.HistFP})
	if fatal(out, cor, "corrupted") {
		return out
	}

	// victim group, owners
	vg := map[string]bool{v.Path: true}
	if v.Group > 0 {
		for _, f := range sc.Files {
			if f.Group == v.Group {
				vg[f.Path] = true
			}
		}
	}
	owners := map[string]bool{}
	dependent := map[string]bool{} // "ext|path" of Extract calls that saw the victim group
	for _, o := range []*Obs{base, cor} {
		for _, er := range o.Extracts {
			if sc.Kind == "companion-fault" {
				// the companion is healthy; what may differ is exactly the call during which the
				// planned fault fired
				if er.FaultHit {
					owners[er.Ext] = true
					dependent[er.Ext+"|"+er.Path] = true
				}
				continue
			}
			dep := vg[er.Path]
			for _, tp := range er.Touched {
				if vg[tp] {
					dep = true
				}
			}
			if dep {
				owners[er.Ext] = true
				dependent[er.Ext+"|"+er.Path] = true
			}
		}
	}
	ownerList := strings.Join(sortedKeys(owners), "+")
	for _, o := range sortedKeys(owners) {
		out.Count("victim_of."+o, 1)
	}
	if len(owners) >= 2 {
		out.Count("victim_shared_by_2+", 1)
	}
	for _, f := range sc.Disk.Faults {
		k := "fault." + f.Op
		if f.Sticky {
			k += ".sticky"
		}
		out.Count(k+".planned", 1)
		if cor.Fired[f.Site()] > 0 {
			out.Count(k+".fired", 1)
			differs = true
		}
	}
	if v.CorruptLink != "" {
		out.Count("victim_replaced_by_link", 1)
	}

	// (2) memory budgets per Extract, confirmed by a second run of the same scan
	for _, r := range []struct {
		o       *Obs
		spec    *RunSpec
		corrupt bool
		which   string
	}{{base, &baseSpec, false, "healthy"}, {cor, &sc.RunSpec, true, "corrupted"}} {
		for _, er := range r.o.Extracts {
			kind, lim, got := memOver(er, r.o.TreeBytes)
			if kind == "" {
				continue
			}
			resetDir(sb.Root)
			resetDir(sb.Tmp)
			again, err := runScan(r.spec, r.corrupt, sb, nil)
			out.Executions++
			if err != nil || again.Hang {
				break
			}
			for _, er2 := range again.Extracts {
				k2, _, got2 := memOver(er2, again.TreeBytes)
				if kind == "process-growth" && k2 == "" && er2.TotalMB > 1024 {
					// the runtime keeps the memory of the first run: the process does not grow again,
					// but the same amount is allocated again
					k2, got2 = kind, er2.TotalMB
				}
				if er2.Ext == er.Ext && er2.Path == er.Path && k2 == kind {
					out.Violate("mem-budget", "mem-budget:"+kind+":"+er.Ext, "%s run: Extract(%s, %s): %s = %d MiB (again: %d MiB), budget %d MiB, for a tree of %d bytes",
						r.which, er.Ext, er.Path, kind, got, got2, lim, r.o.TreeBytes)
				}
			}
			break
		}
	}

	// a victim replaced by a dangling link cannot be opened: the engine records the failed open as
	// the error of every extractor that required the path, and Extract is not called
	openFails := false
	if v.CorruptLink != "" {
		if root, _, err := buildTree(&sc.RunSpec, true); err == nil {
			openFails = root.Resolve(v.Path) == nil
		}
	}

	// (3) the scan completes
	if cor.Overall != plugin.ScanStatusSucceeded {
		out.Violate("scan-failed", "scan-failed:victim-of:"+ownerList, "overall status %s (%s) although only file %s was corrupted", statusName(cor.Overall), cor.OverallMsg, v.Path)
	}
	if cor.NStatus != len(cor.Enabled) {
		out.Violate("status-count", "status-count", "%d plugin statuses for %d extractors", cor.NStatus, len(cor.Enabled))
	}

	// dispatch: every extractor is consulted for every file, and gets every file it requires
	// (a failure of an earlier extractor on the same file must not take it away)
	paths := map[string]bool{}
	for _, e := range cor.Enabled {
		for p := range cor.Required[e] {
			paths[p] = true
		}
	}
	extracted := map[string]bool{}
	for _, er := range cor.Extracts {
		extracted[er.Ext+"|"+er.Path] = true
	}
	for _, p := range sortedKeys(paths) {
		var failedBefore []string
		for _, e := range cor.Enabled {
			req, consulted := cor.Required[e][p]
			if _, was := base.Required[e][p]; !consulted && was || consulted && req && !extracted[e+"|"+p] && !(openFails && p == v.Path) && cor.EngineOpenFaults[p] == 0 {
				what := "not consulted"
				if consulted {
					what = "required the file but did not get it"
				}
				out.Violate("lost-dispatch", fmt.Sprintf("lost-dispatch:%s:after-failure-of:%s", e, strings.Join(failedBefore, "+")),
					"extractor %s %s for %s in the corrupted run (extractors that failed on that file before it: %v)", e, what, p, failedBefore)
			}
			for _, er := range cor.Extracts {
				if er.Ext == e && er.Path == p && er.Err != "" {
					failedBefore = append(failedBefore, e)
				}
			}
		}
	}

	// (4) status: consistent with what each extractor returned; unchanged for non-owners
	ownerErr, ownerChanged := false, false
	for _, e := range cor.Enabled {
		anyErr, found := false, false
		for _, er := range cor.Extracts {
			if er.Ext == e {
				anyErr = anyErr || er.Err != ""
				found = found || er.NonEmpty
			}
		}
		if openFails && cor.Required[e][v.Path] {
			anyErr = true
			owners[e] = true
		}
		for _, fp := range sortedKeys(cor.EngineOpenFaults) {
			// an injected fault hit the engine's open of a file this extractor required: that is
			// this extractor's error for that file
			if cor.Required[e][fp] && !extracted[e+"|"+fp] {
				anyErr = true
				owners[e] = true
			}
		}
		want := plugin.ScanStatusSucceeded
		if anyErr && found {
			want = plugin.ScanStatusPartiallySucceeded
		} else if anyErr {
			want = plugin.ScanStatusFailed
		}
		if got := cor.Status[e]; got != want {
			out.Violate("status-inconsistent", fmt.Sprintf("status-inconsistent:%s:%s-instead-of-%s", e, statusName(got), statusName(want)),
				"extractor %s: status %s, but it returned error=%v and found-anything=%v => %s expected", e, statusName(got), anyErr, found, statusName(want))
		}
		if owners[e] {
			ownerErr = ownerErr || anyErr
			continue
		}
		if cor.Status[e] != base.Status[e] {
			out.Violate("status-leak", fmt.Sprintf("status-leak:%s:victim-of:%s", e, ownerList),
				"extractor %s never saw the corrupted file %s, yet its status changed from %s to %s (%s)", e, v.Path, statusName(base.Status[e]), statusName(cor.Status[e]), cor.Reason[e])
		}
	}

	// (4) packages of every (extractor, file) that did not see the victim group: identical
	group := func(o *Obs) map[string][]string {
		m := map[string][]string{}
		for _, p := range o.Pkgs {
			k := p.Ext + "|" + p.Src
			m[k] = append(m[k], p.Ident)
		}
		for _, l := range m {
			sort.Strings(l)
		}
		return m
	}
	bp, cp := group(base), group(cor)
	keys := map[string]bool{}
	for k := range bp {
		keys[k] = true
	}
	for k := range cp {
		keys[k] = true
	}
	others := 0
	for _, k := range sortedKeys(keys) {
		if dependent[k] {
			if strings.Join(bp[k], "\n") != strings.Join(cp[k], "\n") {
				ownerChanged = true
			}
			continue
		}
		if len(bp[k]) > 0 {
			others++
		}
		if strings.Join(bp[k], "\n") != strings.Join(cp[k], "\n") {
			ext, src, _ := strings.Cut(k, "|")
			rel := "other-extractor"
			if owners[ext] {
				rel = "owners-other-file"
			}
			out.Violate("containment", fmt.Sprintf("containment:%s:%s:victim-of:%s", rel, ext, ownerList),
				"packages of extractor %s from %s changed although only %s was corrupted:\n healthy:   %v\n corrupted: %v", ext, src, v.Path, bp[k], cp[k])
		}
	}
	if ownerErr {
		out.Count("owner_returned_error", 1)
	}
	if ownerChanged {
		out.Count("owner_packages_changed", 1)
	}
	if !differs {
		out.Count("victim_identical_to_healthy", 1)
	}
	out.Nontrivial = differs && (ownerErr || ownerChanged) && others > 0
	out.Count("scans", 2)
	return out
}

func cloneC02(sc *C02Scenario) *C02Scenario {
	c := *sc
	c.Files = nil
	for _, f := range sc.Files {
		f.Src = cloneSrc(f.Src)
		c.Files = append(c.Files, f)
	}
	c.Dirs = append([]string(nil), sc.Dirs...)
	c.Order.Front = append([]string(nil), sc.Order.Front...)
	c.Disk.Faults = append([]scan.Fault(nil), sc.Disk.Faults...)
	return &c
}

// minimiseC02 greedily simplifies a violating scenario while still(x) holds.
func minimiseC02(sc *C02Scenario, still func(*C02Scenario) bool) *C02Scenario {
	best := cloneC02(sc)
	budget := 40
	try := func(x *C02Scenario) bool {
		if budget <= 0 {
			return false
		}
		budget--
		if still(x) {
			best = x
			return true
		}
		return false
	}
	inGroup := func(x *C02Scenario, i int) bool {
		v := x.Files[x.Victim]
		return i == x.Victim || (v.Group > 0 && x.Files[i].Group == v.Group)
	}
	without := func(x *C02Scenario, drop func(i int) bool) *C02Scenario {
		y := cloneC02(x)
		y.Files = nil
		for i, f := range x.Files {
			if drop(i) {
				continue
			}
			if i == x.Victim {
				y.Victim = len(y.Files)
			}
			f.Src = cloneSrc(f.Src)
			y.Files = append(y.Files, f)
		}
		return y
	}
	// all healthy files at once, else one by one
	if !try(without(best, func(i int) bool { return !inGroup(best, i) })) {
		for i := len(best.Files) - 1; i >= 0; i-- {
			if i < len(best.Files) && !inGroup(best, i) {
				j := i
				try(without(best, func(k int) bool { return k == j }))
			}
		}
	}
	// companions of the victim
	for i := len(best.Files) - 1; i >= 0; i-- {
		if i < len(best.Files) && i != best.Victim {
			j := i
			try(without(best, func(k int) bool { return k == j }))
		}
	}
	// operators (outer, then inner)
	for i := len(best.Files[best.Victim].Src.Ops) - 1; i >= 0; i-- {
		y := cloneC02(best)
		ops := y.Files[y.Victim].Src.Ops
		y.Files[y.Victim].Src.Ops = append(ops[:i:i], ops[i+1:]...)
		try(y)
	}
	for zi := range best.Files[best.Victim].Src.Zip {
		for i := len(best.Files[best.Victim].Src.Zip[zi].Src.Ops) - 1; i >= 0; i-- {
			y := cloneC02(best)
			ops := y.Files[y.Victim].Src.Zip[zi].Src.Ops
			y.Files[y.Victim].Src.Zip[zi].Src.Ops = append(ops[:i:i], ops[i+1:]...)
			try(y)
		}
	}
	if len(best.Disk.Faults) > 0 {
		y := cloneC02(best)
		y.Disk.Faults = nil
		try(y)
	}
	if best.Disk.Chunk != 0 || best.Disk.EOFWithData {
		y := cloneC02(best)
		y.Disk.Chunk, y.Disk.EOFWithData = 0, false
		try(y)
	}
	if best.Order.Rev || len(best.Order.Front) > 0 {
		y := cloneC02(best)
		y.Order = Order{}
		try(y)
	}
	if best.Running {
		y := cloneC02(best)
		y.Running = false
		try(y)
	}
	return best
}

// memOver applies the per-Extract memory budgets: growth of the memory obtained from the OS
// (any extractor, trees <= 1 MiB), and - for java/archive, which has an explicit budget for
// inflating inner archives (MaxOpenedBytes, set to archiveMaxOpened here) - the bytes allocated.
func memOver(er *ExtractRec, treeBytes int) (kind string, limitMB, gotMB int64) {
	if treeBytes <= 1<<20 && er.AllocMB > 1024 {
		return "process-growth", 1024, er.AllocMB
	}
	// bytes allocated by one Extract (any extractor but os/rpm, whose BerkeleyDB reader churns until
	// its deadline): 1 GiB + 64 x tree size (+ 1 KiB per seam event for the simulated disk itself)
	if lim := int64(1024+64*(treeBytes>>20)) + int64(er.Reads+er.Opens)>>10; er.Ext != "os/rpm" && er.Ext != "java/archive" && er.TotalMB > lim {
		return "allocated", lim, er.TotalMB
	}
	// (the simulated disk itself allocates per seam event - about 1 KiB is allowed for each)
	if lim := int64(64+8*(archiveMaxOpened>>20)+64*(treeBytes>>20)) + int64(er.Reads+er.Opens)>>10; er.Ext == "java/archive" && er.TotalMB > lim {
		return "allocated", lim, er.TotalMB
	}
	return "", 0, 0
}

// genCompanionFault places 2-4 healthy files of each of one or two extractors that read a
// companion file through input.FS, plus the (healthy) companion; returns the companion's index.
func genCompanionFault(rt *rapid.T, p *placer, cov []string, avoid map[string]bool) int {
	t := p.t
	switch oneOf(rt, []string{"osrelease", "osrelease", "osrelease", "gosum", "include"}, "cf.what") {
	case "gosum":
		if !has(cov, "go/gomod") {
			return -1
		}
		// several old go.mod files, each with its own go.sum: the victim is one of the go.sum files
		var sums []int
		for k, n := 0, 2+pick(rt, 2, "cf.n"); k < n; k++ {
			i := p.next
			p.next++
			d := inst(drawDir(rt, fmt.Sprintf("cf.dir%d", k), false), "", i, "")
			p.group++
			p.add(FileSpec{Path: d + "/go.mod", Group: p.group, Src: Src{Text: fmt.Sprintf("module example.com/m%d\n\ngo 1.16\n\nrequire example.com/dep%d v1.%d.0\n", k, k, k)}})
			p.add(FileSpec{Path: d + "/go.sum", Group: p.group, Src: Src{Text: fmt.Sprintf("example.com/dep%d v1.%d.0 h1:AAAA=\nexample.com/dep%d v1.%d.0/go.mod h1:BBBB=\nexample.com/indirect%d v0.1.0/go.mod h1:CCCC=\n", k, k, k, k, k)}})
			sums = append(sums, len(p.files)-1)
			p.dirs[d] = true
		}
		avoid["go/gomod"] = true
		return sums[pick(rt, len(sums), "cf.victim")]
	case "include":
		if !has(cov, "python/requirements") {
			return -1
		}
		// several requirements files that include one shared file
		i := p.next
		p.next++
		d := inst(drawDir(rt, "cf.dir", false), "", i, "")
		p.add(FileSpec{Path: d + "/common/base.txt", Src: Src{Text: "requests==2.31.0\nurllib3==1.26.5\n"}})
		v := len(p.files) - 1
		for k, n := 0, 2+pick(rt, 2, "cf.n"); k < n; k++ {
			p.add(FileSpec{Path: fmt.Sprintf("%s/svc-%c/requirements.txt", d, 'a'+k), Src: Src{Text: fmt.Sprintf("-r ../common/base.txt\nsvcdep%d==1.%d\n", k, k)}})
		}
		p.dirs[d] = true
		avoid["python/requirements"] = true
		return v
	}
	// os-release: one or two OS extractors with several database files each
	var multi []string // OS extractors whose template allows several files in one tree
	for _, e := range []string{"os/pacman", "os/portage", "os/snap", "os/flatpak", "os/kernel/module", "os/dpkg", "os/nix"} {
		if has(cov, e) {
			multi = append(multi, e)
		}
	}
	if len(multi) == 0 {
		return -1
	}
	for k, ne := 0, 1+pick(rt, 2, "cf.ne"); k < ne && len(multi) > 0; k++ {
		ci := pick(rt, len(multi), fmt.Sprintf("cf.ext%d", k))
		e := multi[ci]
		multi = append(multi[:ci:ci], multi[ci+1:]...)
		avoid[e] = true
		for j, n := 0, 2+pick(rt, 3, fmt.Sprintf("cf.n%d", k)); j < n; j++ {
			if fi := pickFixture(rt, t, e, 300_000, true, fmt.Sprintf("cf%d.%d", k, j)); fi >= 0 {
				tmpl := homeTmpl(rt, t, fi, fmt.Sprintf("cf%d.%d.tm", k, j))
				if e == "os/dpkg" {
					tmpl = "var/lib/dpkg/status.d/{s}{i}"
				}
				p.place(fi, tmpl, drawDir(rt, fmt.Sprintf("cf%d.%d.dir", k, j), true))
			}
		}
	}
	if p.add(FileSpec{Path: oneOf(rt, []string{"etc/os-release", "etc/os-release", "usr/lib/os-release"}, "cf.path"), Src: Src{Text: oneOf(rt, osReleaseVariants, "cf.text")}}) {
		return len(p.files) - 1
	}
	return -1
}
