package extract

import (
	"context"
	"crypto/sha256"
	"encoding/hex"
	"encoding/json"
	"fmt"
	"os"
	"path"
	"path/filepath"
	"regexp"
	"runtime"
	"runtime/debug"
	"sort"
	"strings"
	"sync"
	"time"

	scalibr "github.com/google/osv-scalibr"
	"github.com/google/osv-scalibr/extractor"
	"github.com/google/osv-scalibr/extractor/filesystem"
	scalibrfs "github.com/google/osv-scalibr/fs"
	"github.com/google/osv-scalibr/inventory"
	"github.com/google/osv-scalibr/plugin"
	"verif/worlds/scan"
)

// FileSpec is one file of the scanned tree.
type FileSpec struct {
	Path  string `json:"path"`
	Src   Src    `json:"src"`
	Exec  bool   `json:"x,omitempty"`
	Group int    `json:"g,omitempty"` // > 0: files of one multi-file fixture (read through input.FS by the same Extract)
	// CorruptLink: in the corrupted run the file has been replaced by a symbolic link with this
	// target (root-relative; a path that does not exist = dangling, a directory = every read fails).
	CorruptLink string `json:"corrupt_link,omitempty"`
	// CorruptFifo: in the corrupted run the file has been replaced by a named pipe without a
	// writer: open(2) blocks forever (modelled: an extractor that opens it is reported at once).
	CorruptFifo bool `json:"corrupt_fifo,omitempty"`
}

// Order is the extractor order of the configuration: all enabled extractors sorted by name
// (reversed if Rev), then the ones named in Front moved to the front in that order.
type Order struct {
	Front []string `json:"front,omitempty"`
	Rev   bool     `json:"rev,omitempty"`
}

// RunSpec is everything one scan needs.
type RunSpec struct {
	Mode    string     `json:"mode"` // "sim": SimFS with a virtual root; "real": sandboxed directory, DirectFS
	OS      string     `json:"os"`   // linux | windows | mac  (Capabilities.OS)
	Running bool       `json:"running,omitempty"`
	Files   []FileSpec `json:"files"`
	Dirs    []string   `json:"dirs,omitempty"` // extra (empty) directories
	// Root2: files of a SECOND scan root (sim mode): one Scan with two roots, the extractor instances
	// shared between them as scalibr does.
	Root2 []FileSpec    `json:"root2,omitempty"`
	Order Order         `json:"order"`
	Disk  scan.DiskPlan `json:"disk"`
	// ListKey != 0: every directory lists its entries in the order of a keyed hash of their names
	// (0 = sorted by name).  The listing order is the simulated disk's decision, part of the scenario.
	ListKey uint64 `json:"list_key,omitempty"`
	// NoSeek: file handles implement io.ReaderAt (the FS contract) but not io.Seeker.
	NoSeek bool `json:"no_seek,omitempty"`
	// MaxFileSize of the scan configuration (0 = none).
	MaxFileSize  int  `json:"max_file_size,omitempty"`
	ReadSymlinks bool `json:"read_symlinks,omitempty"`
	CancelAt     int  `json:"cancel_at"` // -1 never; sim: seam event index; real: index of the Extract call
	// CancelOn (sim): cancel when the K-th occurrence of (Op, Path) is recorded, e.g. the 3rd read
	// of an rpm database = in the middle of GetRealPath's temporary copy.
	CancelOn *scan.Fault `json:"cancel_on,omitempty"`
}

const watchdog = 20 * time.Second

var oldTime = time.Unix(1000000000, 0)

// ExtractRec is one Extract call seen at the wrapper seam.
type ExtractRec struct {
	Ext, Path string
	Err       string
	Returned  bool
	NonEmpty  bool
	NPkgs     int
	NilPkg    bool
	Panicked  bool // Extract panicked (contained by the engine or not)
	FaultHit  bool // a planned fault fired during this call (on the input or on a file it opened)
	Reads     int
	Opens     int
	AllocMB   int64    // growth of runtime.MemStats.Sys during the call
	TotalMB   int64    // bytes allocated during the call (runtime.MemStats.TotalAlloc), MiB
	Touched   []string // paths opened through the FS during this call (sim mode)
}

type PkgObs struct {
	Ext, Src, Ident string
}

// Obs is what one scan produced.
type Obs struct {
	Extracts   []*ExtractRec
	Required   map[string]map[string]bool // extractor -> path -> FileRequired result
	Pkgs       []PkgObs
	Status     map[string]plugin.ScanStatusEnum
	Reason     map[string]string
	NStatus    int
	Returned   bool
	Overall    plugin.ScanStatusEnum
	OverallMsg string
	Panic      string // panic value, "" if none
	PanicExt   string
	PanicSite  string
	PanicStack string
	// an Extract call panicked but the engine contained it (recover around Extract)
	ExtPanic, ExtPanicExt, ExtPanicSite, ExtPanicStack string
	Budget                                             string // "" or "<kind>:<extractor>"
	Hang                                               bool
	HangExt                                            string
	HangKind                                           string // watchdog | runaway-memory
	CancelOnFired                                      bool
	EngineOpenFaults                                   map[string]int // path -> planned faults that hit the engine's own open/fstat of it
	HistFP                                             string
	Events                                             int
	Fired                                              map[string]int
	OpenLeak                                           int
	Enabled                                            []string
	TreeBytes                                          int
	Nodes                                              int
	// AfterExtract, if set before the run, is called (on the scan goroutine) after every Extract.
}

type budgetExceeded struct{ kind, ext string }

// poisoned: a scan goroutine of this process was abandoned (hang).  It keeps burning CPU and
// possibly memory, so every later scenario of this worker is skipped (counted) instead of being
// run in a process that may die at any moment.
var poisoned bool

// harness is the shared state of the extractor wrappers of one scan.
type harness struct {
	mu           sync.Mutex
	rec          *scan.Recorder
	obs          *Obs
	cur          *ExtractRec
	lastExt      string
	srcOf        map[*extractor.Package]string
	readLimit    int
	openLimit    int
	nExtract     int
	cancel       context.CancelFunc
	cancelAt     int
	realMode     bool
	budgetHit    string
	fsMu         sync.Mutex // serialises the simulated disk, the recorder and the budget counters
	scanGoid     string     // the goroutine Scan runs on: only there may a budget signal be raised
	bgCall       bool       // the current FS call is made by another goroutine
	curReq       string     // extractor whose FileRequired is running
	cancelOnSeen int
	origPanic    string // first panic seen leaving an Extract call
	origExt      string // the extractor it left
	origStack    string
	origFault    bool   // it was a memory fault (runtime error with an address)
	progress     string // child mode: file in which the extractor being run is noted
	after        func(ext, path string)
}

// note records an Extract boundary in the history.
func (h *harness) note(p, ext, what string) {
	h.fsMu.Lock()
	defer h.fsMu.Unlock()
	h.rec.Add("extract", p, ext, what)
}

type wrapped struct {
	filesystem.Extractor
	h *harness
}

func (w *wrapped) FileRequired(api filesystem.FileAPI) bool {
	w.h.curReq = w.Name()
	r := w.Extractor.FileRequired(api)
	w.h.curReq = ""
	m := w.h.obs.Required[w.Name()]
	if m == nil {
		m = map[string]bool{}
		w.h.obs.Required[w.Name()] = m
	}
	m[api.Path()] = r
	return r
}

func (w *wrapped) Extract(ctx context.Context, input *filesystem.ScanInput) (inventory.Inventory, error) {
	h := w.h
	er := &ExtractRec{Ext: w.Name(), Path: input.Path}
	h.mu.Lock()
	h.obs.Extracts = append(h.obs.Extracts, er)
	h.lastExt = er.Ext
	h.mu.Unlock()
	if h.realMode && h.cancelAt >= 0 && h.nExtract == h.cancelAt {
		h.cancel()
	}
	h.nExtract++
	if h.progress != "" {
		os.WriteFile(h.progress, []byte(er.Ext), 0o644)
	}
	h.note(input.Path, er.Ext, "begin")
	h.cur = er
	var m0, m1 runtime.MemStats
	runtime.ReadMemStats(&m0)
	inv, err := w.extract(ctx, input)
	runtime.ReadMemStats(&m1)
	h.cur = nil
	er.Returned = true
	er.AllocMB = int64(m1.Sys>>20) - int64(m0.Sys>>20) // growth of the memory obtained from the OS
	er.TotalMB = int64((m1.TotalAlloc - m0.TotalAlloc) >> 20)
	er.NonEmpty = !inv.IsEmpty()
	er.NPkgs = len(inv.Packages)
	for _, p := range inv.Packages {
		if p == nil {
			er.NilPkg = true
			continue
		}
		h.srcOf[p] = input.Path
	}
	res := "ok"
	if err != nil {
		er.Err = err.Error()
		if er.Err == "" {
			er.Err = "(empty error text)"
		}
		res = "err"
	}
	h.note(input.Path, er.Ext, fmt.Sprintf("end %s pkgs=%d", res, er.NPkgs))
	if h.after != nil {
		h.after(er.Ext, input.Path)
	}
	return inv, err
}

// extract calls the real Extract.  A panic is observed (value and stack, for the violation
// key) and re-raised unchanged: it propagates through the engine exactly as without the
// wrapper.  (Scan's own deferred function panics again while unwinding, which would
// otherwise hide the original value from the harness frame.)
func (w *wrapped) extract(ctx context.Context, input *filesystem.ScanInput) (inventory.Inventory, error) {
	defer func() {
		if r := recover(); r != nil {
			if _, mine := r.(budgetExceeded); !mine && !scan.IsStepCap(r) {
				if w.h.origPanic == "" {
					w.h.origExt = w.Name()
					w.h.origPanic = fmt.Sprintf("%v", r)
					_, w.h.origFault = r.(interface{ Addr() uintptr })
					w.h.origStack = string(debug.Stack())
				}
				// If the engine contains the panic (it recovers around Extract and reports it as this
				// extractor's error for this file), the scan goes on: for the status oracle this
				// extraction failed.
				if w.h.cur != nil {
					w.h.cur.Err = fmt.Sprintf("panic: %v", r)
					w.h.cur.Panicked = true
				}
			} else if w.h.cur != nil {
				// a budget signal of the harness: if the engine contains it, this extraction failed
				w.h.cur.Err = "harness budget exceeded"
			}
			w.h.cur = nil // the call is over; later seam events belong to nobody
			panic(r)
		}
	}()
	return w.Extractor.Extract(ctx, input)
}

func osOf(s string) plugin.OS {
	switch s {
	case "windows":
		return plugin.OSWindows
	case "mac":
		return plugin.OSMac
	}
	return plugin.OSLinux
}

// enabledExtractors returns fresh instances of the built-in extractors that can run under the
// capabilities, in the scenario's order.
func enabledExtractors(caps *plugin.Capabilities, o Order) []filesystem.Extractor {
	var exs []filesystem.Extractor
	for _, e := range newExtractors() {
		if plugin.ValidateRequirements(e, caps) == nil {
			exs = append(exs, e)
		}
	}
	exs = append(exs, canary{})
	if o.Rev {
		for i, j := 0, len(exs)-1; i < j; i, j = i+1, j-1 {
			exs[i], exs[j] = exs[j], exs[i]
		}
	}
	var front, rest []filesystem.Extractor
	used := map[string]bool{}
	for _, n := range o.Front {
		for _, e := range exs {
			if e.Name() == n && !used[n] {
				used[n] = true
				front = append(front, e)
			}
		}
	}
	for _, e := range exs {
		if !used[e.Name()] {
			rest = append(rest, e)
		}
	}
	return append(front, rest...)
}

// buildTree materialises the file contents into a Node tree (children sorted by name).  A file
// whose path collides with an earlier file or directory is dropped (can only happen in
// hand-edited or shrunk scenarios).
func buildTree(spec *RunSpec, corrupt bool) (*scan.Node, int, error) {
	root := &scan.Node{Name: ".", Kind: "dir"}
	total := 0
	mk := func(dir string) *scan.Node {
		cur := root
		if dir == "." || dir == "" {
			return cur
		}
		for _, seg := range strings.Split(dir, "/") {
			var next *scan.Node
			for _, ch := range cur.Children {
				if ch.Name == seg {
					next = ch
				}
			}
			if next == nil {
				next = &scan.Node{Name: seg, Kind: "dir"}
				cur.Children = append(cur.Children, next)
			}
			if !next.IsDir() {
				return nil
			}
			cur = next
		}
		return cur
	}
	for i := range spec.Files {
		f := &spec.Files[i]
		p := path.Clean(f.Path)
		if p == "." || strings.HasPrefix(p, "../") || strings.HasPrefix(p, "/") {
			continue
		}
		d := mk(path.Dir(p))
		if d == nil || d.Lookup(path.Base(p)) != nil {
			continue
		}
		if corrupt && f.CorruptFifo {
			d.Children = append(d.Children, &scan.Node{Name: path.Base(p), Kind: "fifo"})
			continue
		}
		if corrupt && f.CorruptLink != "" {
			d.Children = append(d.Children, &scan.Node{Name: path.Base(p), Kind: "symlink", Target: path.Clean(f.CorruptLink)})
			continue
		}
		b, err := f.Src.Bytes(corrupt)
		if err != nil {
			return nil, 0, err
		}
		d.Children = append(d.Children, &scan.Node{Name: path.Base(p), Kind: "file", Content: string(b), Exec: f.Exec})
		total += len(b)
	}
	for _, d := range spec.Dirs {
		p := path.Clean(d)
		if p != "." && !strings.HasPrefix(p, "../") && !strings.HasPrefix(p, "/") {
			mk(p)
		}
	}
	root.WalkTree(func(_ string, x *scan.Node) {
		sort.SliceStable(x.Children, func(i, j int) bool { return x.Children[i].Name < x.Children[j].Name })
		if spec.ListKey != 0 {
			sort.SliceStable(x.Children, func(i, j int) bool {
				return nameHash(spec.ListKey, x.Children[i].Name) < nameHash(spec.ListKey, x.Children[j].Name)
			})
		}
	})
	return root, total, nil
}

// writeTree materialises a Node tree under dir.
func writeTree(root *scan.Node, dir string) error {
	var err error
	root.WalkTree(func(p string, x *scan.Node) {
		if err != nil {
			return
		}
		full := filepath.Join(dir, filepath.FromSlash(p))
		switch x.Kind {
		case "dir":
			err = os.MkdirAll(full, 0o755)
		case "symlink":
			rel, rerr := filepath.Rel(filepath.Dir(full), filepath.Join(dir, filepath.FromSlash(x.Target)))
			if rerr != nil {
				rel = x.Target
			}
			err = os.Symlink(rel, full)
		case "file":
			mode := os.FileMode(0o644)
			if x.Exec {
				mode = 0o755
			}
			if err = os.WriteFile(full, []byte(x.Content), mode); err == nil {
				// a fixed, old mtime: any later write is visible to the cheap change detector
				err = os.Chtimes(full, oldTime, oldTime)
			}
		}
	})
	return err
}

// runScan executes the real Scanner.Scan on the scenario.  sb is the sandbox the process has
// already entered (cwd, TMPDIR); in real mode the tree is materialised under sb.Root.
func runScan(spec *RunSpec, corrupt bool, sb *sandbox, after func(ext, p string)) (*Obs, error) {
	root, total, err := buildTree(spec, corrupt)
	if err != nil {
		return nil, err
	}
	obs := &Obs{Required: map[string]map[string]bool{}, Status: map[string]plugin.ScanStatusEnum{}, Reason: map[string]string{}, TreeBytes: total, Nodes: root.Count()}
	rec := scan.NewRecorder(4_000_000)
	h := &harness{rec: rec, obs: obs, srcOf: map[*extractor.Package]string{}, cancelAt: spec.CancelAt, realMode: spec.Mode == "real", after: after}
	h.progress = os.Getenv(envProgress)
	h.readLimit = 64 * (total + 4096)
	h.openLimit = 64 + 8*obs.Nodes
	caps := &plugin.Capabilities{OS: osOf(spec.OS), Network: plugin.NetworkOffline, RunningSystem: spec.Running, DirectFS: spec.Mode == "real"}
	cfg := &scalibr.ScanConfig{Capabilities: caps, ReadSymlinks: spec.ReadSymlinks, MaxFileSize: spec.MaxFileSize}
	for _, e := range enabledExtractors(caps, spec.Order) {
		obs.Enabled = append(obs.Enabled, e.Name())
		cfg.FilesystemExtractors = append(cfg.FilesystemExtractors, &wrapped{Extractor: e, h: h})
	}
	var sfs *scan.SimFS
	if spec.Mode == "real" {
		if err := writeTree(root, sb.Root); err != nil {
			return nil, err
		}
		cfg.ScanRoots = scalibrfs.RealFSScanRoots(sb.Root)
	} else {
		plan := spec.Disk
		sfs = scan.NewSimFS(root, rec, &plan, "")
		cfg.ScanRoots = []*scalibrfs.ScanRoot{{FS: lockedFS{sfs, &h.fsMu, h, spec.NoSeek}, Path: ""}}
		if len(spec.Root2) > 0 {
			spec2 := *spec
			spec2.Files, spec2.Dirs, spec2.Root2 = spec.Root2, nil, nil
			root2, _, err := buildTree(&spec2, corrupt)
			if err != nil {
				return nil, err
			}
			sfs2 := scan.NewSimFS(root2, rec, &scan.DiskPlan{Chunk: plan.Chunk, EOFWithData: plan.EOFWithData}, "root2")
			cfg.ScanRoots = append(cfg.ScanRoots, &scalibrfs.ScanRoot{FS: lockedFS{sfs2, &h.fsMu, h, spec.NoSeek}, Path: ""})
		}
	}
	ctx, cancel := context.WithCancel(context.Background())
	defer cancel()
	h.cancel = cancel
	rec.OnEvent = func(seq int, e *scan.Event) {
		if !h.realMode && seq == h.cancelAt {
			cancel()
			e.Arg += " [CANCEL]"
		}
		if co := spec.CancelOn; co != nil && e.Op == co.Op && e.Path == co.Path {
			if h.cancelOnSeen++; h.cancelOnSeen == co.K {
				cancel()
				e.Arg += " [CANCEL]"
				obs.CancelOnFired = true
			}
		}
		if h.bgCall {
			e.Arg += bgMark
			return
		}
		cur := h.cur
		if cur == nil {
			return
		}
		switch e.Op {
		case "open":
			cur.Opens++
			if len(cur.Touched) < 64 && !has(cur.Touched, e.Path) {
				cur.Touched = append(cur.Touched, e.Path)
			}
			if cur.Opens > h.openLimit {
				h.budgetHit = "open-budget:" + cur.Ext
				if goid() == h.scanGoid {
					panic(budgetExceeded{"open-budget", cur.Ext})
				}
			}
		case "read", "readat":
			cur.Reads++
			if cur.Reads > h.readLimit {
				h.budgetHit = "read-budget:" + cur.Ext
				if goid() == h.scanGoid {
					panic(budgetExceeded{"read-budget", cur.Ext})
				}
			}
		}
	}

	var res *scalibr.ScanResult
	done := make(chan struct{})
	go func() {
		defer close(done)
		defer func() {
			// Outermost harness frame of the run: the only recover on the engine's call stack.
			if r := recover(); r != nil {
				h.mu.Lock()
				defer h.mu.Unlock()
				// (Scan's own deferred function panics again while a panic unwinds through it, so
				// the recovered value may be that secondary panic: the budget flags decide.)
				switch {
				case h.budgetHit != "":
					obs.Budget = h.budgetHit
				case scan.IsStepCap(r) || (rec.Limit > 0 && len(rec.Events) > rec.Limit):
					obs.Budget = "step-cap:" + h.lastExt
				default:
					st := string(debug.Stack())
					obs.Panic = fmt.Sprintf("%v", r)
					_, fault := r.(interface{ Addr() uintptr })
					if h.origPanic != "" {
						st, obs.Panic, fault = h.origStack, h.origPanic, h.origFault
					}
					obs.PanicExt = h.lastExt
					if h.origPanic == "" && h.cur == nil {
						obs.PanicExt = "engine" // not inside an Extract call: the walk, the result handling, the sort
					}
					if h.curReq != "" {
						obs.PanicExt = h.curReq // it happened in this extractor's FileRequired
					}
					obs.PanicSite = panicSite(st)
					if fault {
						obs.Panic = "FATAL memory fault (kills the whole process in production; made observable with debug.SetPanicOnFault): " + reHex.ReplaceAllString(obs.Panic, "0x..")
						obs.PanicSite = "fatal-fault:" + obs.PanicSite
					}
					obs.PanicStack = trimStack(st, 30)
				}
			}
		}()
		// bbolt (containerd) reads corrupted databases through mmap: a fault beyond the end of
		// a truncated file is a fatal, unrecoverable runtime error in production.  To observe
		// it instead of losing the worker, faults on this goroutine are turned into panics.
		debug.SetPanicOnFault(true)
		h.scanGoid = goid()
		res = scalibr.New().Scan(ctx, cfg)
	}()
	// Watchdog: 20 s of wall clock, or runaway memory (a parser recursing without bound would
	// otherwise take the worker down with a fatal stack overflow / out of memory before the
	// 20 s are over).  The scan goroutine cannot be interrupted; it is abandoned, the worker is
	// poisoned (see poisoned) and nothing the goroutine may still be writing is read below.
	var ms0, ms runtime.MemStats
	runtime.ReadMemStats(&ms0)
	deadline := time.After(watchdog)
	tick := time.NewTicker(200 * time.Millisecond)
	defer tick.Stop()
wait:
	for {
		select {
		case <-done:
			break wait
		case <-tick.C:
			runtime.ReadMemStats(&ms)
			if ms.Sys > ms0.Sys+(3<<29) {
				h.mu.Lock()
				ext := h.lastExt
				h.mu.Unlock()
				poisoned = true
				return &Obs{Hang: true, HangKind: "runaway-memory", HangExt: ext, Enabled: obs.Enabled, TreeBytes: total}, nil
			}
		case <-deadline:
			h.mu.Lock()
			ext := h.lastExt
			h.mu.Unlock()
			poisoned = true
			return &Obs{Hang: true, HangKind: "watchdog", HangExt: ext, Enabled: obs.Enabled, TreeBytes: total}, nil
		}
	}
	h.fsMu.Lock()
	// which Extract call was running when a planned fault fired
	cur := -1
	next := 0
	for _, e := range rec.Events {
		switch {
		case e.Op == "extract" && e.Res == "begin":
			cur = next
			next++
		case e.Op == "extract":
			cur = -1
		case e.Fault && cur >= 0 && cur < len(obs.Extracts):
			obs.Extracts[cur].FaultHit = true
		case e.Fault && cur < 0 && (e.Op == "open" || e.Op == "fstat"):
			// the engine's own open of a required file failed: no Extract call for that extractor
			if obs.EngineOpenFaults == nil {
				obs.EngineOpenFaults = map[string]int{}
			}
			obs.EngineOpenFaults[e.Path]++
		}
	}
	obs.HistFP = historyFP(rec.Events)
	h.fsMu.Unlock()
	obs.Events = len(rec.Events)
	if sfs != nil {
		obs.Fired = sfs.Fired
		obs.OpenLeak = sfs.Open_
	}
	if obs.Budget == "" {
		// the engine's recover around Extract contains the harness's budget signal as well
		if h.budgetHit != "" {
			obs.Budget = h.budgetHit
		} else if rec.Limit > 0 && len(rec.Events) > rec.Limit {
			obs.Budget = "step-cap:" + h.lastExt
		}
	}
	if res == nil {
		return obs, nil
	}
	if obs.Panic == "" && h.origPanic != "" {
		// an Extract call panicked and the engine contained it: the scan went on, but the
		// extractor did crash on this content
		obs.ExtPanic = h.origPanic
		obs.ExtPanicExt = h.origExt
		obs.ExtPanicSite = panicSite(h.origStack)
		if h.origFault {
			obs.ExtPanicSite = "fatal-fault:" + obs.ExtPanicSite
		}
		obs.ExtPanicStack = trimStack(h.origStack, 30)
	}
	obs.Returned = true
	obs.Overall = res.Status.Status
	obs.OverallMsg = res.Status.FailureReason
	for _, p := range res.Inventory.Packages {
		po := PkgObs{Src: "?"}
		if p == nil {
			po.Ident = "<nil package>"
			obs.Pkgs = append(obs.Pkgs, po)
			continue
		}
		if p.Extractor != nil {
			po.Ext = p.Extractor.Name()
		}
		if s, ok := h.srcOf[p]; ok {
			po.Src = s
		}
		po.Ident = pkgIdent(p)
		obs.Pkgs = append(obs.Pkgs, po)
	}
	for _, s := range res.PluginStatus {
		obs.NStatus++
		if s.Status != nil {
			obs.Status[s.Name] = s.Status.Status
			obs.Reason[s.Name] = s.Status.FailureReason
		}
	}
	return obs, nil
}

func pkgIdent(p *extractor.Package) string {
	locs := append([]string(nil), p.Locations...)
	meta := ""
	if p.Metadata != nil {
		if b, err := json.Marshal(p.Metadata); err == nil {
			h := sha256.Sum256(b)
			meta = hex.EncodeToString(h[:6])
		} else {
			meta = fmt.Sprintf("%T", p.Metadata)
		}
	}
	sc := ""
	if p.SourceCode != nil {
		sc = p.SourceCode.Repo + "@" + p.SourceCode.Commit
	}
	return fmt.Sprintf("%s|%s|%s|%s|%s", p.Name, p.Version, strings.Join(locs, ","), sc, meta)
}

var reHex = regexp.MustCompile(`0x[0-9a-f]+`)

// funcOf returns the function name of a stack-trace function line ("pkg.(*T).m(args)").
func funcOf(l string) string {
	if i := strings.LastIndex(l, "("); i > 0 && !strings.HasPrefix(l, "\t") && !strings.Contains(l[:i], " ") {
		return reHex.ReplaceAllString(l[:i], "")
	}
	return ""
}

// panicSite returns the first non-runtime, non-harness function below the innermost panic
// frame (a deferred function that panics again while unwinding adds further panic frames
// above the original one; the last one in the trace is the origin).
func panicSite(stack string) string {
	lines := strings.Split(stack, "\n")
	site := "unknown"
	armed := false
	for _, l := range lines {
		if strings.HasPrefix(l, "panic(") {
			armed = true
			continue
		}
		if !armed || strings.HasPrefix(l, "\t") || strings.HasPrefix(l, "runtime.") || strings.HasPrefix(l, "runtime/") {
			continue
		}
		// the first frame of a module (osv-scalibr or a dependency), not of the standard library
		if f := funcOf(l); f != "" && !strings.HasPrefix(f, "verif/") && strings.Contains(strings.SplitN(f, "/", 2)[0], ".") && strings.Contains(f, "/") {
			site = f
			armed = false
		}
	}
	return site
}

func trimStack(s string, n int) string {
	lines := strings.Split(s, "\n")
	if len(lines) > n {
		lines = lines[:n]
	}
	return strings.Join(lines, "\n")
}

var (
	knownOnce sync.Once
	knownRes  map[string][]*regexp.Regexp
)

// isKnown reports whether a violation key matches a known finding of the property (used only
// to skip the minimisation of violations that will be suppressed anyway).
func isKnown(prop, key string) bool {
	knownOnce.Do(func() {
		knownRes = map[string][]*regexp.Regexp{}
		b, err := os.ReadFile(os.Getenv("VERIF_KNOWN"))
		if err != nil {
			return
		}
		var all []struct {
			Status, Property string
			KeyRegex         string `json:"key_regex"`
		}
		if json.Unmarshal(b, &all) != nil {
			return
		}
		for _, k := range all {
			if k.Status == "known" {
				if re, err := regexp.Compile("^(?:" + k.KeyRegex + ")$"); err == nil {
					knownRes[k.Property] = append(knownRes[k.Property], re)
				}
			}
		}
	})
	for _, re := range knownRes[prop] {
		if re.MatchString(key) {
			return true
		}
	}
	return false
}

// nameHash orders directory entries for a listing-order key (FNV-1a over key and name, mixed).
func nameHash(key uint64, name string) uint64 {
	h := uint64(14695981039346656037) ^ key
	for i := 0; i < len(name); i++ {
		h ^= uint64(name[i])
		h *= 1099511628211
	}
	h ^= h >> 29
	h *= 0xbf58476d1ce4e5b9
	return h ^ h>>32
}
