package extract

import (
	"encoding/json"
	"fmt"
	"sort"
	"strings"
	"testing"

	"pgregory.net/rapid"
	"verif/sim"
)

// C08X is world X's part of C08 ("x-order"): the REAL built-in extractors on one tree of healthy
// fixtures, scanned under several listing orders of every directory and, per listing order,
// several times (Go map iteration inside the extractors is re-randomised on every run).
type C08XScenario struct {
	RunSpec
	Orders []uint64 `json:"orders"` // listing-order keys (0 = sorted by name)
	Reps   int      `json:"reps"`   // scans per listing order
}

type C08X struct{}

func (C08X) ID() string                    { return "C08" }
func (C08X) CrashProne() bool              { return true }
func (c C08X) evalAny(sc any) *sim.Outcome { return c.evaluate(sc.(*C08XScenario)) }

func (C08X) Rule() string {
	return "(x-order) One tree of 4-12 healthy repository fixtures of the real built-in extractors at production paths (plus, with some probability: two or three requirements files that -r include one shared file; a go < 1.17 go.mod with a replace directive and a go.sum that lists the replacement; two files in one nix store directory, optionally one of them over MaxFileSize; a package-lock.json with two entries of one package at the same git commit but different versions), scanned through SimFS with every enabled extractor under P listing orders (every directory lists its entries in the order of a keyed hash of their names; key 0 = sorted) x R repetitions per order (Go map iteration). With some probability a SECOND scan root (own os-release, OS package databases of the same extractors, sometimes the same nix store path): one scan of both roots must report exactly the packages of scanning each root alone (union law, metadata included). Oracle: every run yields the same multiset of packages (extractor, name, version, sorted locations, source repo/commit, metadata digest) and the same plugin statuses (status enum per extractor). Non-trivial = at least two listing orders really differ in some directory with two or more entries and at least three extractors reported packages. " + theTable().summary()
}

func (C08X) Decode(raw json.RawMessage) (any, error) {
	var s C08XScenario
	if err := json.Unmarshal(raw, &s); err != nil {
		return nil, err
	}
	return &s, nil
}

func (C08X) Gen(rt *rapid.T, tier string) any {
	t := theTable()
	if t.Err != nil {
		panic("harness: " + t.Err.Error())
	}
	osName := oneOf(rt, []string{"linux", "linux", "linux", "windows", "mac"}, "os")
	running := rapid.Bool().Draw(rt, "running")
	enabled := t.enabled(osName, running, false)
	sc := &C08XScenario{RunSpec: RunSpec{Mode: "sim", OS: osName, Running: running, CancelAt: -1}, Reps: 3}
	p := newPlacer(t)
	if chance(rt, 50, "shared-include") && has(enabled, "python/requirements") {
		// the monorepo layout: several requirements files include one shared file
		i := p.next
		p.next++
		d := inst(drawDir(rt, "inc.dir", false), "", i, "")
		p.add(FileSpec{Path: d + "/common/base.txt", Src: Src{Text: "requests==2.31.0\nurllib3==1.26.5\n"}})
		for k, n := 0, 2+pick(rt, 2, "inc.n"); k < n; k++ {
			p.add(FileSpec{Path: fmt.Sprintf("%s/svc-%c/requirements.txt", d, 'a'+k), Src: Src{Text: fmt.Sprintf("-r ../common/base.txt\nsvcdep%d==1.%d\n", k, k)}})
		}
		p.dirs[d] = true
	}
	if chance(rt, 40, "gomod-replace") && has(enabled, "go/gomod") {
		// go.sum is only consulted below go 1.17; it lists the replacement, as the go command writes it
		i := p.next
		p.next++
		d := inst(drawDir(rt, "gm.dir", true), "", i, "")
		p.add(FileSpec{Path: d + "/go.mod", Src: Src{Text: "module example.com/m\n\ngo 1.16\n\nrequire (\n\texample.com/old v1.0.0\n\texample.com/other v0.3.0\n)\n\nreplace example.com/old v1.0.0 => example.com/fork v1.2.0\n"}})
		p.add(FileSpec{Path: d + "/go.sum", Src: Src{Text: "example.com/fork v1.2.0 h1:AAAA=\nexample.com/fork v1.2.0/go.mod h1:BBBB=\nexample.com/other v0.3.0 h1:CCCC=\nexample.com/other v0.3.0/go.mod h1:DDDD=\nexample.com/extra v0.0.1/go.mod h1:EEEE=\n"}})
		p.dirs[d] = true
	}
	if chance(rt, 30, "lock-same-commit") && has(enabled, "javascript/packagelockjson") {
		// two entries of one package with the same git commit but different version fields
		i := p.next
		p.next++
		d := inst(drawDir(rt, "pl.dir", false), "", i, "")
		p.add(FileSpec{Path: d + "/package-lock.json", Src: Src{Text: `{"name":"x","lockfileVersion":3,"packages":{
 "":{"name":"x"},
 "node_modules/foo":{"version":"1.0.0","resolved":"git+ssh://git@github.com/a/foo.git#0123456789abcdef0123456789abcdef01234567"},
 "node_modules/bar/node_modules/foo":{"version":"1.0.1","resolved":"git+ssh://git@github.com/a/foo.git#0123456789abcdef0123456789abcdef01234567"},
 "node_modules/bar":{"version":"2.0.0","resolved":"https://registry.npmjs.org/bar/-/bar-2.0.0.tgz"}}}
`}})
		p.dirs[d] = true
	}
	if chance(rt, 10, "nix-size") && has(enabled, "os/nix") {
		// a store directory whose first-listed file may be over the scan's size limit
		sc.MaxFileSize = 4096
		p.add(FileSpec{Path: "nix/store/" + nixHash + "-perl-5.38.2/bin/big", Src: Src{Text: "#!/bin/sh\n", Pad: 6000}, Exec: true})
		p.add(FileSpec{Path: "nix/store/" + nixHash + "-perl-5.38.2/bin/small", Src: Src{Text: "x\n"}})
	}
	if chance(rt, 15, "nix-pair") && has(enabled, "os/nix") {
		// two files below one store directory (os/nix looks at the first one the walk delivers)
		p.add(FileSpec{Path: "nix/store/" + nixHash + "-hello-2.12.1/bin/hello", Src: Src{Text: "#!/bin/sh\n"}, Exec: true})
		p.add(FileSpec{Path: "nix/store/" + nixHash + "-hello-2.12.1/share/doc/README", Src: Src{Text: "hello\n"}})
	}
	addHealthy(rt, p, enabled, map[string]bool{}, 4+pick(rt, 5, "n1"), 300_000)
	// a second round may repeat extractors (several files of one extractor in different directories)
	addHealthy(rt, p, enabled, map[string]bool{}, pick(rt, 4, "n2"), 300_000)
	if chance(rt, 30, "dup") {
		addDuplicate(rt, p, -1)
	}
	if rapid.Bool().Draw(rt, "osrelease") {
		p.add(FileSpec{Path: "etc/os-release", Src: Src{Text: osRelease}})
	}
	sc.Files = p.files
	if chance(rt, 30, "root2") {
		genRoot2(rt, t, sc, enabled)
	}
	sc.Order.Rev = rapid.Bool().Draw(rt, "rev")
	sc.Disk.Chunk = oneOf(rt, []int{0, 0, 4096, 509}, "chunk")
	sc.Orders = []uint64{0}
	np := 3
	if tier == "thorough" {
		np, sc.Reps = 7, 5
	}
	for i := 0; i < np; i++ {
		sc.Orders = append(sc.Orders, 1+rapid.Uint64().Draw(rt, fmt.Sprintf("order%d", i)))
	}
	return sc
}

// resultOf renders what the statement fixes about one scan.
func resultOf(o *Obs) (pkgs []string, status []string) {
	for _, p := range o.Pkgs {
		parts := strings.SplitN(p.Ident, "|", 5) // name|version|locations|source|meta
		if len(parts) == 5 {
			locs := strings.Split(parts[2], ",")
			sort.Strings(locs)
			parts[2] = strings.Join(locs, ",")
		}
		pkgs = append(pkgs, p.Ext+"|"+strings.Join(parts, "|"))
	}
	sort.Strings(pkgs)
	for _, e := range o.Enabled {
		status = append(status, e+"="+statusName(o.Status[e]))
	}
	sort.Strings(status)
	return
}

func (c C08X) Run(t *testing.T, scAny any) *sim.Outcome {
	sc := scAny.(*C08XScenario)
	out := c.evaluate(sc)
	if len(out.Violations) > 0 && !out.NoShrink && !isKnown("C08", out.Violations[0].Key) {
		key := out.Violations[0].Key
		best := sc
		budget := 25
		for i := len(best.Files) - 1; i >= 0 && budget > 0; i-- {
			y := *best
			y.Files = append(append([]FileSpec(nil), best.Files[:i]...), best.Files[i+1:]...)
			budget--
			if o := c.evaluate(&y); hasKey(o, key) {
				out.Executions += o.Executions
				out.Violations = keyFirst(o.Violations, key)
				best = &y
			}
		}
		out.ReplayScenario = best
		out.NoShrink = true
	}
	return out
}

func (c C08X) evaluate(sc *C08XScenario) *sim.Outcome {
	out := &sim.Outcome{}
	if poisoned {
		out.Count("skipped.poisoned_worker", 1)
		return out
	}
	if needsChild(&sc.RunSpec) {
		return evalInChild("C08", sc)
	}
	sb, err := newSandbox(false)
	if err != nil {
		panic("harness: " + err.Error())
	}
	defer sb.remove()
	if err := sb.enter(); err != nil {
		panic("harness: " + err.Error())
	}
	defer sb.leave()
	reps := sc.Reps
	if reps < 1 {
		reps = 1
	}
	type runRes struct {
		order, rep int
		desc       string
		pkgs       map[string][]string // extractor -> sorted package lines
		status     map[string]string
	}
	var runs []runRes
	var fps []string
	producers := map[string]bool{}
	for oi, key := range sc.Orders {
		for r := 0; r < reps; r++ {
			spec := sc.RunSpec
			spec.Root2 = nil
			spec.ListKey = key
			obs, err := runScan(&spec, false, sb, nil)
			if err != nil {
				panic("harness: " + err.Error())
			}
			out.Executions++
			resetDir(sb.Tmp)
			if obs.Hang || obs.Panic != "" || obs.Budget != "" || !obs.Returned {
				// crashes and hangs are C02's business; nothing to compare
				out.Count("skipped.scan_did_not_return", 1)
				return out
			}
			if r == 0 {
				fps = append(fps, obs.HistFP)
			}
			ps, ss := resultOf(obs)
			rr := runRes{order: oi, rep: r, desc: fmt.Sprintf("listing order %d (key %d), repetition %d", oi, key, r), pkgs: map[string][]string{}, status: map[string]string{}}
			for _, l := range ps {
				e := strings.SplitN(l, "|", 2)[0]
				rr.pkgs[e] = append(rr.pkgs[e], l)
				producers[e] = true
			}
			for _, l := range ss {
				kv := strings.SplitN(l, "=", 2)
				rr.status[kv[0]] = kv[1]
			}
			runs = append(runs, rr)
		}
	}
	// Every run is executed before anything is judged (the number of executions and the class of a
	// difference must not depend on which run happens to show it first).  Per extractor: runs of
	// the SAME listing order that differ => map-order-dependent; otherwise runs of different
	// listing orders that differ => order-dependent.
	exts := map[string]bool{}
	for _, r := range runs {
		for e := range r.pkgs {
			exts[e] = true
		}
		for e := range r.status {
			exts[e] = true
		}
	}
	for _, e := range sortedKeys(exts) {
		for _, what := range []string{"packages", "status"} {
			val := func(r runRes) string {
				if what == "packages" {
					return strings.Join(r.pkgs[e], "\n ")
				}
				return r.status[e]
			}
			var same, cross *[2]runRes
			for i := range runs {
				for j := i + 1; j < len(runs); j++ {
					if val(runs[i]) == val(runs[j]) {
						continue
					}
					pair := [2]runRes{runs[i], runs[j]}
					if runs[i].order == runs[j].order && same == nil {
						same = &pair
					} else if runs[i].order != runs[j].order && cross == nil {
						cross = &pair
					}
				}
			}
			class, pair := "map-order-dependent", same
			if same == nil {
				class, pair = "order-dependent", cross
			}
			if pair != nil {
				out.Violate(class, class+":"+what+":"+e, "the %s of %s differ between %s and %s (same tree, same configuration):\n %s\nversus\n %s",
					what, e, pair[0].desc, pair[1].desc, val(pair[0]), val(pair[1]))
			}
		}
	}
	// union law: one scan of the roots [A, B] (extractor instances shared, as scalibr does) reports
	// exactly the packages of a scan of A plus the packages of a scan of B - metadata included
	if len(sc.Root2) > 0 && len(runs) > 0 {
		scanOf := func(files, root2 []FileSpec) map[string][]string {
			spec := sc.RunSpec
			spec.Files, spec.Root2, spec.ListKey = files, root2, 0
			obs, err := runScan(&spec, false, sb, nil)
			if err != nil {
				panic("harness: " + err.Error())
			}
			out.Executions++
			resetDir(sb.Tmp)
			if obs.Hang || obs.Panic != "" || obs.Budget != "" || !obs.Returned {
				return nil
			}
			m := map[string][]string{}
			ps, _ := resultOf(obs)
			for _, l := range ps {
				e := strings.SplitN(l, "|", 2)[0]
				m[e] = append(m[e], l)
			}
			return m
		}
		both, onlyB := scanOf(sc.Files, sc.Root2), scanOf(sc.Root2, nil)
		if both == nil || onlyB == nil {
			out.Count("skipped.scan_did_not_return", 1)
			return out
		}
		out.Count("multi_root", 1)
		ue := map[string]bool{}
		for e := range both {
			ue[e] = true
		}
		for e := range onlyB {
			ue[e] = true
		}
		for e := range runs[0].pkgs {
			ue[e] = true
		}
		for _, e := range sortedKeys(ue) {
			union := append(append([]string(nil), runs[0].pkgs[e]...), onlyB[e]...)
			sort.Strings(union)
			got := append([]string(nil), both[e]...)
			sort.Strings(got)
			if strings.Join(union, "\n") != strings.Join(got, "\n") {
				out.Violate("multi-root", "multi-root:packages:"+e, "scanning the two roots together does not give the union of scanning each alone for %s:\n together:\n  %s\n root 1 alone + root 2 alone:\n  %s",
					e, strings.Join(got, "\n  "), strings.Join(union, "\n  "))
			}
		}
	}
	distinct := map[string]bool{}
	for _, f := range fps {
		distinct[f] = true
	}
	out.HistoryFP = sim.FP(fps)
	out.Nontrivial = len(distinct) >= 2 && len(producers) >= 3
	out.Count("orders", int64(len(sc.Orders)))
	out.Count("distinct_listing_histories", int64(len(distinct)))
	out.Sample = map[string]any{"os": sc.OS, "files": describeFiles(sc.Files), "orders": len(sc.Orders), "reps": reps}
	return out
}

// genRoot2 adds a second scan root: another machine image with its own (different) os-release, OS
// package databases of extractors that root 1 feeds as well, and sometimes the very same nix
// store path.
func genRoot2(rt *rapid.T, t *table, sc *C08XScenario, enabled []string) {
	hasPath := func(fs []FileSpec, p string) bool {
		for _, f := range fs {
			if f.Path == p {
				return true
			}
		}
		return false
	}
	a := pick(rt, len(osReleaseVariants), "r2.osA")
	b := (a + 1 + pick(rt, len(osReleaseVariants)-1, "r2.osB")) % len(osReleaseVariants)
	if !hasPath(sc.Files, "etc/os-release") {
		sc.Files = append(sc.Files, FileSpec{Path: "etc/os-release", Src: Src{Text: osReleaseVariants[a]}})
	}
	// root 1 as a placer again, to add databases next to what is already there
	pa := newPlacer(t)
	pa.files = sc.Files
	for _, f := range sc.Files {
		pa.used[f.Path] = true
	}
	pa.next = 80
	q := newPlacer(t)
	q.next = 50
	var osx []string
	for _, e := range []string{"os/dpkg", "os/apk", "os/pacman", "os/portage", "os/cos", "os/kernel/module", "os/flatpak"} {
		if has(enabled, e) {
			osx = append(osx, e)
		}
	}
	for k, n := 0, 1+pick(rt, 2, "r2.n"); k < n && len(osx) > 0; k++ {
		e := osx[pick(rt, len(osx), fmt.Sprintf("r2.ext%d", k))]
		if fi := pickFixture(rt, t, e, 300_000, true, fmt.Sprintf("r2.f%d", k)); fi >= 0 {
			q.place(fi, homeTmpl(rt, t, fi, fmt.Sprintf("r2.tm%d", k)), drawDir(rt, fmt.Sprintf("r2.dir%d", k), false))
		}
		if fi := pickFixture(rt, t, e, 300_000, true, fmt.Sprintf("r2.g%d", k)); fi >= 0 {
			pa.place(fi, homeTmpl(rt, t, fi, fmt.Sprintf("r2.tn%d", k)), drawDir(rt, fmt.Sprintf("r2.dirb%d", k), false))
		}
	}
	addHealthy(rt, q, enabled, map[string]bool{}, pick(rt, 3, "r2.h"), 300_000)
	q.add(FileSpec{Path: "etc/os-release", Src: Src{Text: osReleaseVariants[b]}})
	if chance(rt, 25, "r2.nix") && has(enabled, "os/nix") {
		ptar := "nix/store/" + nixHash + "-perl-5.38.2/bin/ptar"
		q.add(FileSpec{Path: ptar, Src: Src{Text: "#!/bin/sh\n"}, Exec: true})
		pa.add(FileSpec{Path: ptar, Src: Src{Text: "#!/bin/sh\n"}, Exec: true})
	}
	sc.Files = pa.files
	sc.Root2 = q.files
}
