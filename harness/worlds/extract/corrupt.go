package extract

import (
	"archive/zip"
	"bytes"
	"encoding/base64"
	"encoding/json"
	"fmt"
	"os"
	"path/filepath"
	"sort"
	"strconv"
	"strings"
	"sync"
)

// Op is one stored-data corruption operator (DESIGN §3.1).  Offsets are reduced modulo the
// current length when applied, so every Op is applicable to every content.
type Op struct {
	Kind    string `json:"k"`             // trunc | bitflip | subst | zero | dup | swap | garbage | empty | marker | setu32 | nul | crlf | cutquote | delclose | emptyval | longtok | cutkey | dupline | delline | nullval | strval
	Off     int    `json:"off,omitempty"` // byte offset
	FromEnd bool   `json:"end,omitempty"` // Off counts back from the end
	Len     int    `json:"len,omitempty"` // block length
	Val     int    `json:"val,omitempty"` // bit number / substituted byte / garbage seed
}

func (o Op) String() string {
	e := ""
	if o.FromEnd {
		e = "-"
	}
	return fmt.Sprintf("%s@%s%d+%d/%d", o.Kind, e, o.Off, o.Len, o.Val)
}

func (o Op) apply(b []byte) []byte {
	n := len(b)
	off := 0
	if n > 0 {
		off = o.Off % (n + 1)
		if o.FromEnd {
			off = n - off
		}
	}
	blk := func() (int, int) { // [lo,hi) inside b
		l := o.Len
		if l < 1 {
			l = 1
		}
		lo := off
		if lo >= n {
			lo = n - 1
		}
		if lo < 0 {
			return 0, 0
		}
		hi := lo + l
		if hi > n {
			hi = n
		}
		return lo, hi
	}
	out := append([]byte(nil), b...)
	switch o.Kind {
	case "empty":
		return []byte{}
	case "trunc":
		return out[:off]
	case "bitflip":
		if lo, hi := blk(); hi > lo {
			out[lo] ^= 1 << uint(o.Val&7)
		}
	case "subst":
		if lo, hi := blk(); hi > lo {
			out[lo] = byte(o.Val)
		}
	case "zero":
		lo, hi := blk()
		for i := lo; i < hi; i++ {
			out[i] = 0
		}
	case "dup":
		lo, hi := blk()
		res := append([]byte(nil), out[:hi]...)
		res = append(res, out[lo:hi]...)
		return append(res, out[hi:]...)
	case "swap":
		lo, hi := blk()
		l := hi - lo
		if hi+l <= n && l > 0 {
			tmp := append([]byte(nil), out[lo:hi]...)
			copy(out[lo:hi], out[hi:hi+l])
			copy(out[hi:hi+l], tmp)
		}
	case "setu32":
		// overwrite a little-endian 32-bit field (sizes, counts, offsets of binary headers)
		if lo, _ := blk(); lo+4 <= n {
			v := []uint32{0, 1, 0xffffffff, 0x7fffffff, 0x80000000, 0x00010000, 0x10000000, 0xfffffff0}[o.Val&7]
			out[lo], out[lo+1], out[lo+2], out[lo+3] = byte(v), byte(v>>8), byte(v>>16), byte(v>>24)
		}
	case "nul":
		l := o.Len
		if l < 1 {
			l = 1
		}
		res := append([]byte(nil), out[:off]...)
		res = append(res, make([]byte, l)...)
		return append(res, out[off:]...)
	case "crlf":
		return bytes.ReplaceAll(out, []byte("\n"), []byte("\r\n"))
	case "cutkey":
		// wave 8 (C02-w8-2): a name token cut at one of its inner separators - "/@scope/name@1.0:" becomes
		// "/@scope:" or "/@scope/name:" - the rest of the token up to its terminator is dropped
		// only inside the first token of a line (a YAML / TOML / JSON key), past its first character
		var pos []int
		for i := 0; i < n; i++ {
			if i > 0 && out[i-1] != '\n' {
				continue
			}
			j := i
			for j < n && strings.IndexByte(" \t-\"'", out[j]) >= 0 {
				j++
			}
			for k := j + 1; k < n && strings.IndexByte(":\"', \t\r\n=", out[k]) < 0; k++ {
				if (out[k] == '/' || out[k] == '@') && k > j+1 {
					pos = append(pos, k)
				}
			}
		}
		if len(pos) == 0 {
			return out
		}
		at := pos[o.Off%len(pos)]
		end := at
		for end < n && strings.IndexByte(":\"', \t\r\n=", out[end]) < 0 {
			end++
		}
		return append(out[:at:at], out[end:]...)
	case "cutquote", "delclose", "emptyval", "longtok":
		// text-aware: Off selects the n-th occurrence of a character class
		class := map[string]string{"cutquote": "\"'`", "delclose": "]})>\"'", "emptyval": "=:", "longtok": "=:, \t\"[{("}[o.Kind]
		var pos []int
		for i, c := range out {
			if strings.IndexByte(class, c) >= 0 {
				pos = append(pos, i)
			}
		}
		if len(pos) == 0 {
			return out
		}
		at := pos[o.Off%len(pos)]
		switch o.Kind {
		case "cutquote": // the content ends right after an opening/closing quote
			return out[:at+1]
		case "delclose": // a closing bracket / quote is missing
			return append(out[:at:at], out[at+1:]...)
		case "emptyval": // nothing after the delimiter on that line
			end := at + 1
			for end < n && out[end] != '\n' {
				end++
			}
			keep := 0
			if o.Val&1 == 1 && end > at+1 {
				keep = 1 // keep one character of the value (e.g. a lone quote)
			}
			return append(out[:at+1+keep:at+1+keep], out[end:]...)
		default: // a very long token after the delimiter
			l := o.Len
			if l < 1 {
				l = 1
			}
			res := append([]byte(nil), out[:at+1]...)
			res = append(res, bytes.Repeat([]byte{"Aa1-./"[o.Val%6]}, l)...)
			return append(res, out[at+1:]...)
		}
	case "nullval", "strval":
		return structural(out, o)
	case "dupline", "delline":
		lines := bytes.SplitAfter(out, []byte("\n"))
		if len(lines) == 0 {
			return out
		}
		i := o.Off % len(lines)
		var res []byte
		for j, l := range lines {
			if j == i && o.Kind == "delline" {
				continue
			}
			res = append(res, l...)
			if j == i && o.Kind == "dupline" {
				if !bytes.HasSuffix(l, []byte("\n")) {
					res = append(res, '\n')
				}
				res = append(res, l...)
			}
		}
		return res
	case "marker":
		// plugin failure as a fault kind: the harness canary extractor panics (Val 0) or returns
		// an error (Val 1) on content that carries the marker
		m := canaryPanicMarker
		if o.Val == 1 {
			m = canaryErrorMarker
		}
		res := append([]byte(nil), out[:off]...)
		res = append(res, "\n"+m+"\n"...)
		return append(res, out[off:]...)
	case "garbage":
		l := o.Len
		if l < 1 {
			l = 1
		}
		x := uint32(o.Val)*2654435761 + 12345
		for i := 0; i < l; i++ {
			x = x*1664525 + 1013904223 // fixed LCG: a pure function of the scenario
			out = append(out, byte(x>>24))
		}
	}
	return out
}

// ZipEnt is one entry of a synthetic zip container.
type ZipEnt struct {
	Name    string `json:"name"`
	Src     Src    `json:"src"`
	Deflate bool   `json:"deflate,omitempty"`
}

// Src describes a file content without embedding it: literal text, then the bytes of a
// repository fixture, then one generated line of Pad bytes; or a zip container of such
// contents.  Ops are applied last.  healthy = the same with every Op removed.
type Src struct {
	Fix  string    `json:"fix,omitempty"`  // repo-relative fixture path
	Text string    `json:"text,omitempty"` // literal text placed before the fixture bytes
	Pad  int       `json:"pad,omitempty"`  // one generated line of this many bytes appended (no line break inside)
	Zip  []ZipEnt  `json:"zip,omitempty"`
	Gen  string    `json:"gen,omitempty"`  // built-in generated content: rpm-wal-db | rpm-wal-wal | rpm-wal-checkpointed (walfixture.go)
	Elf  *ElfSpec  `json:"elf,omitempty"`  // a generated ELF file (synth.go)
	Bolt *BoltSpec `json:"bolt,omitempty"` // a generated bolt database in containerd's layout (synth.go)
	Ops  []Op      `json:"ops,omitempty"`
}

var (
	fixMu    sync.Mutex
	fixCache = map[string][]byte{}
)

func readFixture(rel string) ([]byte, error) {
	fixMu.Lock()
	defer fixMu.Unlock()
	if b, ok := fixCache[rel]; ok {
		return b, nil
	}
	if strings.Contains(rel, "..") {
		return nil, fmt.Errorf("fixture path %q escapes the repository", rel)
	}
	b, err := os.ReadFile(filepath.Join(repoDir(), filepath.FromSlash(rel)))
	if err != nil {
		return nil, err
	}
	fixCache[rel] = b
	return b, nil
}

// Bytes materialises the content; corrupt=false ignores every Op (also the nested ones).
// Large synthetic containers are memoised (a pure function of the Src value).
func (s *Src) Bytes(corrupt bool) ([]byte, error) {
	big := s.Elf != nil && s.Elf.InflateMiB > 0
	for i := range s.Zip {
		big = big || s.Zip[i].Src.Pad >= 1<<19
	}
	if !big {
		return s.bytes(corrupt)
	}
	kb, _ := json.Marshal(s)
	key := fmt.Sprintf("%v|%s", corrupt, kb)
	fixMu.Lock()
	b, ok := srcCache[key]
	fixMu.Unlock()
	if ok {
		return b, nil
	}
	b, err := s.bytes(corrupt)
	if err == nil {
		fixMu.Lock()
		if len(srcCache) > 6 {
			srcCache = map[string][]byte{}
		}
		srcCache[key] = b
		fixMu.Unlock()
	}
	return b, err
}

var srcCache = map[string][]byte{}

func (s *Src) bytes(corrupt bool) ([]byte, error) {
	var b []byte
	if len(s.Zip) > 0 {
		var buf bytes.Buffer
		zw := zip.NewWriter(&buf)
		for _, e := range s.Zip {
			inner, err := e.Src.Bytes(corrupt)
			if err != nil {
				return nil, err
			}
			m := zip.Store
			if e.Deflate {
				m = zip.Deflate
			}
			w, err := zw.CreateHeader(&zip.FileHeader{Name: e.Name, Method: m})
			if err != nil {
				return nil, err
			}
			w.Write(inner)
		}
		if err := zw.Close(); err != nil {
			return nil, err
		}
		b = buf.Bytes()
	} else {
		if s.Elf != nil {
			b = append(b, s.Elf.bytes()...)
		}
		if s.Bolt != nil {
			bb, err := s.Bolt.bytes()
			if err != nil {
				return nil, err
			}
			b = append(b, bb...)
		}
		switch s.Gen {
		case "rpm-wal-db":
			d, _ := base64.StdEncoding.DecodeString(walDB)
			b = append(b, d...)
		case "rpm-wal-checkpointed":
			d, _ := base64.StdEncoding.DecodeString(walDB2)
			b = append(b, d...)
		case "rpm-wal-wal":
			d, _ := base64.StdEncoding.DecodeString(walWAL)
			b = append(b, d...)
		}
		b = append(b, s.Text...)
		if s.Fix != "" {
			fb, err := readFixture(s.Fix)
			if err != nil {
				return nil, err
			}
			b = append(b, fb...)
		}
		if s.Pad > 0 {
			line := []byte("padpkg==1.0 --hash=sha256:")
			for len(line) < s.Pad {
				line = append(line, "0123456789abcdef0123456789abcdef0123456789abcdef0123456789abcdef"...)
			}
			b = append(b, line[:s.Pad]...)
			b = append(b, '\n')
		}
	}
	if corrupt {
		for _, o := range s.Ops {
			b = o.apply(b)
		}
	}
	return b, nil
}

// HasOps reports whether any corruption operator is present (also nested).
func (s *Src) HasOps() bool {
	if len(s.Ops) > 0 {
		return true
	}
	for i := range s.Zip {
		if s.Zip[i].Src.HasOps() {
			return true
		}
	}
	return false
}

func (s *Src) describe() string {
	var sb strings.Builder
	if len(s.Zip) > 0 {
		sb.WriteString("zip{")
		for i, e := range s.Zip {
			if i > 0 {
				sb.WriteString(",")
			}
			sb.WriteString(e.Name + "=" + e.Src.describe())
		}
		sb.WriteString("}")
	} else {
		if s.Text != "" {
			fmt.Fprintf(&sb, "text(%d)+", len(s.Text))
		}
		if s.Elf != nil {
			fmt.Fprintf(&sb, "elf{%s inflate=%dMiB zlib=%v compressed=%v}", s.Elf.Section, s.Elf.InflateMiB, s.Elf.Zlib, s.Elf.Compressed)
		}
		if s.Bolt != nil {
			fmt.Fprintf(&sb, "bolt{%d containers, %d snapshots}", len(s.Bolt.Containers), len(s.Bolt.Snapshots))
		}
		sb.WriteString(s.Gen + filepath.Base(s.Fix))
		if s.Pad > 0 {
			fmt.Fprintf(&sb, "+pad(%d)", s.Pad)
		}
	}
	for _, o := range s.Ops {
		sb.WriteString(" " + o.String())
	}
	return sb.String()
}

// specialStrings are the values the "strval" operator puts in place of a string value.
var specialStrings = []string{"", "npm:b", "__MSG__", "__MSG_x__", "file:", "@", "@a", "a@", "/", "/@a", "git+", "../..", "0", "latest", " ", "a:b:c", "=", "\u0000"}

// structural rewrites one node of a JSON document (Off = which node in document order):
// "nullval" replaces it by null (Val odd: by [null]), "strval" replaces a string by a special
// string.  Content that is not JSON (YAML, TOML, JSON5, ...) is handled line-wise: the value
// after the first ':' or '=' of the selected line, or a "- item" list element.
func structural(b []byte, o Op) []byte {
	repl := any(nil)
	if o.Kind == "strval" {
		repl = specialStrings[o.Val%len(specialStrings)]
	} else if o.Val&1 == 1 {
		repl = []any{nil}
	}
	var doc any
	dec := json.NewDecoder(bytes.NewReader(b))
	dec.UseNumber()
	if err := dec.Decode(&doc); err == nil {
		// count the candidate nodes, then rewrite the selected one
		n := 0
		var walk func(v any, pick int) (any, bool)
		walk = func(v any, pick int) (any, bool) {
			cand := o.Kind == "nullval"
			if _, isStr := v.(string); isStr {
				cand = true
			}
			if cand {
				if n == pick {
					n++
					return repl, true
				}
				n++
			}
			switch x := v.(type) {
			case map[string]any:
				keys := make([]string, 0, len(x))
				for k := range x {
					keys = append(keys, k)
				}
				sort.Strings(keys)
				for _, k := range keys {
					if nv, done := walk(x[k], pick); done {
						x[k] = nv
						return x, true
					}
				}
			case []any:
				for i := range x {
					if nv, done := walk(x[i], pick); done {
						x[i] = nv
						return x, true
					}
				}
			}
			return v, false
		}
		walk(doc, -1)
		if n == 0 {
			return b
		}
		total := n
		n = 0
		nd, _ := walk(doc, o.Off%total)
		if out, err := json.MarshalIndent(nd, "", "  "); err == nil {
			return append(out, '\n')
		}
		return b
	}
	lines := bytes.SplitAfter(b, []byte("\n"))
	var cands []int
	for i, l := range lines {
		t := bytes.TrimSpace(l)
		if len(t) > 0 && t[0] != '#' && (bytes.ContainsAny(t, ":=") || bytes.HasPrefix(t, []byte("- "))) {
			cands = append(cands, i)
		}
	}
	if o.Kind == "nullval" && o.Off%(len(cands)+1) == len(cands) {
		return []byte([]string{"null\n", "~\n", "# nothing\n", "---\n"}[o.Val%4]) // the whole (YAML) document is null
	}
	if len(cands) == 0 {
		return b
	}
	i := cands[o.Off%len(cands)]
	l := lines[i]
	val := "null"
	if s, ok := repl.(string); ok {
		val = strconv.Quote(s)
	} else if repl != nil {
		val = "[null]"
	}
	body := bytes.TrimRight(l, "\r\n")
	eol := l[len(body):]
	var nl []byte
	if t := bytes.TrimLeft(body, " \t"); bytes.HasPrefix(t, []byte("- ")) && !bytes.ContainsAny(t, ":=") {
		nl = append(append([]byte(nil), body[:len(body)-len(t)+2]...), val...)
	} else {
		at := bytes.IndexAny(body, ":=")
		nl = append(append([]byte(nil), body[:at+1]...), (" " + val)...)
	}
	lines[i] = append(nl, eol...)
	return bytes.Join(lines, nil)
}
