package extract

import (
	"bytes"
	"crypto/sha256"
	"encoding/hex"
	"errors"
	"fmt"
	"io"
	"io/fs"
	"runtime"
	"sort"
	"strings"
	"sync"

	"verif/worlds/scan"
)

// Some built-in extractors read the scanned file from a goroutine of their own (java/archive
// pumps MANIFEST.MF through an io.Pipe).  World S's SimFS and Recorder are single-threaded by
// design, so world X serialises every FS and handle operation with one mutex, and fingerprints
// the history without depending on where the positional reads of that goroutine fall.

type lockedFS struct {
	fs     *scan.SimFS
	mu     *sync.Mutex
	h      *harness
	noSeek bool // regular-file handles do not implement io.Seeker (legal: the contract asks for ReaderAt only)
}

func (l lockedFS) Open(name string) (fs.File, error) {
	l.mu.Lock()
	defer l.mu.Unlock()
	if n := l.fs.Root.Resolve(name); n != nil && n.Kind == "fifo" && fs.ValidPath(name) {
		// A named pipe without a writer: open(2) never returns.  The walk itself never opens
		// non-regular files; an extractor that opens one (a companion file it does not check) hangs.
		l.fs.Rec.Add("open", name, "", "fifo: blocks forever")
		who := "engine"
		if l.h.cur != nil {
			who = l.h.cur.Ext
		}
		l.h.budgetHit = "open-never-returns:" + who
		if goid() == l.h.scanGoid {
			panic(budgetExceeded{"open-never-returns", who})
		}
		return nil, &fs.PathError{Op: "open", Path: name, Err: fs.ErrInvalid}
	}
	f, err := l.fs.Open(name)
	if err != nil {
		return nil, err
	}
	if _, ok := f.(fs.ReadDirFile); ok {
		return lockedDir{lockedFile{f, l.mu, l.h}}, nil
	}
	if l.noSeek {
		return noSeekFile{lockedFile{f, l.mu, l.h}}, nil
	}
	return lockedFile{f, l.mu, l.h}, nil
}

func (l lockedFS) Stat(name string) (fs.FileInfo, error) {
	l.mu.Lock()
	defer l.mu.Unlock()
	return l.fs.Stat(name)
}

func (l lockedFS) ReadDir(name string) ([]fs.DirEntry, error) {
	l.mu.Lock()
	defer l.mu.Unlock()
	return l.fs.ReadDir(name)
}

type lockedFile struct {
	f  fs.File
	mu *sync.Mutex
	h  *harness
}

func (l lockedFile) Stat() (fs.FileInfo, error) {
	l.mu.Lock()
	defer l.mu.Unlock()
	return l.f.Stat()
}

func (l lockedFile) Read(b []byte) (int, error) {
	l.mu.Lock()
	defer l.mu.Unlock()
	return l.f.Read(b)
}

func (l lockedFile) Close() error {
	l.mu.Lock()
	defer l.mu.Unlock()
	return l.f.Close()
}

func (l lockedFile) ReadAt(b []byte, off int64) (int, error) {
	l.mu.Lock()
	defer l.mu.Unlock()
	if ra, ok := l.f.(io.ReaderAt); ok {
		// A positional read made by a goroutine the extractor started (not by the scanning
		// goroutine) happens whenever the Go scheduler gets to it - possibly after Extract or
		// even Scan has returned.  It is marked, not counted against a budget, and left out of
		// the history fingerprint.
		if g := goid(); g != l.h.scanGoid {
			l.h.bgCall = true
			defer func() { l.h.bgCall = false }()
		}
		return ra.ReadAt(b, off)
	}
	return 0, errors.New("not a regular file")
}

func (l lockedFile) Seek(off int64, whence int) (int64, error) {
	l.mu.Lock()
	defer l.mu.Unlock()
	if s, ok := l.f.(io.Seeker); ok {
		return s.Seek(off, whence)
	}
	return 0, errors.New("not a regular file")
}

// noSeekFile hides Seek: Stat, Read, Close and ReadAt only.
type noSeekFile struct{ lf lockedFile }

func (n noSeekFile) Stat() (fs.FileInfo, error)              { return n.lf.Stat() }
func (n noSeekFile) Read(b []byte) (int, error)              { return n.lf.Read(b) }
func (n noSeekFile) Close() error                            { return n.lf.Close() }
func (n noSeekFile) ReadAt(b []byte, off int64) (int, error) { return n.lf.ReadAt(b, off) }

type lockedDir struct{ lockedFile }

func (l lockedDir) ReadDir(n int) ([]fs.DirEntry, error) {
	l.mu.Lock()
	defer l.mu.Unlock()
	return l.f.(fs.ReadDirFile).ReadDir(n)
}

const bgMark = " [bg]"

// goid returns the id of the calling goroutine (about 1 us: used per positional read and on the budget path).
func goid() string {
	var buf [64]byte
	b := buf[:runtime.Stack(buf[:], false)]
	b = bytes.TrimPrefix(b, []byte("goroutine "))
	if i := bytes.IndexByte(b, ' '); i > 0 {
		return string(b[:i])
	}
	return "?"
}

// historyFP fingerprints the seam history: every event in order, except positional reads
// (readat), which enter as a sorted multiset - a reader goroutine inside an extractor may
// interleave them differently from run to run.
func historyFP(events []scan.Event) string {
	h := sha256.New()
	var ra []string
	for _, e := range events {
		if strings.HasSuffix(e.Arg, bgMark) {
			continue
		}
		if e.Op == "readat" {
			ra = append(ra, e.Path+"|"+e.Arg+"|"+e.Res)
			continue
		}
		fmt.Fprintf(h, "%s|%s|%s|%s|%v\n", e.Op, e.Path, e.Arg, e.Res, e.Fault)
	}
	sort.Strings(ra)
	for _, s := range ra {
		fmt.Fprintln(h, s)
	}
	return hex.EncodeToString(h.Sum(nil)[:12])
}
