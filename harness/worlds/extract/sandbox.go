package extract

import (
	"crypto/sha256"
	"encoding/hex"
	"fmt"
	"io"
	"io/fs"
	"os"
	"path/filepath"
	"regexp"
	"sort"
	"strings"
)

// sandbox is the durable state of one scenario: {scanroot, cwd, tmp} under $VERIF_SCRATCH.
// The process chdirs to cwd and points TMPDIR at tmp for the duration of the run (runs are
// serial inside a worker, so attribution is exact).
type sandbox struct {
	Dir, Root, Cwd, Tmp string
	oldWD, oldTmp       string
	hadTmp              bool
}

var sandboxSeq int

func scratchDir() string {
	if v := os.Getenv("VERIF_SCRATCH"); v != "" {
		return v
	}
	c, err := os.UserCacheDir()
	if err != nil {
		c = filepath.Join(os.Getenv("HOME"), ".cache")
	}
	return filepath.Join(c, "verif-scratch", fmt.Sprintf("x-%d", os.Getpid()))
}

// newSandbox lays out {scanroot, cwd, tmp} side by side; with tmpAbove the scanned tree and the
// working directory live BELOW the temporary directory (a tree unpacked under $TMPDIR and
// scanned there), so that anything that treats "is under the temp dir" as "is my temporary
// copy" shows.
func newSandbox(tmpAbove bool) (*sandbox, error) {
	sandboxSeq++
	d := filepath.Join(scratchDir(), fmt.Sprintf("sb%d", sandboxSeq))
	os.RemoveAll(d)
	s := &sandbox{Dir: d, Root: filepath.Join(d, "scanroot"), Cwd: filepath.Join(d, "cwd"), Tmp: filepath.Join(d, "tmp")}
	if tmpAbove {
		s.Root, s.Cwd = filepath.Join(s.Tmp, "scanroot"), filepath.Join(s.Tmp, "cwd")
	}
	for _, p := range []string{s.Root, s.Cwd, s.Tmp} {
		if err := os.MkdirAll(p, 0o755); err != nil {
			return nil, err
		}
	}
	return s, nil
}

func (s *sandbox) enter() error {
	var err error
	if s.oldWD, err = os.Getwd(); err != nil {
		return err
	}
	s.oldTmp, s.hadTmp = os.LookupEnv("TMPDIR")
	if err := os.Chdir(s.Cwd); err != nil {
		return err
	}
	return os.Setenv("TMPDIR", s.Tmp)
}

func (s *sandbox) leave() {
	if s.oldWD != "" {
		os.Chdir(s.oldWD)
	}
	if s.hadTmp {
		os.Setenv("TMPDIR", s.oldTmp)
	} else {
		os.Unsetenv("TMPDIR")
	}
}

// remove deletes the sandbox (also read-only files and directories).
func (s *sandbox) remove() {
	filepath.WalkDir(s.Dir, func(p string, d fs.DirEntry, err error) error {
		if err == nil && d.IsDir() {
			os.Chmod(p, 0o755)
		}
		return nil
	})
	os.RemoveAll(s.Dir)
}

// resetDir empties a directory of the sandbox (between the runs of one scenario).
func resetDir(dir string) error {
	ents, err := os.ReadDir(dir)
	if err != nil {
		return err
	}
	for _, e := range ents {
		p := filepath.Join(dir, e.Name())
		filepath.WalkDir(p, func(q string, d fs.DirEntry, err error) error {
			if err == nil && d.IsDir() {
				os.Chmod(q, 0o755)
			}
			return nil
		})
		if err := os.RemoveAll(p); err != nil {
			return err
		}
	}
	return nil
}

// snapshot records (type, mode, size, link target, SHA-256) of everything below dir.
func snapshot(dir string) map[string]string {
	m := map[string]string{}
	filepath.WalkDir(dir, func(p string, d fs.DirEntry, err error) error {
		rel, _ := filepath.Rel(dir, p)
		rel = filepath.ToSlash(rel)
		if rel == "." {
			return nil
		}
		if err != nil {
			m[rel] = "error:" + err.Error()
			return nil
		}
		fi, err := os.Lstat(p)
		if err != nil {
			m[rel] = "error:" + err.Error()
			return nil
		}
		switch {
		case fi.Mode()&fs.ModeSymlink != 0:
			t, _ := os.Readlink(p)
			m[rel] = "symlink -> " + t
		case fi.IsDir():
			m[rel] = fmt.Sprintf("dir mode=%o", fi.Mode().Perm())
		case fi.Mode().IsRegular():
			sum := "unreadable"
			if f, err := os.Open(p); err == nil {
				h := sha256.New()
				io.Copy(h, f)
				f.Close()
				sum = hex.EncodeToString(h.Sum(nil)[:10])
			}
			m[rel] = fmt.Sprintf("file mode=%o size=%d sha=%s", fi.Mode().Perm(), fi.Size(), sum)
		default:
			m[rel] = fmt.Sprintf("special %v", fi.Mode().Type())
		}
		return nil
	})
	return m
}

// cheapSig is a fast change detector (names, sizes, modes, mtimes) used ONLY to attribute a
// change to the Extract call after which it was first seen — never for a verdict.
func cheapSig(dir string) map[string]string {
	m := map[string]string{}
	filepath.WalkDir(dir, func(p string, d fs.DirEntry, err error) error {
		if err != nil {
			return nil
		}
		rel, _ := filepath.Rel(dir, p)
		if rel == "." {
			return nil
		}
		if fi, err := os.Lstat(p); err == nil {
			if fi.IsDir() {
				m[filepath.ToSlash(rel)] = fmt.Sprintf("d%o", fi.Mode().Perm())
			} else {
				m[filepath.ToSlash(rel)] = fmt.Sprintf("%v|%d|%d", fi.Mode(), fi.Size(), fi.ModTime().UnixNano())
			}
		}
		return nil
	})
	return m
}

type change struct {
	Path, What, Before, After string
}

// diffSnap lists created / deleted / changed entries, sorted by path.
func diffSnap(before, after map[string]string) []change {
	var out []change
	for p, b := range before {
		a, ok := after[p]
		if !ok {
			out = append(out, change{p, "deleted", b, ""})
		} else if a != b {
			out = append(out, change{p, "changed", b, a})
		}
	}
	for p, a := range after {
		if _, ok := before[p]; !ok {
			out = append(out, change{p, "created", "", a})
		}
	}
	sort.Slice(out, func(i, j int) bool { return out[i].Path < out[j].Path })
	return out
}

var reDigits = regexp.MustCompile(`[0-9]+`)

// stableName removes the random part of temporary names so that violation keys are stable.
func stableName(p string) string {
	parts := strings.Split(p, "/")
	for i, s := range parts {
		if strings.HasPrefix(s, "scalibr-tmp") {
			parts[i] = "scalibr-tmp*"
		} else if i == 0 {
			parts[i] = reDigits.ReplaceAllString(s, "#")
		}
	}
	return strings.Join(parts, "/")
}
