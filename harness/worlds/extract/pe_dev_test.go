package extract

import (
	"context"
	"fmt"
	"os"
	"path/filepath"
	"runtime"
	"strconv"
	"syscall"
	"testing"
	"time"

	"github.com/google/osv-scalibr/extractor/filesystem"
	"github.com/google/osv-scalibr/extractor/filesystem/language/dotnet/dotnetpe"
)

// TestDevPESweep (development aid, X_DEV=pe): every 32-bit field of a PE fixture is overwritten
// with each of the setu32 values, the real dotnet/pe extractor runs on the result; memory growth
// and time are printed.  X_PE_FIX selects the fixture, X_PE_FROM the first offset; the process
// runs under an address-space limit, the last line of X_PE_LOG tells where it died.
func TestDevPESweep(t *testing.T) {
	if os.Getenv("X_DEV") != "pe" {
		t.Skip()
	}
	lim := syscall.Rlimit{Cur: 6 << 30, Max: 6 << 30}
	syscall.Setrlimit(syscall.RLIMIT_AS, &lim)
	fix := "extractor/filesystem/language/dotnet/dotnetpe/testdata/" + os.Getenv("X_PE_FIX")
	from, _ := strconv.Atoi(os.Getenv("X_PE_FROM"))
	to, _ := strconv.Atoi(os.Getenv("X_PE_TO"))
	logf, _ := os.OpenFile(os.Getenv("X_PE_LOG"), os.O_APPEND|os.O_CREATE|os.O_WRONLY, 0o644)
	base, err := readFixture(fix)
	if err != nil {
		t.Fatal(err)
	}
	if to == 0 || to > len(base) {
		to = len(base)
	}
	dir := t.TempDir()
	e := dotnetpe.NewDefault()
	for off := from; off+4 <= to; off++ {
		for v := 0; v < 8; v++ {
			b := Op{Kind: "setu32", Off: off, Val: v}.apply(base)
			p := filepath.Join(dir, "x.dll")
			os.WriteFile(p, b, 0o644)
			fmt.Fprintf(logf, "start off=%d v=%d\n", off, v)
			var m0, m1 runtime.MemStats
			runtime.ReadMemStats(&m0)
			st := time.Now()
			f, _ := os.Open(p)
			fi, _ := f.Stat()
			func() {
				defer func() {
					if r := recover(); r != nil {
						fmt.Fprintf(logf, "PANIC off=%d v=%d %v\n", off, v, r)
					}
				}()
				e.Extract(context.Background(), &filesystem.ScanInput{Path: "x.dll", Root: dir, Reader: f, Info: fi})
			}()
			f.Close()
			runtime.ReadMemStats(&m1)
			if d := time.Since(st); d > 2*time.Second || m1.Sys > m0.Sys+(256<<20) || m1.TotalAlloc > m0.TotalAlloc+(1<<30) {
				fmt.Fprintf(logf, "BIG off=%d v=%d time=%v sys+=%dMB alloc=%dMB\n", off, v, d, (m1.Sys-m0.Sys)>>20, (m1.TotalAlloc-m0.TotalAlloc)>>20)
			}
		}
	}
	fmt.Fprintf(logf, "done %d..%d\n", from, to)
}
