package extract

import (
	"bytes"
	"compress/zlib"
	"context"
	"encoding/binary"
	"fmt"
	"os"
	"path/filepath"

	"github.com/containerd/containerd/containers"
	"github.com/containerd/containerd/metadata"
	"github.com/containerd/containerd/namespaces"
	bolt "go.etcd.io/bbolt"
)

// Structured inputs that byte-level mutation cannot produce: small ELF files with one
// (optionally SHF_COMPRESSED) section, and small valid bolt databases in containerd's layout.

// ElfSpec: a minimal little-endian ELF64 relocatable file with one data section.
type ElfSpec struct {
	Section    string `json:"section"`               // ".modinfo", ".dep-v0", ...
	Text       string `json:"text,omitempty"`        // literal section content (before compression)
	InflateMiB int    `json:"inflate_mib,omitempty"` // instead of Text: this many MiB of Fill
	Fill       int    `json:"fill,omitempty"`        // the byte to repeat
	Zlib       bool   `json:"zlib,omitempty"`        // the section content is a raw zlib stream (cargo-auditable's .dep-v0)
	Compressed bool   `json:"compressed,omitempty"`  // SHF_COMPRESSED with an ELF compression header (ch_size = inflated size)
	ChSize     int64  `json:"ch_size,omitempty"`     // override ch_size (a lie about the inflated size)
	Repeat     int    `json:"repeat,omitempty"`      // number of section headers with this name, all pointing at the same bytes (0 = 1)
}

func zlibOf(content []byte, fill byte, mib int) []byte {
	var out bytes.Buffer
	zw := zlib.NewWriter(&out)
	zw.Write(content)
	chunk := bytes.Repeat([]byte{fill}, 1<<20)
	for i := 0; i < mib; i++ {
		zw.Write(chunk)
	}
	zw.Close()
	return out.Bytes()
}

func (e *ElfSpec) bytes() []byte {
	data := []byte(e.Text)
	inflated := int64(len(data)) + int64(e.InflateMiB)<<20
	var flags uint64
	switch {
	case e.Compressed:
		var chdr bytes.Buffer
		le := binary.LittleEndian
		size := inflated
		if e.ChSize != 0 {
			size = e.ChSize
		}
		binary.Write(&chdr, le, uint32(1)) // ch_type ELFCOMPRESS_ZLIB
		binary.Write(&chdr, le, uint32(0))
		binary.Write(&chdr, le, uint64(size))
		binary.Write(&chdr, le, uint64(1))
		data = append(chdr.Bytes(), zlibOf(data, byte(e.Fill), e.InflateMiB)...)
		flags = 0x800 // SHF_COMPRESSED
	case e.Zlib:
		data = zlibOf(data, byte(e.Fill), e.InflateMiB)
	default:
		data = append(data, bytes.Repeat([]byte{byte(e.Fill)}, e.InflateMiB<<20)...)
	}
	shstrtab := append([]byte{0}, append([]byte(e.Section), 0)...)
	strNameOff := len(shstrtab)
	shstrtab = append(shstrtab, append([]byte(".shstrtab"), 0)...)
	const ehsize, shentsize = 64, 64
	dataOff := ehsize
	strOff := dataOff + len(data)
	shOff := strOff + len(shstrtab)
	rep := e.Repeat
	if rep < 1 {
		rep = 1
	}
	var b bytes.Buffer
	le := binary.LittleEndian
	b.Write([]byte{0x7f, 'E', 'L', 'F', 2, 1, 1, 0, 0, 0, 0, 0, 0, 0, 0, 0})
	for _, v := range []any{uint16(1), uint16(62), uint32(1), uint64(0), uint64(0), uint64(shOff), uint32(0), uint16(ehsize), uint16(0), uint16(0), uint16(shentsize), uint16(2 + rep), uint16(1 + rep)} {
		binary.Write(&b, le, v)
	}
	b.Write(data)
	b.Write(shstrtab)
	sh := func(nameOff, typ uint32, flags, off, size uint64) {
		for _, v := range []any{nameOff, typ, flags, uint64(0), off, size, uint32(0), uint32(0), uint64(1), uint64(0)} {
			binary.Write(&b, le, v)
		}
	}
	sh(0, 0, 0, 0, 0)
	for i := 0; i < rep; i++ {
		sh(1, 1, flags, uint64(dataOff), uint64(len(data)))
	}
	sh(uint32(strNameOff), 3, 0, uint64(strOff), uint64(len(shstrtab)))
	return b.Bytes()
}

// BoltSpec: a bolt database in containerd's layout - meta.db (Containers) or the overlayfs
// snapshotter's metadata.db (Snapshots).
type BoltSpec struct {
	Containers []BoltContainer `json:"containers,omitempty"`
	Snapshots  []BoltSnapshot  `json:"snapshots,omitempty"`
}

type BoltContainer struct {
	NS, ID, Image, Runtime, Snapshotter, SnapshotKey string
}

// BoltSnapshot is one bucket v1/snapshots/<Name> with id and parent; Name is the full bucket name
// ("default/7/sha256:..." in a real database), Parent the full name of another bucket.
type BoltSnapshot struct {
	Name   string `json:"name"`
	ID     uint64 `json:"id"`
	Parent string `json:"parent,omitempty"`
}

type anySpec struct{}

func (anySpec) GetTypeUrl() string { return "types.containerd.io/opencontainers/runtime-spec/1/Spec" }
func (anySpec) GetValue() []byte   { return []byte("{}") }

func (s *BoltSpec) bytes() ([]byte, error) {
	dir := filepath.Join(scratchDir(), "bolt")
	if err := os.MkdirAll(dir, 0o755); err != nil {
		return nil, err
	}
	p := filepath.Join(dir, fmt.Sprintf("gen-%d.db", os.Getpid()))
	os.Remove(p)
	defer os.Remove(p)
	db, err := bolt.Open(p, 0o644, nil)
	if err != nil {
		return nil, err
	}
	if len(s.Containers) > 0 {
		mdb := metadata.NewDB(db, nil, nil)
		err = mdb.Update(func(tx *bolt.Tx) error {
			for _, c := range s.Containers {
				ctx := metadata.WithTransactionContext(namespaces.WithNamespace(context.Background(), c.NS), tx)
				if _, err := metadata.NewContainerStore(mdb).Create(ctx, containers.Container{ID: c.ID, Image: c.Image,
					Runtime: containers.RuntimeInfo{Name: c.Runtime}, Spec: anySpec{}, Snapshotter: c.Snapshotter, SnapshotKey: c.SnapshotKey}); err != nil {
					return err
				}
			}
			return nil
		})
	} else {
		err = db.Update(func(tx *bolt.Tx) error {
			v1, err := tx.CreateBucketIfNotExists([]byte("v1"))
			if err != nil {
				return err
			}
			snaps, err := v1.CreateBucketIfNotExists([]byte("snapshots"))
			if err != nil {
				return err
			}
			for _, sn := range s.Snapshots {
				b, err := snaps.CreateBucketIfNotExists([]byte(sn.Name))
				if err != nil {
					return err
				}
				id := make([]byte, binary.MaxVarintLen64)
				b.Put([]byte("id"), id[:binary.PutUvarint(id, sn.ID)])
				b.Put([]byte("kind"), []byte{3})
				if sn.Parent != "" {
					b.Put([]byte("parent"), []byte(sn.Parent))
				}
			}
			return nil
		})
	}
	db.Close()
	if err != nil {
		return nil, err
	}
	return os.ReadFile(p)
}
