package extract

import (
	"database/sql"
	"encoding/base64"
	"fmt"
	"os"
	"path/filepath"
	"testing"
)

// TestDevMakeWAL (X_DEV=wal) generates the WAL-mode rpmdb.sqlite fixture pair with the sqlite
// driver the repository vendors and prints it as Go source (walfixture.go).
func TestDevMakeWAL(t *testing.T) {
	if os.Getenv("X_DEV") != "wal" {
		t.Skip()
	}
	work := t.TempDir()
	src := filepath.Join(work, "src.sqlite")
	db, err := sql.Open("sqlite3", src+"?_journal_mode=WAL")
	if err != nil {
		t.Fatal(err)
	}
	db.SetMaxOpenConns(1)
	for _, q := range []string{"PRAGMA wal_autocheckpoint=0", "CREATE TABLE Packages (hnum INTEGER PRIMARY KEY, blob BLOB NOT NULL)", "INSERT INTO Packages(blob) VALUES (x'00')"} {
		if _, err := db.Exec(q); err != nil {
			t.Fatalf("%s: %v", q, err)
		}
	}
	d, _ := os.ReadFile(src)
	w, _ := os.ReadFile(src + "-wal")
	db.Close()
	fmt.Printf("DB %d WAL %d\n", len(d), len(w))
	// second fixture: WAL mode, checkpointed (everything in the main file), two rows whose header
	// blobs are corrupt - the consumer stops at the first row, the reader goroutine stays blocked
	src2 := filepath.Join(work, "src2.sqlite")
	db2, err := sql.Open("sqlite3", src2+"?_journal_mode=WAL")
	if err != nil {
		t.Fatal(err)
	}
	db2.SetMaxOpenConns(1)
	for _, q := range []string{"CREATE TABLE Packages (hnum INTEGER PRIMARY KEY, blob BLOB NOT NULL)", "INSERT INTO Packages(blob) VALUES (x'00')", "INSERT INTO Packages(blob) VALUES (x'0001')", "INSERT INTO Packages(blob) VALUES (x'00')", "PRAGMA wal_checkpoint(TRUNCATE)"} {
		if _, err := db2.Exec(q); err != nil {
			t.Fatalf("%s: %v", q, err)
		}
	}
	db2.Close()
	d2, _ := os.ReadFile(src2)
	fmt.Printf("DB2 %d\n", len(d2))
	out := "package extract\n\n// Generated once by TestDevMakeWAL (wal_dev_test.go) with github.com/mattn/go-sqlite3: a WAL-mode\n// rpmdb.sqlite (table Packages, one row) copied together with its -wal file while the writer was\n// still open - the snapshot of a live machine.  Stored verbatim so that the scenario is reproducible\n// (a WAL header carries random salts).\nconst (\n\twalDB  = \"" + base64.StdEncoding.EncodeToString(d) + "\"\n\twalWAL = \"" + base64.StdEncoding.EncodeToString(w) + "\"\n\twalDB2 = \"" + base64.StdEncoding.EncodeToString(d2) + "\"\n)\n"
	os.WriteFile(os.Getenv("X_WAL_OUT"), []byte(out), 0o644)
}
