// Package extract is world X: the real built-in filesystem extractors + the real
// scalibr.Scanner.Scan, on SimFS (virtual root) or on a sandboxed real directory, with
// stored-data corruption faults and read faults.  Serves C02 and the scan half of C06.
package extract

import (
	"fmt"
	"io/fs"
	"os"
	"path"
	"path/filepath"
	"regexp"
	"sort"
	"strings"
	"sync"
	"time"

	"github.com/google/osv-scalibr/extractor/filesystem"
	"github.com/google/osv-scalibr/extractor/filesystem/language/java/archive"
	"github.com/google/osv-scalibr/extractor/filesystem/list"
	"github.com/google/osv-scalibr/extractor/filesystem/os/rpm"
	"github.com/google/osv-scalibr/extractor/filesystem/simplefileapi"
	"github.com/google/osv-scalibr/plugin"
)

// extDef says where the fixtures of one built-in extractor live and at which production
// paths (templates) they are plausibly found.  Which template actually satisfies the
// extractor is NOT assumed: it is probed with the real FileRequired at start-up.
//
// Template variables: {d} project directory chosen by the generator, {b} fixture base name,
// {s} sanitised stem, {i} placement index, {rel} path relative to the testdata directory,
// {h} a nix store hash.
type extDef struct {
	Name string
	Dir  string // relative to extractor/filesystem; fixtures = regular files under Dir/testdata
	Tmpl []string
	Exec bool   // placed with the executable bit
	Skip string // regexp on the testdata-relative path: helper files that are not placed on their own
	Tree bool   // {rel} placements bring the other files of the fixture's directory along
}

const sitePkgs = "usr/lib/python3/dist-packages"

var extDefs = []extDef{
	{Name: "chrome/extensions", Dir: "misc/chrome/extensions", Tree: true, Skip: `_locales/`,
		Tmpl: []string{"home/user/.config/google-chrome/Default/Extensions/{rel}", "home/user/.config/chromium/Default/Extensions/{rel}",
			"home/user/.config/google-chrome-beta/Default/Extensions/{rel}", "home/user/.config/chromium/Default/Extensions/abcdefghijklmnopabcdefghijklmnop/{i}.0_0/manifest.json"}},
	{Name: "containers/containerd", Dir: "containers/containerd", Skip: `^(metadata_|state|status|shim|invalid_status)`,
		Tmpl: []string{"var/lib/containerd/io.containerd.metadata.v1.bolt/meta.db"}},
	{Name: "cpp/conanlock", Dir: "language/cpp/conanlock", Tmpl: []string{"{d}/conan.lock"}},
	{Name: "dart/pubspec", Dir: "language/dart/pubspec", Tmpl: []string{"{d}/pubspec.lock"}},
	{Name: "dotnet/depsjson", Dir: "language/dotnet/depsjson", Tmpl: []string{"{d}/{s}.deps.json"}},
	{Name: "dotnet/pe", Dir: "language/dotnet/dotnetpe", Tmpl: []string{"{d}/bin/{b}"}},
	{Name: "dotnet/packagesconfig", Dir: "language/dotnet/packagesconfig", Tmpl: []string{"{d}/packages.config"}},
	{Name: "dotnet/packageslockjson", Dir: "language/dotnet/packageslockjson", Tmpl: []string{"{d}/packages.lock.json"}},
	{Name: "elixir/mixlock", Dir: "language/elixir/mixlock", Tmpl: []string{"{d}/mix.lock"}},
	{Name: "erlang/mixlock", Dir: "language/erlang/mixlock", Tmpl: []string{"{d}/mix.lock"}},
	{Name: "go/binary", Dir: "language/golang/gobinary", Exec: true, Tmpl: []string{"usr/local/bin/{b}", "{d}/bin/{b}"}},
	{Name: "go/gomod", Dir: "language/golang/gomod", Skip: `\.sum$`, Tmpl: []string{"{d}/go.mod"}},
	{Name: "haskell/cabal", Dir: "language/haskell/cabal", Tmpl: []string{"{d}/cabal.project.freeze"}},
	{Name: "haskell/stacklock", Dir: "language/haskell/stacklock", Tmpl: []string{"{d}/stack.yaml.lock"}},
	{Name: "java/archive", Dir: "language/java/archive", Skip: `MANIFEST\.MF$`, Tmpl: []string{"{d}/lib/{b}", "{d}/lib/{s}.jar"}},
	{Name: "java/gradlelockfile", Dir: "language/java/gradlelockfile", Tmpl: []string{"{d}/gradle.lockfile", "{d}/buildscript-gradle.lockfile"}},
	{Name: "java/gradleverificationmetadataxml", Dir: "language/java/gradleverificationmetadataxml", Tmpl: []string{"{d}/gradle/verification-metadata.xml"}},
	{Name: "java/pomxml", Dir: "language/java/pomxml", Tmpl: []string{"{d}/pom.xml"}},
	{Name: "java/pomxmlnet", Dir: "language/java/pomxmlnet", Tmpl: []string{"{d}/pom.xml"}},
	{Name: "javascript/bunlock", Dir: "language/javascript/bunlock", Tmpl: []string{"{d}/bun.lock"}},
	{Name: "javascript/packagejson", Dir: "language/javascript/packagejson", Tmpl: []string{"{d}/package.json", "{d}/node_modules/{s}/package.json"}},
	{Name: "javascript/packagelockjson", Dir: "language/javascript/packagelockjson", Tmpl: []string{"{d}/package-lock.json"}},
	{Name: "javascript/pnpmlock", Dir: "language/javascript/pnpmlock", Tmpl: []string{"{d}/pnpm-lock.yaml"}},
	{Name: "javascript/yarnlock", Dir: "language/javascript/yarnlock", Tmpl: []string{"{d}/yarn.lock"}},
	{Name: "php/composerlock", Dir: "language/php/composerlock", Tmpl: []string{"{d}/composer.lock"}},
	{Name: "python/condameta", Dir: "language/python/condameta", Tmpl: []string{"opt/conda/envs/env{i}/conda-meta/{s}.json"}},
	{Name: "python/pdmlock", Dir: "language/python/pdmlock", Tmpl: []string{"{d}/pdm.lock"}},
	{Name: "python/pipfilelock", Dir: "language/python/pipfilelock", Tmpl: []string{"{d}/Pipfile.lock"}},
	{Name: "python/poetrylock", Dir: "language/python/poetrylock", Tmpl: []string{"{d}/poetry.lock"}},
	{Name: "python/requirements", Dir: "language/python/requirements", Tmpl: []string{"{d}/requirements.txt", "{d}/{s}-requirements.txt"}},
	{Name: "python/setup", Dir: "language/python/setup", Tmpl: []string{"{d}/setup.py"}},
	{Name: "python/uvlock", Dir: "language/python/uvlock", Tmpl: []string{"{d}/uv.lock"}},
	{Name: "python/wheelegg", Dir: "language/python/wheelegg",
		Tmpl: []string{sitePkgs + "/{b}", sitePkgs + "/pkg{i}.egg-info/PKG-INFO", sitePkgs + "/pkg{i}.dist-info/METADATA", sitePkgs + "/pkg{i}.egg-info", sitePkgs + "/pkg{i}.egg"}},
	{Name: "r/renvlock", Dir: "language/r/renvlock", Tmpl: []string{"{d}/renv.lock"}},
	{Name: "ruby/gemfilelock", Dir: "language/ruby/gemfilelock", Tmpl: []string{"{d}/Gemfile.lock"}},
	{Name: "ruby/gemspec", Dir: "language/ruby/gemspec", Tmpl: []string{"{d}/{b}", "{d}/{s}.gemspec"}},
	{Name: "rust/cargoauditable", Dir: "language/rust/cargoauditable", Exec: true, Skip: `main\.rs$`, Tmpl: []string{"usr/local/bin/{b}", "{d}/target/release/{b}"}},
	{Name: "rust/cargolock", Dir: "language/rust/cargolock", Tmpl: []string{"{d}/Cargo.lock"}},
	{Name: "rust/cargotoml", Dir: "language/rust/cargotoml", Tmpl: []string{"{d}/Cargo.toml"}},
	{Name: "sbom/cdx", Dir: "sbom/cdx", Tmpl: []string{"{d}/{b}", "{d}/{s}.cdx.json", "{d}/bom.json"}},
	{Name: "sbom/spdx", Dir: "sbom/spdx", Tmpl: []string{"{d}/{b}", "{d}/{s}.spdx.json"}},
	{Name: "swift/packageresolved", Dir: "language/swift/packageresolved", Tmpl: []string{"{d}/Package.resolved"}},
	{Name: "swift/podfilelock", Dir: "language/swift/podfilelock", Tmpl: []string{"{d}/Podfile.lock"}},
	{Name: "vscode/extensions", Dir: "misc/vscodeextensions", Tmpl: []string{"home/user{i}/.vscode/extensions/extensions.json"}},
	{Name: "wordpress/plugins", Dir: "misc/wordpress/plugins", Tmpl: []string{"var/www/html/wp-content/plugins/{s}{i}/{s}.php"}},
	{Name: "os/apk", Dir: "os/apk", Tmpl: []string{"lib/apk/db/installed"}},
	{Name: "os/cos", Dir: "os/cos", Tmpl: []string{"etc/cos-package-info.json"}},
	{Name: "os/dpkg", Dir: "os/dpkg", Skip: `\.md5sums$`, Tmpl: []string{"var/lib/dpkg/status", "usr/lib/opkg/status", "var/lib/dpkg/status.d/{s}{i}"}},
	{Name: "os/flatpak", Dir: "os/flatpak", Tmpl: []string{"var/lib/flatpak/app/org.app{i}.App/current/active/export/share/metainfo/org.app{i}.App.metainfo.xml"}},
	{Name: "os/homebrew", Dir: "os/homebrew", Tmpl: []string{"opt/homebrew/{rel}", "opt/homebrew/Cellar/app{i}/1.{i}.0/INSTALL_RECEIPT.json"}},
	{Name: "os/kernel/module", Dir: "os/kernel/module", Tmpl: []string{"lib/modules/6.1.0/kernel/drivers/{s}{i}.ko"}},
	{Name: "os/kernel/vmlinuz", Dir: "os/kernel/vmlinuz", Tmpl: []string{"boot/vmlinuz-6.1.{i}", "boot/vmlinuz"}},
	{Name: "os/macapps", Dir: "os/macapps", Tmpl: []string{"Applications/{s}{i}.app/Contents/Info.plist"}},
	// os/nix has no fixtures of its own (it only looks at paths): it borrows the jar fixtures.
	{Name: "os/nix", Dir: "language/java/archive", Skip: `MANIFEST\.MF$`, Tmpl: []string{"nix/store/{h}-{s}-1.{i}.0/share/java/{b}"}},
	{Name: "os/pacman", Dir: "os/pacman", Tmpl: []string{"var/lib/pacman/local/{s}{i}-1.0-1/desc"}},
	{Name: "os/portage", Dir: "os/portage", Tmpl: []string{"var/db/pkg/cat{i}/{s}-1.0/PF"}},
	{Name: "os/rpm", Dir: "os/rpm", Tmpl: []string{"var/lib/rpm/{b}", "var/lib/rpm/Packages", "usr/lib/sysimage/rpm/rpmdb.sqlite", "usr/share/rpm/Packages.db"}},
	{Name: "os/snap", Dir: "os/snap", Tmpl: []string{"snap/{s}{i}/1/meta/snap.yaml"}},
}

// crossTmpl are paths at which a second extractor also wants the file (SBOM + language/OS
// extractor on one file).  Which extractors accept them is probed, not assumed.
var crossTmpl = []string{
	"opt/conda/envs/env{i}/conda-meta/{s}.cdx.json",
	"opt/conda/envs/env{i}/conda-meta/{s}.spdx.json",
	"var/lib/dpkg/status.d/{s}{i}.spdx.json",
	"var/lib/dpkg/status.d/{s}{i}.cdx.xml",
	"nix/store/{h}-{s}-1.{i}.0/{b}",
	"nix/store/{h}-{s}-1.{i}.0/lib/{s}.jar",
	"nix/store/{h}-{s}-1.{i}.0/share/requirements.txt",
	"nix/store/{h}-{s}-1.{i}.0/share/package.json",
	"nix/store/{h}-{s}-1.{i}.0/share/go.mod",
	"srv/app{i}/mix.lock",
	"srv/app{i}/gradle/bom.xml",
}

// dirPool are the values {d} can take (with {i} replaced by the placement index).
var dirPool = []string{"srv/app{i}", "home/user/src/proj{i}", "opt/svc{i}/vendor", "usr/share/doc/pkg{i}", "nix/store/{h}-pkg{i}-2.{i}.1/share"}

const nixHash = "1ddf3x30m0z6kknmrmapsc7liz8npi1w"

const maxFixtureBytes = 2_300_000

const rpmTimeout = 2 * time.Second

const archiveMaxOpened = 8 << 20

// fixture is one repository file usable as scanned content.
type fixture struct {
	Ext   string // home extractor (whose testdata directory it lives in)
	Rel   string // repo-relative path
	Sub   string // path below the testdata directory
	Size  int
	Good  bool  // by name, probably a well-formed fixture (used to bias the healthy files)
	Tmpls []int // indexes of the home extractor's templates that its FileRequired accepts for this fixture
	Exec  bool
	Synth *Src // synthetic container (zip built from fixtures) instead of the plain file
}

// sharedPlace is a (fixture, path) at which two or more extractors want the file.
type sharedPlace struct {
	Fix    int // index into table.Fix
	Tmpl   string
	Owners []string // sorted
}

type extInfo struct {
	Def      *extDef
	Req      plugin.Capabilities
	Fix      []int          // fixtures with at least one accepted placement
	Subs     []string       // every regular file below the testdata directory (sorted)
	Sizes    map[string]int // ... and its size
	NonEmpty int            // fixtures that are non-empty and, by name, well-formed
	Why      string         // why it is not covered ("" = covered)
}

type table struct {
	Repo      string
	Fix       []*fixture
	Ext       map[string]*extInfo
	Names     []string // all built-in extractor names, sorted
	Shared    []sharedPlace
	NotCov    []string // "name (reason)"
	NoContent []string // covered, but no non-empty well-formed fixture in this snapshot
	Big       []string // fixtures left out because of their size
	Err       error
}

var (
	tabOnce sync.Once
	tab     *table
)

func repoDir() string {
	if v := os.Getenv("VERIF_REPO"); v != "" {
		return v
	}
	return "/repo"
}

// newExtractors returns fresh instances of every built-in extractor, sorted by name (list.All
// is a Go map; its order must never reach a scenario or a verdict).
func newExtractors() []filesystem.Extractor {
	var names []string
	for n := range list.All {
		names = append(names, n)
	}
	sort.Strings(names)
	var out []filesystem.Extractor
	for _, n := range names {
		for _, f := range list.All[n] {
			out = append(out, f())
		}
	}
	for i, e := range out {
		if e.Name() == archive.Name {
			// Tuning knob: the extractor's own budget for inflating inner archives (default
			// 4 GiB) is lowered so that it can be checked that the budget is enforced.
			cfg := archive.DefaultConfig()
			cfg.MaxOpenedBytes = archiveMaxOpened
			out[i] = archive.New(cfg)
		}
		if e.Name() == rpm.Name {
			// Tuning knob: the default 5 min budget for corrupt BerkeleyDB files (the parser
			// spins on cyclic page links until the deadline) is shortened; that the deadline is
			// honoured is still checked by the watchdog.
			cfg := rpm.DefaultConfig()
			cfg.Timeout = rpmTimeout
			out[i] = rpm.New(cfg)
		}
	}
	sort.SliceStable(out, func(i, j int) bool { return out[i].Name() < out[j].Name() })
	return out
}

type fakeInfo struct {
	name string
	size int64
	exec bool
}

func (f fakeInfo) Name() string { return f.name }
func (f fakeInfo) Size() int64  { return f.size }
func (f fakeInfo) Mode() fs.FileMode {
	if f.exec {
		return 0o755
	}
	return 0o644
}
func (f fakeInfo) ModTime() time.Time { return time.Unix(1700000000, 0) }
func (f fakeInfo) IsDir() bool        { return false }
func (f fakeInfo) Sys() any           { return nil }

// accepts probes the real FileRequired of a fresh instance of every extractor.
func accepts(p string, size int, exec bool) []string {
	var out []string
	for _, e := range newExtractors() {
		if e.FileRequired(simplefileapi.New(p, fakeInfo{path.Base(p), int64(size), exec})) {
			out = append(out, e.Name())
		}
	}
	return out
}

var reUnsafe = regexp.MustCompile(`[^A-Za-z0-9_]+`)
var reBad = regexp.MustCompile(`(?i)(invalid|empty|not[-_]|bad|malformed|no-?pack|nopackage|noname|noversion|dummy|random|other|only-)`)

func stem(base string) string {
	s := base
	if i := strings.Index(s, "."); i > 0 {
		s = s[:i]
	}
	s = reUnsafe.ReplaceAllString(s, "_")
	if s == "" {
		s = "x"
	}
	return strings.ToLower(s)
}

// inst instantiates a template for a fixture, placement index i and project directory d.
func inst(tmpl string, sub string, i int, d string) string {
	b := path.Base(sub)
	r := strings.NewReplacer("{d}", d, "{b}", b, "{s}", stem(b), "{rel}", sub, "{h}", nixHash[:31]+string("abcdfghijk"[i%10]))
	s := r.Replace(tmpl)
	s = r.Replace(s) // {d} may itself contain {h}
	return strings.ReplaceAll(s, "{i}", fmt.Sprint(i))
}

func has(xs []string, x string) bool {
	for _, y := range xs {
		if y == x {
			return true
		}
	}
	return false
}

// theTable builds (once per process) the extractor -> production path table from the current
// sources of $VERIF_REPO.  It is a pure function of the repository contents.
func theTable() *table {
	tabOnce.Do(func() { tab = buildTable(repoDir()) })
	return tab
}

func buildTable(repo string) *table {
	t := &table{Repo: repo, Ext: map[string]*extInfo{}}
	reqs := map[string]plugin.Capabilities{}
	for _, e := range newExtractors() {
		t.Names = append(t.Names, e.Name())
		reqs[e.Name()] = *e.Requirements()
	}
	defs := map[string]*extDef{}
	for i := range extDefs {
		defs[extDefs[i].Name] = &extDefs[i]
	}
	for _, name := range t.Names {
		info := &extInfo{Def: defs[name], Req: reqs[name]}
		t.Ext[name] = info
		if info.Req.Network == plugin.NetworkOnline {
			info.Why = "needs network access"
			continue
		}
		if info.Def == nil {
			info.Why = "no production path known to the harness"
			continue
		}
		def := info.Def
		var skip *regexp.Regexp
		if def.Skip != "" {
			skip = regexp.MustCompile(def.Skip)
		}
		td := filepath.Join(repo, "extractor", "filesystem", filepath.FromSlash(def.Dir), "testdata")
		var subs []string
		sizes := map[string]int{}
		filepath.WalkDir(td, func(p string, d fs.DirEntry, err error) error {
			if err != nil || !d.Type().IsRegular() {
				return nil
			}
			fi, err := d.Info()
			if err != nil {
				return nil
			}
			rel, _ := filepath.Rel(td, p)
			rel = filepath.ToSlash(rel)
			subs = append(subs, rel)
			sizes[rel] = int(fi.Size())
			return nil
		})
		sort.Strings(subs)
		info.Subs, info.Sizes = subs, sizes
		for _, sub := range subs {
			if skip != nil && skip.MatchString(sub) {
				continue
			}
			if sizes[sub] > maxFixtureBytes {
				if b := path.Join("extractor/filesystem", def.Dir, "testdata", sub); !has(t.Big, b) {
					t.Big = append(t.Big, b)
				}
				continue
			}
			f := &fixture{Ext: name, Sub: sub, Rel: path.Join("extractor/filesystem", def.Dir, "testdata", sub), Size: sizes[sub], Exec: def.Exec,
				Good: !reBad.MatchString(sub) && sizes[sub] > 0}
			for ti, tm := range def.Tmpl {
				if has(accepts(inst(tm, sub, 0, inst(dirPool[0], sub, 0, "")), f.Size, f.Exec), name) {
					f.Tmpls = append(f.Tmpls, ti)
				}
			}
			if len(f.Tmpls) == 0 {
				continue
			}
			info.Fix = append(info.Fix, len(t.Fix))
			t.Fix = append(t.Fix, f)
			if f.Good {
				info.NonEmpty++
			}
		}
		// synthetic containers built from fixtures
		for _, s := range synthFixtures(name, subs, def) {
			s.Ext = name
			for ti, tm := range def.Tmpl {
				if has(accepts(inst(tm, s.Sub, 0, "srv/app0"), 1000, false), name) {
					s.Tmpls = append(s.Tmpls, ti)
				}
			}
			if len(s.Tmpls) > 0 {
				info.Fix = append(info.Fix, len(t.Fix))
				t.Fix = append(t.Fix, s)
				info.NonEmpty++
			}
		}
		if len(info.Fix) == 0 {
			info.Why = "no fixture placement is accepted by its FileRequired"
		}
	}
	for _, name := range t.Names {
		info := t.Ext[name]
		if info.Why != "" {
			t.NotCov = append(t.NotCov, name+" ("+info.Why+")")
		} else if info.NonEmpty == 0 {
			t.NoContent = append(t.NoContent, name)
		}
	}
	// shared placements: the home templates under a nix project directory, and the cross templates
	for fi, f := range t.Fix {
		if f.Size > 600_000 {
			continue
		}
		var tms []string
		for _, ti := range f.Tmpls {
			tm := t.Ext[f.Ext].Def.Tmpl[ti]
			if strings.Contains(tm, "{d}") {
				tms = append(tms, strings.ReplaceAll(tm, "{d}", dirPool[len(dirPool)-1]))
			}
			tms = append(tms, tm)
		}
		tms = append(tms, crossTmpl...)
		seen := map[string]bool{}
		for _, tm := range tms {
			if seen[tm] {
				continue
			}
			seen[tm] = true
			p := inst(tm, f.Sub, 0, "srv/app0")
			if f.Synth != nil && !strings.HasSuffix(p, path.Ext(f.Sub)) {
				continue
			}
			own := accepts(p, f.Size, f.Exec)
			if len(own) >= 2 && has(own, f.Ext) { // the content is native to one of the owners
				t.Shared = append(t.Shared, sharedPlace{Fix: fi, Tmpl: tm, Owners: own})
			}
		}
	}
	if len(t.Fix) == 0 {
		t.Err = fmt.Errorf("no fixtures found under %s", repo)
	}
	return t
}

// synthFixtures returns zip containers assembled from plain fixtures (structure-aware
// inputs: the corruption then hits an *inner* file of a structurally valid archive).
func synthFixtures(name string, subs []string, def *extDef) []*fixture {
	var out []*fixture
	rel := func(sub string) string { return path.Join("extractor/filesystem", def.Dir, "testdata", sub) }
	switch name {
	case "java/archive":
		for _, sub := range subs {
			if strings.HasSuffix(sub, "/MANIFEST.MF") {
				n := stem(path.Dir(sub))
				out = append(out, &fixture{Sub: n + ".jar", Rel: rel(sub), Good: true, Synth: &Src{Zip: []ZipEnt{{Name: "META-INF/MANIFEST.MF", Src: Src{Fix: rel(sub)}}}}})
			}
		}
		ok := map[string]bool{}
		for _, s := range subs {
			ok[s] = true
		}
		if ok["simple.jar"] && ok["complex.jar"] && ok["axis/MANIFEST.MF"] {
			// a jar with nested jars: the corruption can hit an inner archive of a valid outer one
			out = append(out, &fixture{Sub: "nested.jar", Rel: rel("simple.jar"), Good: true, Synth: &Src{Zip: []ZipEnt{
				{Name: "META-INF/MANIFEST.MF", Src: Src{Fix: rel("axis/MANIFEST.MF")}},
				{Name: "lib/simple.jar", Src: Src{Fix: rel("simple.jar")}},
				{Name: "lib/complex.jar", Src: Src{Fix: rel("complex.jar")}, Deflate: true}}}})
		}
	case "python/wheelegg":
		ok := map[string]bool{}
		for _, s := range subs {
			ok[s] = true
		}
		if ok["pkginfo"] && ok["distinfo_meta"] && ok["egginfo_pkginfo"] {
			out = append(out,
				&fixture{Sub: "one.egg", Rel: rel("pkginfo"), Good: true, Synth: &Src{Zip: []ZipEnt{{Name: "EGG-INFO/PKG-INFO", Src: Src{Fix: rel("pkginfo")}}}}},
				&fixture{Sub: "two.egg", Rel: rel("pkginfo"), Good: true, Synth: &Src{Zip: []ZipEnt{
					{Name: "pkg.py", Src: Src{Text: "print('x')\n"}},
					{Name: "EGG-INFO/PKG-INFO", Src: Src{Fix: rel("egginfo_pkginfo")}, Deflate: true},
					{Name: "other-1.0.dist-info/METADATA", Src: Src{Fix: rel("distinfo_meta")}}}}},
			)
		}
	}
	return out
}

// summary is appended to the checks' Rule text (it goes verbatim into the evidence file).
func (t *table) summary() string {
	cov := 0
	for _, n := range t.Names {
		if t.Ext[n].Why == "" {
			cov++
		}
	}
	return fmt.Sprintf("Table derived at start-up from %d built-in extractors: %d covered by %d fixtures (%d shared placements); not covered: %s; covered but left without a non-empty well-formed fixture in this snapshot (not_covered_nonempty): %s; fixtures left out for size: %s.",
		len(t.Names), cov, len(t.Fix), len(t.Shared), orNone(t.NotCov), orNone(t.NoContent), orNone(t.Big))
}

func orNone(xs []string) string {
	if len(xs) == 0 {
		return "none"
	}
	return strings.Join(xs, ", ")
}
