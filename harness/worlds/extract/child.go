package extract

import (
	"bytes"
	"encoding/json"
	"fmt"
	"os"
	"os/exec"
	"path/filepath"
	"strings"
	"syscall"
	"time"

	"verif/sim"
)

// Some failures cannot be observed in-process: bbolt (containers/containerd) validates a
// database on a goroutine of its own and panics there, which no recover on the scanning
// goroutine can catch - the whole process dies, in production as well as here.  Scenarios
// that can reach that code (a containerd meta.db scanned through a real directory) are
// therefore evaluated in a child process (the same test binary, re-executed); a child that
// dies is a violation of class "crash", with the scenario as the replay.

const (
	envChild    = "VERIF_X_CHILD"     // path of the job file {id, scenario}
	envChildOut = "VERIF_X_CHILD_OUT" // where the child writes its Outcome
	envProgress = "VERIF_X_PROGRESS"  // where the wrappers note the extractor being run
)

type childJob struct {
	ID       string          `json:"id"`
	Scenario json.RawMessage `json:"scenario"`
}

type childOutcome struct {
	Violations []sim.Violation
	Nontrivial bool
	Executions int
	Counters   map[string]int64
	HistoryFP  string
	Sample     any
	NoShrink   bool
}

type evaluator interface {
	sim.Check
	evalAny(sc any) *sim.Outcome
}

func (c C02) evalAny(sc any) *sim.Outcome { return c.evaluate(sc.(*C02Scenario)) }
func (c C06) evalAny(sc any) *sim.Outcome { return c.evaluate(sc.(*C06Scenario)) }

func inChild() bool { return os.Getenv(envChild) != "" }

// needsChild: a containerd database is scanned through a real directory (bbolt panics on its
// own goroutine), or a binary property list is parsed (groob/plist recurses without bound on
// self-referencing objects: a hang in-process would poison the worker).
func needsChild(spec *RunSpec) bool {
	if inChild() {
		return false
	}
	for _, f := range spec.Files {
		if spec.Mode == "real" && strings.HasPrefix(f.Path, "var/lib/containerd/") {
			return true
		}
		if strings.HasSuffix(f.Path, ".plist") && (strings.Contains(f.Src.Fix, "BinaryApp") || f.Src.HasOps()) {
			return true
		}
		// decompression bombs allocate gigabytes: keep them (and the memory watchdog they trip) out of the worker
		if f.Src.Elf != nil && (f.Src.Elf.InflateMiB >= 64 || f.Src.Elf.Repeat > 1) {
			return true
		}
		if strings.Contains(f.Src.Text, "${p1}${p1}") {
			return true // exponential property expansion
		}
		for _, z := range f.Src.Zip {
			if z.Src.Pad >= 64<<20 {
				return true
			}
		}
		// saferwall/pe sizes allocations from header fields: a mutated PE file can exhaust the
		// memory of the process (fatal, not a panic)
		if spec.OS == "windows" && strings.Contains(f.Src.Fix, "dotnetpe/testdata") && f.Src.HasOps() {
			return true
		}
	}
	return false
}

// childMain is called by TestWorker when the process is a child; it never returns normally.
func childMain(checks []evaluator) {
	// an address-space cap: an allocation sized from a corrupted header fails at once (fatal
	// "out of memory", reported as a crash) instead of driving the machine into swap
	lim := syscall.Rlimit{Cur: 8 << 30, Max: 8 << 30}
	syscall.Setrlimit(syscall.RLIMIT_AS, &lim)
	b, err := os.ReadFile(os.Getenv(envChild))
	if err != nil {
		fmt.Fprintln(os.Stderr, "harness child:", err)
		os.Exit(3)
	}
	var job childJob
	if err := json.Unmarshal(b, &job); err != nil {
		fmt.Fprintln(os.Stderr, "harness child:", err)
		os.Exit(3)
	}
	for _, c := range checks {
		if c.ID() != job.ID {
			continue
		}
		sc, err := c.Decode(job.Scenario)
		if err != nil {
			fmt.Fprintln(os.Stderr, "harness child:", err)
			os.Exit(3)
		}
		o := c.evalAny(sc)
		ob, _ := json.Marshal(childOutcome{o.Violations, o.Nontrivial, o.Executions, o.Counters, o.HistoryFP, o.Sample, o.NoShrink})
		if err := os.WriteFile(os.Getenv(envChildOut), ob, 0o644); err != nil {
			fmt.Fprintln(os.Stderr, "harness child:", err)
			os.Exit(3)
		}
		os.Exit(0)
	}
	os.Exit(3)
}

// evalInChild evaluates the scenario in a re-executed copy of this test binary.
func evalInChild(id string, sc any) *sim.Outcome {
	dir := filepath.Join(scratchDir(), "child")
	os.MkdirAll(dir, 0o755)
	raw, _ := json.Marshal(sc)
	jb, _ := json.Marshal(childJob{ID: id, Scenario: raw})
	jobPath, outPath, progPath := filepath.Join(dir, "job.json"), filepath.Join(dir, "out.json"), filepath.Join(dir, "progress")
	os.Remove(outPath)
	os.Remove(progPath)
	if err := os.WriteFile(jobPath, jb, 0o644); err != nil {
		panic("harness: " + err.Error())
	}
	cmd := exec.Command(os.Args[0], "-test.run", "^TestWorker$", "-test.timeout", "0", "-test.cpu", "1")
	cmd.Env = append(os.Environ(), envChild+"="+jobPath, envChildOut+"="+outPath, envProgress+"="+progPath,
		"VERIF_SCRATCH="+filepath.Join(dir, "scratch"), "VERIF_OUT=", "VERIF_REPLAY=")
	var buf bytes.Buffer
	cmd.Stdout, cmd.Stderr = &buf, &buf
	if err := cmd.Start(); err != nil {
		panic("harness: cannot start child: " + err.Error())
	}
	done := make(chan error, 1)
	go func() { done <- cmd.Wait() }()
	var werr error
	timedOut := false
	select {
	case werr = <-done:
	case <-time.After(3*watchdog + 30*time.Second):
		cmd.Process.Kill()
		werr = <-done
		timedOut = true
	}
	os.RemoveAll(filepath.Join(dir, "scratch"))
	out := &sim.Outcome{Executions: 1}
	if ob, err := os.ReadFile(outPath); err == nil && werr == nil {
		var co childOutcome
		if json.Unmarshal(ob, &co) == nil {
			return &sim.Outcome{Violations: co.Violations, Nontrivial: co.Nontrivial, Executions: co.Executions, Counters: co.Counters,
				HistoryFP: co.HistoryFP, Sample: co.Sample, NoShrink: co.NoShrink}
		}
	}
	log := buf.String()
	if timedOut || strings.Contains(log, "harness child:") || strings.Contains(log, "harness:") {
		panic("harness: child evaluation failed: " + trimStack(log, 20))
	}
	ext := "unknown"
	if b, err := os.ReadFile(progPath); err == nil && len(b) > 0 {
		ext = strings.TrimSpace(string(b))
	}
	what, site := crashSite(log)
	out.Count("child.crashed", 1)
	out.Violate("crash", "crash:"+ext+":"+site, "the scanning process died (%v) while extractor %s was running - not a panic a caller could recover from: %s\n%s", werr, ext, what, trimStack(log, 25))
	return out
}

// crashSite extracts the first line of the crash and the first module function of the crashing goroutine.
func crashSite(log string) (what, site string) {
	lines := strings.Split(log, "\n")
	site = "unknown"
	if strings.Contains(log, "fatal error: stack overflow") {
		// unbounded recursion: the function that recurses is the one that fills the stack trace
		count := map[string]int{}
		best := ""
		for _, l := range lines {
			if f := funcOf(l); f != "" && strings.Contains(strings.SplitN(f, "/", 2)[0], ".") && strings.Contains(f, "/") && !strings.HasPrefix(f, "verif/") {
				if count[f]++; count[f] > count[best] || (count[f] == count[best] && f < best) {
					best = f
				}
			}
		}
		if best != "" {
			return "fatal error: stack overflow (goroutine stack exceeds the 1 GB limit)", "stack-overflow:" + best
		}
	}
	for i, l := range lines {
		if strings.HasPrefix(l, "panic: ") || strings.HasPrefix(l, "fatal error: ") || strings.HasPrefix(l, "unexpected fault address") {
			if what == "" {
				what = l
				if len(what) > 300 {
					what = what[:300]
				}
			}
		}
		if what != "" && strings.HasPrefix(l, "goroutine ") && strings.Contains(l, "[running") {
			for _, m := range lines[i+1:] {
				if m == "" {
					break
				}
				if f := funcOf(m); f != "" && strings.Contains(strings.SplitN(f, "/", 2)[0], ".") && strings.Contains(f, "/") && !strings.HasPrefix(f, "verif/") {
					return what, f
				}
			}
		}
	}
	return what, site
}

// CrashProne opts in to the coordinator's safety net: the scenario in progress is left where
// the coordinator finds it, so that a worker the code under test takes down (panic on a
// goroutine it started, fatal runtime error) is reported as a crash violation with a replay.
func (C02) CrashProne() bool { return true }
func (C06) CrashProne() bool { return true }
