package extract

import (
	"encoding/json"

	"fmt"
	"os"
	"path/filepath"
	"sort"
	"strings"
	"syscall"
	"testing"

	"github.com/google/osv-scalibr/verifshim"
	"pgregory.net/rapid"
	"verif/sim"
	"verif/worlds/scan"
)

// OSFault is a tier-2 fault: the K-th call of Op ("MkdirTemp", "Create", "Copy") made by
// ScanInput.GetRealPath fails (Copy: after N bytes) with Errno.
type OSFault struct {
	Op    string `json:"op"`
	K     int    `json:"k"`
	N     int    `json:"n,omitempty"`
	Errno string `json:"errno"` // ENOSPC | EMFILE | EACCES
}

// C06Scenario: a tree of valid / empty / truncated / corrupted fixtures at production paths,
// scanned through a real directory (DirectFS) or through SimFS with a virtual root.
type C06Scenario struct {
	RunSpec
	CwdMirror bool      `json:"cwd_mirror,omitempty"` // the working directory holds a copy of the tree (relative-path writes would hit it)
	TmpAbove  bool      `json:"tmp_above,omitempty"`  // scan root and working directory lie below the temporary directory
	OSFaults  []OSFault `json:"os_faults,omitempty"`
}

type C06 struct{}

func (C06) ID() string { return "C06" }

func (C06) Rule() string {
	return "(scan) Tree placing valid, empty, truncated and corrupted repository fixtures of the built-in extractors' formats at production paths (probed with the real FileRequired; rpm databases, .NET PE files and containerd meta.db variants over-weighted: valid meta.db + snapshotter directory without metadata.db, empty meta.db, ...), scanned with every extractor the capabilities allow (i) through a real sandbox directory with DirectFS and (ii) through SimFS with a virtual root (GetRealPath temporary copies), with/without a read fault during the copy, OS-call faults in the copy (MkdirTemp/Create fail, ENOSPC after n bytes; build-time overlay) and cancellation mid-scan. Sandbox = {scanroot, cwd (decoys named like temporary files, optionally a mirror of the tree), tmp}, side by side or (1 in 4) with scanroot and cwd below the temporary directory; oracle = recursive snapshot (path, type, link target, size, mode, SHA-256) of scanroot and cwd identical before/after and tmp empty after Scan returns. Non-trivial = at least one Extract call of an extractor that touches the host file system (os/rpm, dotnet/pe, containers/containerd) happened, or a fault fired, or the scan was cancelled after it started. " + theTable().summary()
}

func (C06) Decode(raw json.RawMessage) (any, error) {
	var s C06Scenario
	if err := json.Unmarshal(raw, &s); err != nil {
		return nil, err
	}
	return &s, nil
}

var hostTouching = []string{"os/rpm", "dotnet/pe", "containers/containerd"}

func (C06) Gen(rt *rapid.T, tier string) any {
	t := theTable()
	if t.Err != nil {
		panic("harness: " + t.Err.Error())
	}
	osName, running, mode := genEnv(rt, 50)
	if chance(rt, 25, "forcewin") {
		osName = "windows" // dotnet/pe
	}
	enabled := t.enabled(osName, running, mode == "real")
	var cov []string
	for _, e := range enabled {
		if t.Ext[e].Why == "" {
			cov = append(cov, e)
		}
	}
	sc := &C06Scenario{RunSpec: RunSpec{Mode: mode, OS: osName, Running: running, CancelAt: -1}}
	p := newPlacer(t)
	variant := func(idx int, label string) {
		if idx < 0 {
			return
		}
		f := &p.files[idx]
		b, _ := f.Src.Bytes(false)
		switch oneOf(rt, []string{"valid", "valid", "empty", "truncated", "corrupted", "corrupted"}, label+".variant") {
		case "empty":
			f.Src.Ops = []Op{{Kind: "empty"}}
		case "truncated":
			f.Src.Ops = []Op{{Kind: "trunc", Off: pick(rt, len(b)+1, label+".trunc")}}
		case "corrupted":
			f.Src.Ops = genOps(rt, b, label+".op")
		}
	}
	// the extractors that touch the host file system come first, over-weighted
	for _, e := range hostTouching {
		if !has(cov, e) || !chance(rt, 70, "host."+e) {
			continue
		}
		fi := pickFixture(rt, t, e, maxFixtureBytes, false, "host."+e)
		if fi < 0 {
			continue
		}
		if e == "containers/containerd" {
			idx := p.place(fi, t.Ext[e].Def.Tmpl[0], "")
			variant(idx, "cd")
			// snapshotter state: valid metadata.db / directory without metadata.db / nothing / variant
			switch oneOf(rt, []string{"valid", "dir-only", "dir-only", "none", "variant"}, "cd.snap") {
			case "dir-only", "none":
				keep := p.files[:0]
				for _, f := range p.files {
					if !strings.HasSuffix(f.Path, "overlayfs/metadata.db") {
						keep = append(keep, f)
					}
				}
				p.files = keep
				delete(p.used, "var/lib/containerd/io.containerd.snapshotter.v1.overlayfs/metadata.db")
				if len(p.files) > 0 && chance(rt, 70, "cd.dir") {
					sc.Dirs = append(sc.Dirs, "var/lib/containerd/io.containerd.snapshotter.v1.overlayfs")
				}
			case "variant":
				for i := range p.files {
					if strings.HasSuffix(p.files[i].Path, "overlayfs/metadata.db") {
						variant(i, "cd.meta")
					}
				}
			}
			continue
		}
		variant(p.place(fi, homeTmpl(rt, t, fi, "host.tm."+e), drawDir(rt, "host.dir."+e, false)), "host."+e)
	}
	if chance(rt, 15, "rpmwal") && p.free("var/lib/rpm/rpmdb.sqlite") && p.free("var/lib/rpm/Packages") {
		// the snapshot of a live machine: a WAL-mode rpmdb.sqlite together with its -wal file
		if rapid.Bool().Draw(rt, "rpmwal.live") {
			p.add(FileSpec{Path: "var/lib/rpm/rpmdb.sqlite", Src: Src{Gen: "rpm-wal-db"}})
			p.add(FileSpec{Path: "var/lib/rpm/rpmdb.sqlite-wal", Src: Src{Gen: "rpm-wal-wal"}})
		} else {
			// cleanly shut down WAL-mode database (what RHEL 9 / Fedora ship) with corrupt header blobs
			p.add(FileSpec{Path: "var/lib/rpm/rpmdb.sqlite", Src: Src{Gen: "rpm-wal-checkpointed"}})
		}
		p.dirs["var/lib/rpm"] = true
	}
	n := 2 + pick(rt, 6, "nfiles")
	for k := 0; k < n && len(cov) > 0; k++ {
		e := cov[pick(rt, len(cov), fmt.Sprintf("f%d.ext", k))]
		fi := pickFixture(rt, t, e, 600_000, false, fmt.Sprintf("f%d", k))
		if fi < 0 {
			continue
		}
		variant(p.place(fi, homeTmpl(rt, t, fi, fmt.Sprintf("f%d.tm", k)), drawDir(rt, fmt.Sprintf("f%d.dir", k), true)), fmt.Sprintf("f%d", k))
	}
	if rapid.Bool().Draw(rt, "osrelease") {
		p.add(FileSpec{Path: "etc/os-release", Src: Src{Text: osRelease}})
	}
	if len(p.files) == 0 {
		p.add(FileSpec{Path: "etc/os-release", Src: Src{Text: osRelease}})
	}
	sc.Files = p.files
	sc.Order.Rev = rapid.Bool().Draw(rt, "rev")
	sc.CwdMirror = chance(rt, 40, "mirror")
	sc.TmpAbove = chance(rt, 25, "tmpabove")
	if mode == "sim" {
		sc.Disk.Chunk = chunkFor(rt, totalSize(sc.Files))
		sc.Disk.EOFWithData = rapid.Bool().Draw(rt, "eofdata")
		// read fault during the temporary copy of a file that needs a host path
		var hostFiles []string
		for _, f := range sc.Files {
			if strings.Contains(f.Path, "/rpm/") || strings.Contains(f.Path, "/bin/") {
				hostFiles = append(hostFiles, f.Path)
			}
		}
		if len(hostFiles) > 0 && chance(rt, 40, "fault") {
			sc.Disk.Faults = []scan.Fault{{Op: "read", Path: oneOf(rt, hostFiles, "fault.path"), K: rapid.IntRange(1, 8).Draw(rt, "fault.k"),
				Kind: oneOf(rt, []string{"eio", "eio-partial", "perm"}, "fault.kind")}}
		}
		if len(hostFiles) > 0 && chance(rt, 35, "osfault") {
			op := oneOf(rt, []string{"MkdirTemp", "Create", "Copy", "Copy"}, "osfault.op")
			f := OSFault{Op: op, K: rapid.IntRange(1, 3).Draw(rt, "osfault.k"), Errno: oneOf(rt, []string{"ENOSPC", "EMFILE", "EACCES"}, "osfault.errno")}
			if op == "Copy" {
				f.N = oneOf(rt, []int{0, 1, 512, 4096, 20000}, "osfault.n")
				f.Errno = "ENOSPC"
			}
			sc.OSFaults = []OSFault{f}
		}
		if chance(rt, 25, "cancel") {
			sc.CancelAt = rapid.IntRange(0, 600).Draw(rt, "cancel.at")
		}
		// cancellation in the middle of the temporary copy of a file that needs a host path
		if len(hostFiles) > 0 && chance(rt, 30, "cancelon") {
			sc.CancelOn = &scan.Fault{Op: "read", Path: oneOf(rt, hostFiles, "cancelon.path"), K: rapid.IntRange(1, 6).Draw(rt, "cancelon.k")}
		}
	} else if chance(rt, 25, "cancel") {
		sc.CancelAt = rapid.IntRange(0, 12).Draw(rt, "cancel.at")
	}
	return sc
}

func errnoOf(s string) error {
	switch s {
	case "EMFILE":
		return syscall.EMFILE
	case "EACCES":
		return syscall.EACCES
	}
	return syscall.ENOSPC
}

func (c C06) Run(t *testing.T, scAny any) *sim.Outcome {
	sc := scAny.(*C06Scenario)
	out := c.evaluate(sc)
	if len(out.Violations) > 0 && !out.NoShrink && !isKnown("C06", out.Violations[0].Key) {
		key := out.Violations[0].Key
		var last *sim.Outcome
		best := minimiseC06(sc, func(x *C06Scenario) bool {
			o := c.evaluate(x)
			out.Executions += o.Executions
			if hasKey(o, key) {
				last = o
				return true
			}
			return false
		})
		if last != nil {
			out.Violations = keyFirst(last.Violations, key)
		}
		out.ReplayScenario = best
		out.NoShrink = true
	}
	return out
}

func (C06) evaluate(sc *C06Scenario) *sim.Outcome {
	if poisoned {
		o := &sim.Outcome{}
		o.Count("skipped.poisoned_worker", 1)
		return o
	}
	if needsChild(&sc.RunSpec) {
		o := evalInChild("C06", sc)
		// a process that dies never returns from Scan: C02's business, nothing to assert here
		var keep []sim.Violation
		for _, v := range o.Violations {
			if v.Class == "crash" {
				o.Count("skipped.process_died", 1)
				continue
			}
			keep = append(keep, v)
		}
		o.Violations = keep
		return o
	}
	out := &sim.Outcome{}
	sb, err := newSandbox(sc.TmpAbove)
	if err != nil {
		panic("harness: " + err.Error())
	}
	defer sb.remove()
	root, _, err := buildTree(&sc.RunSpec, true)
	if err != nil {
		panic("harness: " + err.Error())
	}
	// working directory: decoys named like the library's temporary files, optionally a mirror of the tree
	if sc.CwdMirror {
		if err := writeTree(root, sb.Cwd); err != nil {
			panic("harness: " + err.Error())
		}
	}
	os.WriteFile(filepath.Join(sb.Cwd, "file"), []byte("decoy: a file called 'file' in the working directory\n"), 0o644)
	os.MkdirAll(filepath.Join(sb.Cwd, "scalibr-tmp", "file"), 0o755)
	os.WriteFile(filepath.Join(sb.Cwd, "scalibr-tmp", "file", "keep"), []byte("decoy\n"), 0o644)
	if sc.Mode == "real" {
		if err := writeTree(root, sb.Root); err != nil {
			panic("harness: " + err.Error())
		}
	}
	before := map[string]map[string]string{"scanroot": snapshot(sb.Root), "cwd": snapshot(sb.Cwd)}
	dirs := map[string]string{"scanroot": sb.Root, "cwd": sb.Cwd, "tmp": sb.Tmp}
	areas := []string{"scanroot", "cwd", "tmp"}

	// attribution: after which Extract call was a change first seen (never used for a verdict)
	sig := map[string]map[string]string{}
	for _, a := range areas {
		sig[a] = cheapSig(dirs[a])
	}
	attrib := map[string]string{}
	after := func(ext, _ string) {
		for _, a := range areas {
			now := cheapSig(dirs[a])
			for _, ch := range diffSnap(sig[a], now) {
				k := a + ":" + ch.Path
				if _, ok := attrib[k]; !ok {
					attrib[k] = ext
				}
			}
			sig[a] = now
		}
	}
	who := func(area, p string) string {
		for q := p; q != "." && q != "/" && q != ""; q = filepath.ToSlash(filepath.Dir(q)) {
			if e, ok := attrib[area+":"+q]; ok {
				return e
			}
		}
		return "unattributed"
	}

	// tier-2 OS faults (pass-through when the scenario has none)
	counts := map[string]int{}
	fired := map[string]int{}
	if len(sc.OSFaults) > 0 {
		verifshim.OSFault = func(op, p string) error {
			counts[op]++
			for _, f := range sc.OSFaults {
				if f.Op == op && f.K == counts[op] {
					fired[op]++
					return &os.PathError{Op: strings.ToLower(op), Path: p, Err: errnoOf(f.Errno)}
				}
			}
			return nil
		}
		verifshim.CopyFault = func() (int64, error) {
			counts["Copy"]++
			for _, f := range sc.OSFaults {
				if f.Op == "Copy" && f.K == counts["Copy"] {
					fired["Copy"]++
					return int64(f.N), errnoOf(f.Errno)
				}
			}
			return 0, nil
		}
	}
	defer func() { verifshim.OSFault, verifshim.CopyFault = nil, nil }()

	if err := sb.enter(); err != nil {
		panic("harness: " + err.Error())
	}
	obs, err := runScan(&sc.RunSpec, true, sb, after)
	sb.leave()
	verifshim.OSFault, verifshim.CopyFault = nil, nil
	if err != nil {
		panic("harness: " + err.Error())
	}
	out.Executions = 1
	out.HistoryFP = obs.HistFP
	out.Count("mode."+sc.Mode, 1)
	out.Sample = map[string]any{"os": sc.OS, "mode": sc.Mode, "files": describeFiles(sc.Files), "dirs": sc.Dirs, "cwd_mirror": sc.CwdMirror,
		"faults": sc.Disk.Faults, "os_faults": sc.OSFaults, "cancel_at": sc.CancelAt, "cancel_on": sc.CancelOn}
	if obs.Hang {
		out.Count("skipped.hang", 1) // termination is C02's business; the rest of this worker is skipped (poisoned)
		return out
	}
	if obs.Panic != "" || obs.Budget != "" || !obs.Returned {
		out.Count("skipped.scan_did_not_return", 1) // the statement speaks about what is true when Scan returns
		return out
	}
	host := false
	for _, er := range obs.Extracts {
		if has(hostTouching, er.Ext) {
			host = true
			out.Count("host_extract."+er.Ext, 1)
		}
	}
	for _, f := range sc.Disk.Faults {
		out.Count("fault.read.planned", 1)
		if obs.Fired[f.Site()] > 0 {
			out.Count("fault.read.fired", 1)
			host = true
		}
	}
	for _, f := range sc.OSFaults {
		out.Count("fault.os."+f.Op+".planned", 1)
		if fired[f.Op] > 0 {
			out.Count("fault.os."+f.Op+".fired", 1)
			host = true
		}
	}
	if sc.CancelOn != nil {
		out.Count("cancel_in_copy.planned", 1)
		if obs.CancelOnFired {
			out.Count("cancel_in_copy.fired", 1)
			host = true
		}
	}
	if sc.CancelAt >= 0 {
		out.Count("cancel.planned", 1)
		if strings.Contains(obs.OverallMsg, "context canceled") || len(obs.Extracts) > 0 {
			out.Count("cancel.mid_scan", 1)
		}
	}
	out.Nontrivial = host

	for _, a := range []string{"scanroot", "cwd"} {
		seenKey := map[string]bool{}
		for _, ch := range diffSnap(before[a], snapshot(dirs[a])) {
			ext := who(a, ch.Path)
			what := ch.What
			// SQLite side files: a database opened read-write gets a -shm file at once, and is
			// checkpointed (database rewritten, -wal removed) whenever its last connection is closed -
			// go-rpmdb leaves that to a goroutine of its own, so WHICH of the files has changed when
			// Scan returns, and after which Extract call, varies from run to run.  One stable key per
			// database, attributed to the extractors that required it.
			if base, isSQLite := sqliteBase(ch.Path); isSQLite && a == "scanroot" {
				var own []string
				for _, e := range obs.Enabled {
					if obs.Required[e][base] {
						own = append(own, e)
					}
				}
				if len(own) > 0 {
					ext = strings.Join(own, "+")
				}
				key := fmt.Sprintf("%s-modified:%s:%s:sqlite-database-or-side-files-written", a, ext, stableName(base))
				if !seenKey[key] {
					seenKey[key] = true
					out.Violate(a+"-modified", key, "%s/%s was %s during the scan (SQLite database %s opened read-write; required by %s): before=%q after=%q", a, ch.Path, ch.What, base, ext, ch.Before, ch.After)
				}
				continue
			}
			if what == "changed" {
				switch bs, as := sizeOf(ch.Before), sizeOf(ch.After); {
				case bs == "0":
					what += ":was-empty"
				case bs == as:
					what += ":same-size"
				default:
					what += ":resized"
				}
			}
			out.Violate(a+"-modified", fmt.Sprintf("%s-modified:%s:%s:%s", a, ext, stableName(ch.Path), what),
				"%s/%s was %s during the scan (first seen after an Extract of %s): before=%q after=%q", a, ch.Path, ch.What, ext, ch.Before, ch.After)
		}
	}
	left := snapshot(sb.Tmp)
	if sc.TmpAbove {
		// scanroot and cwd are legitimate inhabitants of the temporary directory in this layout
		for p := range left {
			if top := strings.SplitN(p, "/", 2)[0]; top == "scanroot" || top == "cwd" {
				delete(left, p)
			}
		}
	}
	var leaks []sim.Violation
	seen := map[string]bool{}
	for _, p := range sortedKeys(left) {
		top := strings.SplitN(p, "/", 2)[0]
		if seen[top] {
			continue
		}
		seen[top] = true
		ext := who("tmp", top)
		var inside []string
		for _, q := range sortedKeys(left) {
			if strings.HasPrefix(q, top+"/") {
				inside = append(inside, strings.TrimPrefix(q, top+"/")+" ["+left[q]+"]")
			}
		}
		leaks = append(leaks, sim.Violation{Class: "tmp-leak", Key: fmt.Sprintf("tmp-leak:%s:%s", ext, stableName(top)),
			Detail: fmt.Sprintf("%s (%s) is still in the temporary directory after Scan returned (overall status %s %q; first seen after an Extract of %s); contains %v",
				top, left[top], statusName(obs.Overall), obs.OverallMsg, ext, inside)})
	}
	// temporary names are random: order the leaks by key, not by name
	sort.SliceStable(leaks, func(i, j int) bool { return leaks[i].Key < leaks[j].Key })
	out.Violations = append(out.Violations, leaks...)
	return out
}

func describeFiles(fs []FileSpec) []string {
	var out []string
	for _, f := range fs {
		out = append(out, f.Path+" = "+f.Src.describe())
	}
	return out
}

func minimiseC06(sc *C06Scenario, still func(*C06Scenario) bool) *C06Scenario {
	clone := func(x *C06Scenario) *C06Scenario {
		c := *x
		c.Files = nil
		for _, f := range x.Files {
			f.Src = cloneSrc(f.Src)
			c.Files = append(c.Files, f)
		}
		c.Dirs = append([]string(nil), x.Dirs...)
		c.Disk.Faults = append([]scan.Fault(nil), x.Disk.Faults...)
		c.OSFaults = append([]OSFault(nil), x.OSFaults...)
		return &c
	}
	best := clone(sc)
	budget := 40
	try := func(x *C06Scenario) bool {
		if budget <= 0 {
			return false
		}
		budget--
		if still(x) {
			best = x
			return true
		}
		return false
	}
	for i := len(best.Files) - 1; i >= 0; i-- {
		if i < len(best.Files) {
			y := clone(best)
			y.Files = append(y.Files[:i:i], y.Files[i+1:]...)
			try(y)
		}
	}
	for i := range best.Files {
		for j := len(best.Files[i].Src.Ops) - 1; j >= 0; j-- {
			y := clone(best)
			ops := y.Files[i].Src.Ops
			y.Files[i].Src.Ops = append(ops[:j:j], ops[j+1:]...)
			try(y)
		}
	}
	simple := []func(*C06Scenario) bool{
		func(y *C06Scenario) bool { r := y.CancelAt >= 0; y.CancelAt = -1; return r },
		func(y *C06Scenario) bool { r := y.CancelOn != nil; y.CancelOn = nil; return r },
		func(y *C06Scenario) bool { r := len(y.Disk.Faults) > 0; y.Disk.Faults = nil; return r },
		func(y *C06Scenario) bool { r := len(y.OSFaults) > 0; y.OSFaults = nil; return r },
		func(y *C06Scenario) bool { r := y.CwdMirror; y.CwdMirror = false; return r },
		func(y *C06Scenario) bool { r := y.TmpAbove; y.TmpAbove = false; return r },
		func(y *C06Scenario) bool { r := len(y.Dirs) > 0; y.Dirs = nil; return r },
		func(y *C06Scenario) bool {
			r := y.Disk.Chunk != 0 || y.Disk.EOFWithData
			y.Disk.Chunk, y.Disk.EOFWithData = 0, false
			return r
		},
		func(y *C06Scenario) bool { r := y.Order.Rev; y.Order.Rev = false; return r },
		func(y *C06Scenario) bool { r := y.Running; y.Running = false; return r },
	}
	for _, f := range simple {
		y := clone(best)
		if f(y) {
			try(y)
		}
	}
	return best
}

func sizeOf(snap string) string {
	if i := strings.Index(snap, "size="); i >= 0 {
		return strings.Fields(snap[i+5:])[0]
	}
	return "-"
}

// sqliteBase maps an SQLite database or one of its side files to the database path.
func sqliteBase(p string) (string, bool) {
	for _, suf := range []string{"-wal", "-shm", "-journal"} {
		if b := strings.TrimSuffix(p, suf); b != p && strings.HasSuffix(b, ".sqlite") {
			return b, true
		}
	}
	return p, strings.HasSuffix(p, ".sqlite")
}
