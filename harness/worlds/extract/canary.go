package extract

import (
	"context"
	"errors"
	"fmt"
	"io"
	"path"
	"strings"

	"github.com/google/osv-scalibr/extractor"
	"github.com/google/osv-scalibr/extractor/filesystem"
	"github.com/google/osv-scalibr/inventory"
	"github.com/google/osv-scalibr/plugin"
	"github.com/google/osv-scalibr/purl"
)

// canary is a harness filesystem extractor that takes part in every scan: plugin failure as a
// fault kind, independent of any bug in a built-in extractor.  It requires canary-*.txt, returns
// one package per line "name version", PANICS when the content carries canaryPanicMarker and
// returns an error (after the packages found so far) when it carries canaryErrorMarker.  Its own
// panic is never reported as panic:<extractor>; what is asserted is the containment: the scan
// completes, the canary's status says FAILED / PARTIALLY_SUCCEEDED, everything else is unchanged.
type canary struct{}

const (
	canaryName        = "verif/canary"
	canaryPanicMarker = "CANARY-PANIC"
	canaryErrorMarker = "CANARY-ERROR"
)

func (canary) Name() string                       { return canaryName }
func (canary) Version() int                       { return 1 }
func (canary) Requirements() *plugin.Capabilities { return &plugin.Capabilities{} }
func (canary) FileRequired(api filesystem.FileAPI) bool {
	b := path.Base(api.Path())
	return strings.HasPrefix(b, "canary-") && strings.HasSuffix(b, ".txt")
}

func (canary) Extract(ctx context.Context, input *filesystem.ScanInput) (inventory.Inventory, error) {
	b, err := io.ReadAll(input.Reader)
	if err != nil {
		return inventory.Inventory{}, err
	}
	var inv inventory.Inventory
	for _, l := range strings.Split(string(b), "\n") {
		switch f := strings.Fields(l); {
		case l == canaryPanicMarker:
			panic("canary: extractor failure injected by the scenario in " + input.Path)
		case l == canaryErrorMarker:
			return inv, errors.New("canary: error injected by the scenario")
		case len(f) == 2:
			inv.Packages = append(inv.Packages, &extractor.Package{Name: f[0], Version: f[1], Locations: []string{input.Path}})
		}
	}
	return inv, nil
}

func (canary) ToPURL(p *extractor.Package) *purl.PackageURL {
	return &purl.PackageURL{Type: purl.TypeGeneric, Name: p.Name, Version: p.Version}
}
func (canary) Ecosystem(p *extractor.Package) string { return "" }

func canaryText(i int) string {
	return fmt.Sprintf("# canary file %d\ncanarypkg%d 1.%d.0\ncanarylib%d 0.%d\n", i, i, i, i, i)
}
