package extract

import (
	"encoding/json"
	"fmt"
	"os"
	"testing"
	"time"

	"pgregory.net/rapid"
	"verif/sim"
)

// TestDevTable prints the table (development aid; not run by verifctl).
func TestDevTable(t *testing.T) {
	if os.Getenv("X_DEV") == "" {
		t.Skip()
	}
	st := time.Now()
	tb := theTable()
	fmt.Println("table built in", time.Since(st))
	fmt.Println(tb.summary())
	for _, n := range tb.Names {
		i := tb.Ext[n]
		fmt.Printf("%-40s fix=%d nonempty=%d why=%q\n", n, len(i.Fix), i.NonEmpty, i.Why)
	}
	own := map[string]int{}
	for _, s := range tb.Shared {
		own[fmt.Sprint(s.Owners)]++
	}
	for _, k := range sortedKeys(own) {
		fmt.Println("shared", k, own[k])
	}
}

// TestDevRun generates and runs scenarios in-process.
func TestDevRun(t *testing.T) {
	if os.Getenv("X_DEV") == "" {
		t.Skip()
	}
	sim.Quiet()
	var c sim.Check = C02{}
	if os.Getenv("X_DEV") == "C06" {
		c = C06{}
	}
	if os.Getenv("X_DEV") == "C08" {
		c = C08X{}
	}
	n := 0
	st := time.Now()
	viol := map[string]int{}
	counters := map[string]int64{}
	nt := 0
	rapid.Check(t, func(rt *rapid.T) {
		sc := c.Gen(rt, "quick")
		raw, _ := json.Marshal(sc)
		sc2, err := c.Decode(raw)
		if err != nil {
			t.Fatal(err)
		}
		out := c.Run(t, sc2)
		n++
		if out.Nontrivial {
			nt++
		}
		for k, v := range out.Counters {
			counters[k] += v
		}
		for _, v := range out.Violations {
			if viol[v.Key] == 0 {
				fmt.Printf("VIOLATION %s\n  %s\n  scenario: %s\n", v.Key, v.Detail, raw)
			}
			viol[v.Key]++
		}
	})
	fmt.Printf("%d scenarios, %d nontrivial, %v\n", n, nt, time.Since(st))
	for _, k := range sortedKeys(counters) {
		fmt.Printf("  %-40s %d\n", k, counters[k])
	}
	for _, k := range sortedKeys(viol) {
		fmt.Printf("  VIOL %-60s %d\n", k, viol[k])
	}
}

// TestDevFP prints scenario fingerprints, history fingerprints and verdicts (determinism aid).
func TestDevFP(t *testing.T) {
	if os.Getenv("X_DEV") == "" {
		t.Skip()
	}
	sim.Quiet()
	for _, c := range []sim.Check{C02{}, C06{}, C08X{}} {
		i := 0
		rapid.Check(t, func(rt *rapid.T) {
			sc := c.Gen(rt, "quick")
			raw, _ := json.Marshal(sc)
			sc2, _ := c.Decode(raw)
			out := c.(evaluator).evalAny(sc2)
			keys := ""
			for _, v := range out.Violations {
				keys += " " + v.Key
			}
			fmt.Printf("FP %s %d %s %s nt=%v%s\n", c.ID(), i, sim.FP(sc), out.HistoryFP, out.Nontrivial, keys)
			if os.Getenv("X_DUMP") == fmt.Sprintf("%s-%d", c.ID(), i) {
				fmt.Printf("DUMP %s\n", raw)
			}
			i++
		})
	}
}
