package scan

import (
	"encoding/json"
	"fmt"
	"sort"
	"strings"
	"testing"

	"github.com/google/osv-scalibr/plugin"
	"pgregory.net/rapid"
	"verif/sim"
)

// C20 - detectors see all extracted packages; findings are reported intact.  Decided on the
// history at the plugin seam of whole simulated scans, with plugin failure as the fault kind.
type C20 struct{}

func (C20) ID() string { return "C20" }
func (C20) Rule() string {
	return "rapid-generated small trees, 1-3 harness extractors (some packages without purl, several purl types), 0-2 standalone extractors (returning packages or failing), 0-4 harness detectors in seeded order each returning 0-3 findings (advisory references shared within and across detectors; advisory bodies equal or differing in exactly one field incl. nested CVSS scores; advisory missing) and/or an error; non-trivial = at least one detector ran AND (the index held >= 1 package OR >= 1 finding was returned); distinct = distinct scenario JSON"
}

func (C20) Gen(rt *rapid.T, tier string) any {
	cfg := &Config{CancelAt: -1}
	tree := genTree(rt, TreeOpts{MaxNodes: 8, MaxDepth: 2, Symlinks: false, Specials: false, Gitignore: false, MaxSize: 20}, "t")
	cfg.Roots = []RootSpec{{Tree: tree}}
	if rapid.IntRange(0, 4).Draw(rt, "tworoots") == 4 {
		// packages extracted from every scan root belong to "the packages extracted in that scan"
		cfg.Roots = append(cfg.Roots, RootSpec{Tree: genTree(rt, TreeOpts{MaxNodes: 5, MaxDepth: 2, MaxSize: 20}, "t2")})
	}
	cfg.Extractors = genExtractors(rt, 3, true)
	for i := range cfg.Extractors {
		l := fmt.Sprintf("ex%d", i)
		cfg.Extractors[i].NoPURL = rapid.Bool().Draw(rt, l+".nopurl")
		cfg.Extractors[i].PurlType = rapid.SampledFrom([]string{"", "deb", "pypi"}).Draw(rt, l+".ptype")
		if cfg.Extractors[i].NoPURL && cfg.Extractors[i].NPkgs < 2 {
			cfg.Extractors[i].NPkgs = 2
		}
	}
	ns := rapid.IntRange(0, 2).Draw(rt, "nstandalone")
	for i := 0; i < ns; i++ {
		st := StandSpec{Name: fmt.Sprintf("s%d", i), NPkgs: rapid.IntRange(0, 2).Draw(rt, fmt.Sprintf("s%d.n", i)), Err: rapid.IntRange(0, 4).Draw(rt, fmt.Sprintf("s%d.err", i)) == 4}
		if st.Err {
			st.ErrKind = rapid.SampledFrom([]string{"", "canceled", "notexist"}).Draw(rt, fmt.Sprintf("s%d.errkind", i))
		}
		cfg.Standalone = append(cfg.Standalone, st)
	}
	nd := rapid.IntRange(0, 4).Draw(rt, "ndetectors")
	var dets []DetSpec
	for i := 0; i < nd; i++ {
		d := DetSpec{Name: fmt.Sprintf("d%d", i), Err: rapid.IntRange(0, 3).Draw(rt, fmt.Sprintf("d%d.err", i)) == 3}
		if d.Err {
			d.ErrKind = rapid.SampledFrom([]string{"", "", "canceled", "deadline", "notexist"}).Draw(rt, fmt.Sprintf("d%d.errkind", i))
		}
		nf := rapid.IntRange(0, 3).Draw(rt, fmt.Sprintf("d%d.nf", i))
		for j := 0; j < nf; j++ {
			l := fmt.Sprintf("d%d.f%d", i, j)
			f := FindingSpec{
				Ref:   rapid.SampledFrom([]string{"ADV-1", "ADV-2", "ADV-3"}).Draw(rt, l+".ref"),
				Extra: rapid.SampledFrom([]string{"", "x", "y"}).Draw(rt, l+".extra"),
			}
			switch rapid.IntRange(0, 11).Draw(rt, l+".mode") {
			case 0:
				f.NoAdv = true
			case 1, 2, 3:
				f.Body = rapid.IntRange(1, 9).Draw(rt, l+".body")
			}
			if rapid.IntRange(0, 5).Draw(rt, l+".pretag") == 5 {
				f.PreTag = rapid.SampledFrom([]string{"stale", "d0", "d1"}).Draw(rt, l+".pretag.name")
			}
			d.Findings = append(d.Findings, f)
		}
		dets = append(dets, d)
	}
	cfg.Detectors = rapid.Permutation(dets).Draw(rt, "detorder")
	cfg.Disk = DiskPlan{Chunk: rapid.SampledFrom([]int{0, 5}).Draw(rt, "chunk")}
	return cfg
}

func (C20) Decode(raw json.RawMessage) (any, error) {
	var c Config
	err := json.Unmarshal(raw, &c)
	return &c, err
}

func identOf(name, version, ext string, locs []string, meta string) string {
	l := append([]string(nil), locs...)
	sort.Strings(l)
	return fmt.Sprintf("%s|%s|%s|%s|%s", name, version, ext, strings.Join(l, ","), meta)
}

type expPkg struct {
	ident, typ, name string
}

func (C20) Run(t *testing.T, sc any) *sim.Outcome {
	cfg := sc.(*Config)
	out := &sim.Outcome{}
	obs := Execute(t, cfg)
	out.Executions = 1
	out.HistoryFP = obs.HistFP
	ctx := fmt.Sprintf("tree {%s} [%s] standalone=%+v detectors=%+v", cfg.Roots[0].Tree, configSummary(cfg), cfg.Standalone, cfg.Detectors)
	if obs.Panic != "" {
		out.Violate("panic", "panic", "engine panicked: %s %s; %s", obs.Panic, obs.PanicStack, ctx)
		return out
	}
	// --- expected index content, from the harness's own record of what its extractors returned
	specByName := map[string]*ExtSpec{}
	for i := range cfg.Extractors {
		specByName[cfg.Extractors[i].Name] = &cfg.Extractors[i]
	}
	var exp []expPkg
	for _, x := range obs.Extracts {
		spec := specByName[x.Ext]
		for _, p := range makePkgs(spec, x.Path, x.Digest, x.NPkgs) {
			m := p.Metadata.(*pkgMeta)
			if m.NoPURL {
				continue
			}
			exp = append(exp, expPkg{identOf(p.Name, p.Version, x.Ext, p.Locations, fmt.Sprintf("%s/%d/%v", m.Digest, m.Idx, m.NoPURL)), m.Type, p.Name})
		}
	}
	for _, s := range cfg.Standalone {
		if s.Err {
			continue
		}
		for i := 0; i < s.NPkgs; i++ {
			name := fmt.Sprintf("sa-%s-%d", s.Name, i)
			exp = append(exp, expPkg{identOf(name, "2.0", s.Name, []string{"standalone:" + s.Name}, ""), "standalone", name})
		}
	}
	expQuery := func(q string) string {
		var ids []string
		parts := strings.Split(q, ":")
		for _, e := range exp {
			switch parts[0] {
			case "all":
				ids = append(ids, e.ident)
			case "type":
				if e.typ == parts[1] {
					ids = append(ids, e.ident)
				}
			case "specific":
				if e.typ == parts[1] && e.name == parts[2] {
					ids = append(ids, e.ident)
				}
			}
		}
		sort.Strings(ids)
		return q + " => " + strings.Join(ids, " ; ")
	}
	for _, d := range cfg.Detectors {
		if obs.DetCalls[d.Name] != 1 {
			out.Violate("detector-call-count", "detector-call-count", "detector %s was invoked %d time(s); %s", d.Name, obs.DetCalls[d.Name], ctx)
			continue
		}
		for _, line := range obs.DetSeen[d.Name] {
			q := strings.SplitN(line, " => ", 2)[0]
			if want := expQuery(q); want != line {
				out.Violate("index-mismatch", "index-mismatch:"+strings.Split(q, ":")[0], "detector %s: package index answered\n  %s\nbut the packages extracted in this scan with a package URL give\n  %s; %s", d.Name, line, want, ctx)
				break
			}
		}
	}
	// --- findings
	conflict := false
	advByRef := map[string]string{}
	var wantFindings []string
	for _, d := range cfg.Detectors {
		for _, f := range d.Findings {
			if f.NoAdv {
				conflict = true
				continue
			}
			as := advisoryString(advisoryVariant(f.Ref, f.Body))
			id := strings.SplitN(as, "|", 2)[0]
			if prev, ok := advByRef[id]; ok && prev != as {
				conflict = true
			}
			advByRef[id] = as
			wantFindings = append(wantFindings, fmt.Sprintf("%s|%s|%s|%s", f.Ref, as, f.Extra, d.Name))
		}
	}
	sort.Strings(wantFindings)
	if !conflict {
		have := append([]string(nil), obs.Findings...)
		sort.Strings(have)
		if strings.Join(have, "\n") != strings.Join(wantFindings, "\n") {
			out.Violate("findings-mismatch", "findings-mismatch", "findings in the result differ from what the detectors returned (tagged with their detector):\n have %v\n want %v; %s", have, wantFindings, ctx)
		}
		if obs.Overall != plugin.ScanStatusSucceeded {
			out.Violate("scan-failed-without-cause", "scan-failed-without-cause", "overall status %v (%s) although no advisory conflict exists (detector or standalone errors alone must not fail the scan); %s", obs.Overall, obs.OverallMsg, ctx)
		}
	} else {
		if obs.Overall != plugin.ScanStatusFailed {
			out.Violate("conflict-not-failed", "conflict-not-failed", "findings conflict (same advisory ID with differing content, or a finding without advisory) but overall status is %v; %s", obs.Overall, ctx)
		}
		seen := map[string]string{}
		for _, f := range obs.RawFindings {
			if !f.HasAdv {
				out.Violate("inconsistent-findings-emitted", "inconsistent-findings-emitted:noadv", "result contains a finding without advisory; %s", ctx)
				continue
			}
			id := strings.SplitN(f.Adv, "|", 2)[0]
			if prev, ok := seen[id]; ok && prev != f.Adv {
				out.Violate("inconsistent-findings-emitted", "inconsistent-findings-emitted:conflict", "result contains two findings with advisory ID %s and different advisories; %s", id, ctx)
			}
			seen[id] = f.Adv
		}
		out.Count("probe_advisory_conflict", 1)
	}
	// --- statuses
	stByName := map[string][]StatusObs{}
	for _, s := range obs.Statuses {
		stByName[s.Name] = append(stByName[s.Name], s)
	}
	for _, d := range cfg.Detectors {
		ss := stByName[d.Name]
		if len(ss) != 1 {
			out.Violate("detector-status-count", "detector-status-count", "detector %s has %d status entries; %s", d.Name, len(ss), ctx)
			continue
		}
		if (ss[0].Status == plugin.ScanStatusFailed) != d.Err {
			out.Violate("detector-status", "detector-status", "detector %s returned error=%v but its status is %v; %s", d.Name, d.Err, ss[0].Status, ctx)
		}
	}
	nFind := 0
	for _, d := range cfg.Detectors {
		nFind += len(d.Findings)
		if d.Err {
			out.Count("fault_detector_error", 1)
			if len(d.Findings) > 0 {
				out.Count("probe_findings_with_error", 1)
			}
		}
	}
	for _, s := range cfg.Standalone {
		if s.Err {
			out.Count("fault_standalone_error", 1)
		}
	}
	out.Nontrivial = len(cfg.Detectors) > 0 && (len(exp) > 0 || nFind > 0)
	out.Sample = map[string]any{"tree": cfg.Roots[0].Tree.String(), "detectors": cfg.Detectors, "standalone": cfg.Standalone, "indexed_packages": len(exp), "conflict": conflict}
	return out
}
