package scan

import (
	"encoding/json"
	"fmt"
	"path"
	"sort"
	"strings"
	"testing"

	"github.com/google/osv-scalibr/plugin"
	"pgregory.net/rapid"
	"verif/sim"
)

// C09 - file-system faults are contained, surfaced, and fatal only on request.
// Per generated tree: every single fault over every operation site of the fault-free history
// x error kind, and every ordered pair for small trees.
type C09 struct{}

func (C09) ID() string { return "C09" }
func (C09) Rule() string {
	return "rapid-generated trees (<=10 nodes; 1 in 4 whole-tree scenarios with a second scan root; virtual roots or roots with a path of their own) x {fatal-on-fs-errors, size limit, inode limit equal to the fault-free visit count (1 in 3 scenarios without gitignore handling), gitignore, whole tree / requested paths, symlink reading} x 1-3 extractors; per tree the fault-free history is recorded and EVERY single fault (site = k-th occurrence of stat/open/readdir/fstat/read/readdirall on a path; kinds perm/notexist/eio, eio-partial for reads, and persistent variants in which every occurrence from the k-th on fails) is injected, plus every ordered pair (second site taken from the history of the run with the first fault; kinds perm,eio) when the fault-free history has <= 40 file-system operations (quick) / <= 90 (thorough); under every plan the size limit stays a hard bound (no regular file above it reaches an extractor); evaluation = one scan under one fault plan; non-trivial scenario = at least one fault fired AND at least one extraction lies outside its blast radius; distinct = distinct scenario JSON"
}

func (C09) Gen(rt *rapid.T, tier string) any {
	cfg := &Config{CancelAt: -1}
	tree := genTree(rt, TreeOpts{MaxNodes: 10, MaxDepth: 3, Symlinks: true, Specials: false, Gitignore: true, MaxSize: 40}, "t")
	cfg.Roots = []RootSpec{{Tree: tree}}
	cfg.Extractors = genExtractors(rt, 3, false)
	if rapid.IntRange(0, 2).Draw(rt, "ex0.all") > 0 {
		cfg.Extractors[0].Pred = Pred{Op: "all"} // most trees should have extractions to protect
	}
	for i := range cfg.Extractors {
		cfg.Extractors[i].Partial = rapid.Bool().Draw(rt, fmt.Sprintf("partial%d", i))
	}
	cfg.ErrorOnFSErrors = rapid.Bool().Draw(rt, "fatal")
	cfg.UseGitignore = rapid.Bool().Draw(rt, "usegitignore")
	cfg.ReadSymlinks = rapid.IntRange(0, 3).Draw(rt, "readsymlinks") == 3
	if rapid.Bool().Draw(rt, "usemaxsize") {
		cfg.MaxFileSize = rapid.IntRange(1, 40).Draw(rt, "maxsize")
	}
	if rapid.IntRange(0, 2).Draw(rt, "usepaths") == 2 {
		var cands []string
		tree.WalkTree(func(p string, x *Node) {
			if p != "." && (x.Kind == "file" || x.Kind == "dir") && !ruleExcludes(cfg, tree, p, x.IsDir()) {
				cands = append(cands, p)
			}
		})
		if len(cands) > 0 {
			cfg.PathsToExtract = uniq(rapid.SliceOfN(rapid.SampledFrom(cands), 1, 2).Draw(rt, "paths"))
		}
	}
	cfg.ExactInodeLimit = !cfg.UseGitignore && rapid.IntRange(0, 2).Draw(rt, "exactinodelimit") == 2
	cfg.Disk = DiskPlan{Chunk: rapid.SampledFrom([]int{0, 5, 16}).Draw(rt, "chunk"), NoReadDirFile: rapid.IntRange(0, 5).Draw(rt, "noreaddirfile") == 5}
	if len(cfg.PathsToExtract) == 0 && rapid.IntRange(0, 3).Draw(rt, "tworoots") == 3 {
		// a fault in one scan root must not reach into the other (they share the walk context)
		cfg.Roots = append(cfg.Roots, RootSpec{Tree: genTree(rt, TreeOpts{MaxNodes: 6, MaxDepth: 2, Symlinks: true, Gitignore: true, MaxSize: 40}, "t2")})
	}
	if rapid.Bool().Draw(rt, "realroots") {
		// roots with a path of their own (a real directory as opposed to a virtual file system)
		for i := range cfg.Roots {
			cfg.Roots[i].Path = fmt.Sprintf("/simroot%d", i)
		}
	}
	return cfg
}

func (C09) Decode(raw json.RawMessage) (any, error) {
	var c Config
	err := json.Unmarshal(raw, &c)
	return &c, err
}

var fsOps = map[string]bool{"stat": true, "open": true, "readdir": true, "fstat": true, "read": true, "readdirall": true}

// sitesOf lists the fault sites of a history: every file-system operation, as (op, path, k).
func sitesOf(events []Event) []Fault {
	occ := map[string]int{}
	var out []Fault
	for _, e := range events {
		if !fsOps[e.Op] {
			continue
		}
		k := e.Op + "|" + e.Path
		occ[k]++
		out = append(out, Fault{Op: e.Op, Path: e.Path, K: occ[k]})
	}
	return out
}

func kindsFor(op string, pair bool) []string {
	if pair {
		return []string{"perm", "eio"}
	}
	if op == "read" {
		return []string{"perm", "eio", "eio-partial", "eio+"}
	}
	return []string{"perm", "notexist", "eio", "perm+", "eio+"}
}

// failingObject is what a delivered fault is allowed to take down.
type failingObject struct {
	Root      string // root label of the object ("" in single-root scans)
	Dir       string // everything under this directory (non-empty => directory object)
	File      string // this file, for every extractor
	Path, Ext string // this (file, extractor) attempt
	Gitignore bool   // ignore rules of Dir are unknown: extra extractions inside Dir are acceptable
	Traversal bool   // the fault was delivered to the walk itself
	StatFault bool   // File object created by a faulted path stat: extra extractions of it are acceptable
}

// analyse derives, from the recorded history of a faulted run, the failing objects, the
// extractors that experienced a failure, and whether a lazy stat failed.
type faultAnalysis struct {
	Objects   []failingObject
	FailedExt map[string]bool
	StatFiles map[string]bool // files whose path stat was faulted
	Traversal bool
}

// splitLabel separates the "rN:" root label multi-root runs put in front of event paths.
func splitLabel(p string) (root, rest string) {
	if i := strings.Index(p, ":"); i > 0 && p[0] == 'r' {
		return p[:i], p[i+1:]
	}
	return "", p
}

func treeOf(cfg *Config, root string) *Node {
	if root != "" {
		var i int
		if _, err := fmt.Sscanf(root, "r%d", &i); err == nil && i < len(cfg.Roots) {
			return cfg.Roots[i].Tree
		}
	}
	return cfg.Roots[0].Tree
}

func analyse(cfg *Config, obs *Obs) *faultAnalysis {
	fa := &faultAnalysis{FailedExt: map[string]bool{}, StatFiles: map[string]bool{}}
	var pendP, pendE string // last "required? = true" not yet consumed by an open
	var openP, openE string // owner of the most recent successful open (for fstat)
	var curP, curE string   // extraction in progress
	lastInode := "\x00"
	isReq := func(p string) bool {
		for _, q := range cfg.PathsToExtract {
			if q == p {
				return true
			}
		}
		return false
	}
	for _, ev := range obs.Events {
		e := ev
		root := ""
		if fsOps[e.Op] {
			root, e.Path = splitLabel(e.Path)
		}
		tree := treeOf(cfg, root)
		// a pending "required" is consumed by the very next open of that path; any file-system
		// operation on another path in between means the engine moved on (e.g. size-limit skip)
		if fsOps[e.Op] && e.Path != pendP {
			pendP, pendE = "", ""
		}
		switch e.Op {
		case "inode":
			pendP, pendE = "", ""
			lastInode = e.Path
		case "required?":
			if e.Res == "true" {
				pendP, pendE = e.Path, e.Arg
			} else {
				pendP, pendE = "", ""
			}
		case "extract-begin":
			_, curP = splitLabel(e.Path)
			curE = e.Arg
		case "extract-end":
			curP, curE = "", ""
		case "stat":
			if !e.Fault {
				if e.Res == "notexist" {
					// natural failure (dangling symlink, vanished requested path): same relaxation
					// as a faulted lazy stat
					fa.StatFiles[e.Path] = true
				}
				continue
			}
			n := tree.Lookup(e.Path)
			if e.Path == "." || (n != nil && n.IsDir()) {
				fa.Objects = append(fa.Objects, failingObject{Root: root, Dir: e.Path, Traversal: true})
				fa.Traversal = true
			} else {
				// a predicate that consults Stat may answer anything for this file
				fa.Objects = append(fa.Objects, failingObject{Root: root, File: e.Path, StatFault: true})
				fa.StatFiles[e.Path] = true
				if isReq(e.Path) && lastInode != e.Path {
					fa.Traversal = true // the walk's own stat of a requested path, not the lazy stat
				}
			}
		case "open":
			failed := e.Fault || e.Res == "notexist"
			n := tree.Lookup(e.Path)
			isDir := e.Path == "." || (n != nil && n.IsDir())
			owned := pendP == e.Path && pendE != ""
			switch {
			case isDir && e.Fault:
				fa.Objects = append(fa.Objects, failingObject{Root: root, Dir: e.Path, Traversal: true})
				fa.Traversal = true
			case owned:
				if failed {
					fa.Objects = append(fa.Objects, failingObject{Root: root, Path: e.Path, Ext: pendE})
					fa.FailedExt[pendE] = true
					openP, openE = "", ""
				} else {
					openP, openE = e.Path, pendE
				}
				pendP, pendE = "", ""
			case e.Fault && path.Base(e.Path) == ".gitignore":
				// opened by the walk itself (no extractor attempt pending): part of the traversal
				fa.Objects = append(fa.Objects, failingObject{Root: root, Dir: path.Dir(e.Path), Gitignore: true})
				if e.Res != "err:notexist" { // "does not exist" is indistinguishable from a directory without ignore file
					fa.Traversal = true
				}
			case e.Fault:
				fa.Objects = append(fa.Objects, failingObject{Root: root, File: e.Path})
			}
		case "fstat":
			if e.Fault {
				if openP == e.Path && openE != "" {
					fa.Objects = append(fa.Objects, failingObject{Root: root, Path: e.Path, Ext: openE})
					fa.FailedExt[openE] = true
				} else {
					fa.Objects = append(fa.Objects, failingObject{Root: root, File: e.Path})
				}
			}
		case "read":
			if e.Fault {
				if curP == e.Path && curE != "" {
					fa.Objects = append(fa.Objects, failingObject{Root: root, Path: e.Path, Ext: curE})
				} else if path.Base(e.Path) == ".gitignore" {
					fa.Objects = append(fa.Objects, failingObject{Root: root, Dir: path.Dir(e.Path), Gitignore: true})
					fa.Traversal = true // the walk's own read of the ignore file
				} else {
					fa.Objects = append(fa.Objects, failingObject{Root: root, File: e.Path})
				}
			}
		case "readdir", "readdirall":
			if e.Fault {
				fa.Objects = append(fa.Objects, failingObject{Root: root, Dir: e.Path, Traversal: true})
				fa.Traversal = true
			}
		}
	}
	for _, x := range obs.Extracts {
		if x.Err != "" {
			fa.FailedExt[x.Ext] = true
		}
	}
	return fa
}

func (fa *faultAnalysis) covers(ext, root, p string) (inside bool, extraOK bool) {
	for _, o := range fa.Objects {
		if o.Root != root {
			continue
		}
		switch {
		case o.Dir != "":
			if under(p, o.Dir) {
				inside = true
				if o.Gitignore {
					extraOK = true
				}
			}
		case o.File != "":
			if p == o.File {
				inside = true
				if o.StatFault {
					extraOK = true
				}
			}
		default:
			if p == o.Path && ext == o.Ext {
				inside = true
			}
		}
	}
	return
}

type extractSig struct {
	n    int
	sigs []string
}

func extractSigs(obs *Obs) map[string]*extractSig {
	m := map[string]*extractSig{}
	for _, e := range obs.Extracts {
		k := RefKey(e.Ext, e.Root, e.Path)
		s := m[k]
		if s == nil {
			s = &extractSig{}
			m[k] = s
		}
		s.n++
		s.sigs = append(s.sigs, fmt.Sprintf("%s/%d/%s/%s", e.Digest, e.InfoSize, strings.Join(e.Pkgs, ","), e.Err))
	}
	return m
}

func planString(plan []Fault) string {
	var s []string
	for _, f := range plan {
		s = append(s, f.Site()+":"+f.Kind)
	}
	return strings.Join(s, " + ")
}

func planKey(plan []Fault) string {
	var s []string
	for _, f := range plan {
		p := "file"
		if path.Base(f.Path) == ".gitignore" {
			p = "gitignore"
		}
		op := f.Op
		if f.Sticky {
			op += "+"
		}
		s = append(s, op+"("+p+")")
	}
	sort.Strings(s)
	return strings.Join(s, "+")
}

// checkFaulted evaluates the C09 oracle for one faulted run against the fault-free run h0.
func checkFaulted(cfg *Config, plan []Fault, h0 *Obs, obs *Obs, out *sim.Outcome) (fired int, outside int) {
	key := func(class string) string {
		k := class + ":" + planKey(plan)
		if cfg.ErrorOnFSErrors {
			k += ":fatal"
		}
		if cfg.UseGitignore {
			k += ":gitignore"
		}
		if cfg.MaxFileSize > 0 {
			k += ":maxsize"
		}
		return k
	}
	ctx := fmt.Sprintf("plan [%s] on tree {%s} [%s]", planString(plan), treesString(cfg), configSummary(cfg))
	for _, f := range plan {
		if obs.Fired[f.Site()] > 0 {
			fired++
		}
	}
	if obs.Panic != "" {
		out.Violate("panic", key("panic"), "engine panicked (%s) [%s] under %s", obs.Panic, obs.PanicStack, ctx)
		return
	}
	if obs.StepCap {
		out.Violate("nontermination", key("nontermination"), "scan did not end within %d seam events under %s", len(obs.Events), ctx)
		return
	}
	if fired == 0 {
		return
	}
	// the size limit is a hard bound, faults or not: a regular file larger than the limit is never
	// handed to an extractor (a failing size check must fail closed)
	if cfg.MaxFileSize > 0 {
		for _, e := range obs.Extracts {
			if t := treeOf(cfg, e.Root); t != nil {
				if n := t.Lookup(e.Path); n != nil && n.Kind == "file" && len(n.Content) > cfg.MaxFileSize {
					out.Violate("oversize-extract", key("oversize-extract"), "%s (%d bytes) was handed to %s although MaxFileSize=%d; %s", labelled(e.Root, e.Path), len(n.Content), e.Ext, cfg.MaxFileSize, ctx)
				}
			}
		}
	}
	fa := analyse(cfg, obs)
	fatalOnRequest := cfg.ErrorOnFSErrors && fa.Traversal

	// fatality
	if !cfg.ErrorOnFSErrors && obs.Overall != plugin.ScanStatusSucceeded {
		out.Violate("fatal-without-request", key("fatal-without-request"), "overall status %v (%s) although file-system errors are not fatal; %s", obs.Overall, obs.OverallMsg, ctx)
	}
	if fatalOnRequest && obs.Overall != plugin.ScanStatusFailed {
		out.Violate("not-fatal-on-request", key("not-fatal-on-request"), "traversal failure delivered with fatal-on-fs-errors set, but overall status is %v; %s", obs.Overall, ctx)
	}
	if fatalOnRequest || obs.Overall == plugin.ScanStatusFailed {
		return
	}

	// blast radius
	want := extractSigs(h0)
	got := extractSigs(obs)
	for _, k := range sortedKeys(want) {
		parts := strings.SplitN(k, "|", 3)
		inside, _ := fa.covers(parts[0], parts[1], parts[2])
		w, g := want[k], got[k]
		if inside {
			if g != nil && g.n > w.n {
				out.Violate("duplicate-extract", key("duplicate-extract"), "%s extracted %d times (fault-free: %d); %s", k, g.n, w.n, ctx)
			}
			continue
		}
		outside++
		gn := 0
		if g != nil {
			gn = g.n
		}
		if gn != w.n {
			out.Violate("blast-radius", key("blast-radius"), "%s lies outside the failing object(s) but was extracted %d time(s) instead of %d; %s", k, gn, w.n, ctx)
			continue
		}
		if strings.Join(g.sigs, ";") != strings.Join(w.sigs, ";") {
			out.Violate("blast-radius-content", key("blast-radius-content"), "%s lies outside the failing object(s) but its extraction differs: %v vs fault-free %v; %s", k, g.sigs, w.sigs, ctx)
		}
	}
	for _, k := range sortedKeys(got) {
		if _, ok := want[k]; ok {
			continue
		}
		parts := strings.SplitN(k, "|", 3)
		if _, extraOK := fa.covers(parts[0], parts[1], parts[2]); extraOK {
			continue
		}
		out.Violate("extra-extract", key("extra-extract"), "%s extracted under faults but not in the fault-free scan; %s", k, ctx)
	}

	// surfacing: status derived from the recorded history
	found := map[string]bool{}
	for _, x := range obs.Extracts {
		if x.NPkgs > 0 {
			found[x.Ext] = true
		}
	}
	relaxed := map[string]bool{} // extractors that considered a file whose lazy stat was faulted
	for _, e := range obs.Events {
		if e.Op == "required?" && fa.StatFiles[e.Path] {
			relaxed[e.Arg] = true
		}
	}
	if len(fa.StatFiles) > 0 {
		for _, e := range h0.Events {
			if e.Op == "required?" && fa.StatFiles[e.Path] {
				relaxed[e.Arg] = true
			}
		}
	}
	seen := map[string]int{}
	for _, s := range obs.Statuses {
		seen[s.Name]++
		if relaxed[s.Name] {
			continue
		}
		var exp plugin.ScanStatusEnum
		switch {
		case fa.FailedExt[s.Name] && found[s.Name]:
			exp = plugin.ScanStatusPartiallySucceeded
		case fa.FailedExt[s.Name]:
			exp = plugin.ScanStatusFailed
		default:
			exp = plugin.ScanStatusSucceeded
		}
		if s.Status != exp {
			out.Violate("status-mismatch", key("status-mismatch"), "extractor %s: status %v (%q) but its history says failed=%v found=%v => %v; %s", s.Name, s.Status, s.Reason, fa.FailedExt[s.Name], found[s.Name], exp, ctx)
		}
	}
	for _, e := range cfg.Extractors {
		if seen[e.Name] != 1 {
			out.Violate("status-count", key("status-count"), "extractor %s has %d status entries; %s", e.Name, seen[e.Name], ctx)
		}
	}
	if obs.OpenLeak != 0 {
		out.Violate("handle-leak", key("handle-leak"), "%d handle(s) left open; %s", obs.OpenLeak, ctx)
	}
	return
}

func (C09) Run(t *testing.T, sc any) *sim.Outcome {
	cfg := sc.(*Config)
	out := &sim.Outcome{}
	base := cfg.Clone()
	base.Disk.Faults = nil
	base.Plans = nil
	h0 := Execute(t, base)
	out.Executions = 1
	out.HistoryFP = h0.HistFP
	if h0.Panic != "" || h0.StepCap {
		out.Violate("panic", "panic:fault-free", "fault-free run failed: panic=%q stepcap=%v", h0.Panic, h0.StepCap)
		return out
	}
	cap := 8*len(h0.Events) + 64
	if cfg.UseGitignore {
		// an unreadable ignore file legitimately makes the walk do MORE than the fault-free run
		// (everything it would have excluded): the termination bound is taken from the larger of the
		// two fault-free histories, with and without gitignore handling
		noGI := base.Clone()
		noGI.UseGitignore = false
		if h1 := Execute(t, noGI); h1.Panic == "" && !h1.StepCap && 8*len(h1.Events)+64 > cap {
			cap = 8*len(h1.Events) + 64
		}
		out.Executions++
	}
	if cfg.ExactInodeLimit && !cfg.UseGitignore {
		// (with gitignore handling an unreadable .gitignore legitimately makes the walk visit MORE)
		base.MaxInodes = countOp(h0.Events, "inode")
	}

	firedAny, outsideAny := false, false
	runPlan := func(plan []Fault) *Obs {
		c := base.Clone()
		c.Disk.Faults = append([]Fault(nil), plan...)
		c.stepCap = cap
		obs := Execute(t, c)
		out.Executions++
		nv := len(out.Violations)
		fired, outside := checkFaulted(cfg, plan, h0, obs, out)
		if fired > 0 {
			firedAny = true
			if outside > 0 {
				outsideAny = true
			}
		}
		for _, f := range plan {
			kind := f.Kind
			if f.Sticky {
				kind += "-persistent"
			}
			out.Count("planned_"+f.Op+"_"+kind, 1)
			if obs.Fired[f.Site()] > 0 {
				out.Count("fired_"+f.Op+"_"+kind, 1)
			}
		}
		if len(out.Violations) > nv && out.ReplayScenario == nil {
			r := base.Clone()
			r.Plans = [][]Fault{plan}
			out.ReplayScenario = r
		}
		return obs
	}

	if len(cfg.Plans) > 0 {
		for _, p := range cfg.Plans {
			runPlan(p)
		}
	} else {
		sites := sitesOf(h0.Events)
		pairLimit := 40
		if testing.Verbose() {
			pairLimit = 40
		}
		if tierThorough() {
			pairLimit = 90
		}
		doPairs := len(sites) <= pairLimit
		for _, s := range sites {
			for _, kind := range kindsFor(s.Op, false) {
				f1 := s
				f1.Kind = kind
				if strings.HasSuffix(kind, "+") { // persistent variant
					f1.Kind = strings.TrimSuffix(kind, "+")
					f1.Sticky = true
				}
				o1 := runPlan([]Fault{f1})
				if len(out.Violations) > 0 {
					break
				}
				if !doPairs || (kind != "perm" && kind != "eio") || o1.Fired[f1.Site()] == 0 {
					continue
				}
				for _, s2 := range sitesOf(o1.Events) {
					if s2.Site() == f1.Site() {
						continue
					}
					for _, k2 := range kindsFor(s2.Op, true) {
						f2 := s2
						f2.Kind = k2
						runPlan([]Fault{f1, f2})
						out.Count("pair_plans", 1)
					}
					if len(out.Violations) > 0 {
						break
					}
				}
			}
			if len(out.Violations) > 0 {
				break
			}
		}
		out.Count("sites", int64(len(sites)))
	}
	out.Nontrivial = firedAny && outsideAny
	out.Sample = map[string]any{"tree": treesString(cfg), "config": configSummary(cfg), "fault_free_fs_ops": len(sitesOf(h0.Events)), "fault_plans_run": out.Executions - 1}
	return out
}
