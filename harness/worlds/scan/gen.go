package scan

import (
	"fmt"
	"os"
	"regexp"
	"sort"
	"strings"

	"github.com/gobwas/glob"
	"pgregory.net/rapid"
)

var nameAlphabet = []string{"a", "b", "c", "lib", "d.txt", "e.json", "f.lock", "x y", "-z", "A", ".hidden", "node_modules", "g.txt", "h", "lib64", "ab", "a.b", " a", "..c"}

var giLines = []string{"a", "b", "lib", "lib/", "*.txt", "*.json", "/a", "/d.txt", "a/b", "b/c", "c/d.txt", "# comment", "", "h", "node_modules/", "g.txt", "x y", "-z", "/lib/", ".*", "*", " a", "..c"}

var skipRegexes = []string{"^a$", "b", "lib", "^a/b$", "node_modules$", "/c$", "^[A-Z]$"}
var skipGlobs = []string{"lib", "*/lib", "a/*", "*b*", "{a,c}", "*/c", "A"}

// TreeOpts bounds tree generation.
type TreeOpts struct {
	MaxNodes  int
	MaxDepth  int
	Symlinks  bool
	Specials  bool
	Gitignore bool
	MaxSize   int
}

func genContent(rt *rapid.T, max int, label string) string {
	if max <= 0 {
		max = 300
	}
	n := rapid.IntRange(0, max).Draw(rt, label+".len")
	if n == 0 {
		return ""
	}
	ch := rapid.SampledFrom([]string{"x", "y", "z\n", "ab", "pkg 1.0\n"}).Draw(rt, label+".ch")
	s := strings.Repeat(ch, n/len(ch)+1)
	return s[:n]
}

// genTree draws a tree of at most o.MaxNodes nodes.
func genTree(rt *rapid.T, o TreeOpts, label string) *Node {
	root := &Node{Name: ".", Kind: "dir"}
	budget := rapid.IntRange(1, o.MaxNodes).Draw(rt, label+".nodes")
	type slot struct {
		n     *Node
		p     string
		depth int
	}
	dirs := []slot{{root, ".", 0}}
	var allPaths []string
	var symlinks []*Node
	for i := 0; i < budget; i++ {
		di := rapid.IntRange(0, len(dirs)-1).Draw(rt, fmt.Sprintf("%s.parent%d", label, i))
		d := dirs[di]
		name := rapid.SampledFrom(nameAlphabet).Draw(rt, fmt.Sprintf("%s.name%d", label, i))
		dup := false
		for _, ch := range d.n.Children {
			if ch.Name == name {
				dup = true
			}
		}
		if dup {
			continue
		}
		kinds := []string{"file", "file", "file", "dir", "dir"}
		if o.Gitignore {
			kinds = append(kinds, "gitignore")
		}
		if o.Symlinks {
			kinds = append(kinds, "symlink")
		}
		if o.Specials {
			kinds = append(kinds, "special")
		}
		kind := rapid.SampledFrom(kinds).Draw(rt, fmt.Sprintf("%s.kind%d", label, i))
		cp := name
		if d.p != "." {
			cp = d.p + "/" + name
		}
		switch kind {
		case "dir":
			if d.depth >= o.MaxDepth {
				continue
			}
			n := &Node{Name: name, Kind: "dir"}
			d.n.Children = append(d.n.Children, n)
			dirs = append(dirs, slot{n, cp, d.depth + 1})
		case "file":
			n := &Node{Name: name, Kind: "file", Content: genContent(rt, o.MaxSize, fmt.Sprintf("%s.c%d", label, i)), Exec: rapid.Bool().Draw(rt, fmt.Sprintf("%s.x%d", label, i))}
			d.n.Children = append(d.n.Children, n)
		case "gitignore":
			has := false
			for _, ch := range d.n.Children {
				if ch.Name == ".gitignore" {
					has = true
				}
			}
			if has {
				continue
			}
			lines := rapid.SliceOfN(rapid.SampledFrom(giLines), 1, 4).Draw(rt, fmt.Sprintf("%s.gi%d", label, i))
			content := strings.Join(lines, "\n")
			if rapid.Bool().Draw(rt, fmt.Sprintf("%s.ginl%d", label, i)) {
				content += "\n"
			}
			cp = ".gitignore"
			if d.p != "." {
				cp = d.p + "/.gitignore"
			}
			d.n.Children = append(d.n.Children, &Node{Name: ".gitignore", Kind: "file", Content: content})
		case "symlink":
			n := &Node{Name: name, Kind: "symlink"}
			d.n.Children = append(d.n.Children, n)
			symlinks = append(symlinks, n)
		case "special":
			k := rapid.SampledFrom([]string{"fifo", "device", "socket"}).Draw(rt, fmt.Sprintf("%s.sp%d", label, i))
			d.n.Children = append(d.n.Children, &Node{Name: name, Kind: k})
		}
		allPaths = append(allPaths, cp)
	}
	// symlink targets: an existing path (file or dir, never another symlink) or a dangling one
	var targets []string
	root.WalkTree(func(p string, x *Node) {
		if p != "." && (x.Kind == "file" || x.Kind == "dir") {
			targets = append(targets, p)
		}
	})
	targets = append(targets, "no/such")
	for i, s := range symlinks {
		s.Target = rapid.SampledFrom(targets).Draw(rt, fmt.Sprintf("%s.tgt%d", label, i))
	}
	return root
}

func genPred(rt *rapid.T, depth int, label string) Pred {
	ops := []string{"all", "base", "ext", "prefix", "exec", "sizegt", "none"}
	if depth > 0 {
		ops = append(ops, "and", "or", "not")
	}
	op := rapid.SampledFrom(ops).Draw(rt, label+".op")
	p := Pred{Op: op}
	switch op {
	case "base":
		p.S = rapid.SampledFrom(nameAlphabet).Draw(rt, label+".s")
	case "ext":
		p.S = rapid.SampledFrom([]string{".txt", ".json", ".lock", ""}).Draw(rt, label+".s")
	case "prefix":
		p.S = rapid.SampledFrom([]string{"a", "a/", "b/", "lib/", "c", ""}).Draw(rt, label+".s")
	case "sizegt":
		p.N = int64(rapid.IntRange(0, 100).Draw(rt, label+".n"))
	case "and", "or":
		a := genPred(rt, depth-1, label+".a")
		b := genPred(rt, depth-1, label+".b")
		p.A, p.B = &a, &b
	case "not":
		a := genPred(rt, depth-1, label+".a")
		p.A = &a
	}
	return p
}

func genExtractors(rt *rapid.T, max int, ties bool) []ExtSpec {
	n := rapid.IntRange(1, max).Draw(rt, "next")
	var out []ExtSpec
	for i := 0; i < n; i++ {
		l := fmt.Sprintf("ex%d", i)
		e := ExtSpec{Name: l, Pred: genPred(rt, 1, l+".pred"), NPkgs: rapid.IntRange(0, 2).Draw(rt, l+".npkgs")}
		if i == 0 && e.NPkgs == 0 {
			e.NPkgs = 1
		}
		if ties {
			e.NameMode = rapid.SampledFrom([]string{"path", "const", "base"}).Draw(rt, l+".nm")
			e.VerMode = rapid.SampledFrom([]string{"digest", "const", "idx"}).Draw(rt, l+".vm")
		}
		e.Buf = rapid.SampledFrom([]int{1, 7, 64, 512}).Draw(rt, l+".buf")
		out = append(out, e)
	}
	return out
}

func genDisk(rt *rapid.T) DiskPlan {
	return DiskPlan{
		Chunk:         rapid.SampledFrom([]int{0, 1, 3, 7, 4096}).Draw(rt, "chunk"),
		EOFWithData:   rapid.Bool().Draw(rt, "eofwithdata"),
		NoReadDirFile: rapid.IntRange(0, 4).Draw(rt, "noreaddirfile") == 4,
		DirBatch:      rapid.SampledFrom([]int{0, 0, 1, 2, 3}).Draw(rt, "dirbatch"),
	}
}

// ruleExcludes reports whether path p (a dir if isDir) or one of its ancestors is excluded by
// a skip rule of cfg - used by generators to avoid requested paths whose expected treatment
// the statement does not fix.
func ruleExcludes(cfg *Config, tree *Node, p string, isDir bool) bool {
	var re *regexp.Regexp
	var gl glob.Glob
	if cfg.SkipRegex != "" {
		re = regexp.MustCompile(cfg.SkipRegex)
	}
	if cfg.SkipGlob != "" {
		gl = glob.MustCompile(cfg.SkipGlob)
	}
	comps := strings.Split(p, "/")
	var gis []giPattern
	w := &refWalker{cfg: cfg, root: tree}
	gis = append(gis, w.gitignoreOf(".")...)
	for k := 1; k <= len(comps); k++ {
		anc := strings.Join(comps[:k], "/")
		ancIsDir := k < len(comps) || isDir
		if ancIsDir {
			for _, d := range cfg.DirsToSkip {
				if d == anc {
					return true
				}
			}
			if re != nil && re.MatchString(anc) {
				return true
			}
			if gl != nil && gl.Match(anc) {
				return true
			}
		}
		if cfg.UseGitignore && ignored(gis, anc, ancIsDir) {
			return true
		}
		if ancIsDir {
			gis = append(gis, w.gitignoreOf(anc)...)
		}
	}
	return false
}

// genScanOptions draws the scan options of C01 for a single-root scenario.
func genScanOptions(rt *rapid.T, cfg *Config) {
	tree := cfg.Roots[0].Tree
	dirs := tree.Dirs()
	var nonRootDirs []string
	for _, d := range dirs {
		if d != "." {
			nonRootDirs = append(nonRootDirs, d)
		}
	}
	cfg.UseGitignore = rapid.Bool().Draw(rt, "usegitignore")
	cfg.ReadSymlinks = rapid.Bool().Draw(rt, "readsymlinks")
	cfg.StoreAbs = rapid.Bool().Draw(rt, "storeabs")
	if rapid.Bool().Draw(rt, "realroot") {
		cfg.Roots[0].Path = "/simroot0"
	}
	if len(nonRootDirs) > 0 && rapid.IntRange(0, 2).Draw(rt, "useskip") == 2 {
		cfg.DirsToSkip = uniq(rapid.SliceOfN(rapid.SampledFrom(nonRootDirs), 1, 2).Draw(rt, "dirstoskip"))
	}
	switch rapid.IntRange(0, 5).Draw(rt, "skipmode") {
	case 3:
		cfg.SkipRegex = rapid.SampledFrom(skipRegexes).Draw(rt, "skipregex")
	case 4:
		cfg.SkipGlob = rapid.SampledFrom(skipGlobs).Draw(rt, "skipglob")
	case 5:
		cfg.SkipRegex = rapid.SampledFrom(skipRegexes).Draw(rt, "skipregex")
		cfg.SkipGlob = rapid.SampledFrom(skipGlobs).Draw(rt, "skipglob")
	}
	// size limit: 0, or around the size of some file
	var sizes []int
	tree.WalkTree(func(p string, x *Node) {
		if x.Kind == "file" {
			sizes = append(sizes, len(x.Content))
		}
	})
	if len(sizes) > 0 && rapid.IntRange(0, 2).Draw(rt, "usemaxsize") == 2 {
		s := rapid.SampledFrom(sizes).Draw(rt, "maxsize.base") + rapid.IntRange(-1, 1).Draw(rt, "maxsize.delta")
		if s < 0 {
			s = 0
		}
		cfg.MaxFileSize = s
	}
	// requested paths
	if rapid.IntRange(0, 2).Draw(rt, "usepaths") == 2 {
		var cands []string
		tree.WalkTree(func(p string, x *Node) {
			if p == "." || x.Kind == "symlink" || (x.Kind != "file" && x.Kind != "dir") {
				return
			}
			if ruleExcludes(cfg, tree, p, x.IsDir()) {
				return
			}
			cands = append(cands, p)
		})
		if len(cands) > 0 {
			cfg.PathsToExtract = uniq(rapid.SliceOfN(rapid.SampledFrom(cands), 1, 3).Draw(rt, "paths"))
			if cfg.UseGitignore && rapid.IntRange(0, 2).Draw(rt, "gitignored-request") == 2 {
				// a requested FILE that only a .gitignore excludes (its dispatch is not asserted, but it
				// must not depend on where in the list the path stands)
				var gi []string
				noGI := *cfg
				noGI.UseGitignore = false
				tree.WalkTree(func(p string, x *Node) {
					if x.Kind == "file" && ruleExcludes(cfg, tree, p, false) && !ruleExcludes(&noGI, tree, p, false) {
						gi = append(gi, p)
					}
				})
				if len(gi) > 0 {
					f := rapid.SampledFrom(gi).Draw(rt, "gitignored-request.path")
					at := rapid.IntRange(0, len(cfg.PathsToExtract)).Draw(rt, "gitignored-request.at")
					ps := append([]string(nil), cfg.PathsToExtract[:at]...)
					ps = append(ps, f)
					cfg.PathsToExtract = uniq(append(ps, cfg.PathsToExtract[at:]...))
				}
			}
			cfg.IgnoreSubDirs = rapid.Bool().Draw(rt, "ignoresubdirs")
			if cfg.IgnoreSubDirs {
				// nested requested pairs under the sub-directory cut-off: reach is ambiguous; drop nested ones
				var keep []string
				for _, p := range cfg.PathsToExtract {
					nested := false
					for _, q := range cfg.PathsToExtract {
						if p != q && strings.HasPrefix(p, q+"/") {
							nested = true
						}
					}
					if !nested {
						keep = append(keep, p)
					}
				}
				cfg.PathsToExtract = keep
			}
		}
	} else if rapid.IntRange(0, 5).Draw(rt, "cutoff-whole-root") == 5 {
		// the sub-directory cut-off without requested paths: only the files directly in the root
		cfg.IgnoreSubDirs = true
	}
}

func uniq(in []string) []string {
	seen := map[string]bool{}
	var out []string
	for _, s := range in {
		if !seen[s] {
			seen[s] = true
			out = append(out, s)
		}
	}
	return out
}

func sortedKeys[V any](m map[string]V) []string {
	var ks []string
	for k := range m {
		ks = append(ks, k)
	}
	sort.Strings(ks)
	return ks
}

func tierThorough() bool { return os.Getenv("VERIF_TIER") == "thorough" }
