package scan

import (
	"encoding/json"
	"fmt"
	"testing"
	"time"

	"pgregory.net/rapid"
	"verif/sim"
)

// C16c - the scan engine under the race detector with the 2 s status ticker firing: whole
// scans in a synctest bubble whose file-system operations take simulated time.
type C16c struct{ rw *sim.RaceWatcher }

func NewC16c() *C16c { return &C16c{rw: sim.NewRaceWatcher()} }

func (*C16c) ID() string { return "C16" }
func (*C16c) Rule() string {
	return "(c) whole scans of rapid-generated trees inside a synctest bubble, every file-system operation sleeping 100-1500 ms of simulated time so that the engine's 2 s status ticker fires during the walk; in 1 of 3 scenarios the context ends at a drawn seam event; binary built with -race; a run is non-trivial when the simulated scan lasted longer than the 2 s reporting interval"
}

func (*C16c) Gen(rt *rapid.T, tier string) any {
	cfg := &Config{CancelAt: -1, Bubble: true}
	nroots := rapid.SampledFrom([]int{1, 1, 2}).Draw(rt, "nroots")
	for i := 0; i < nroots; i++ {
		cfg.Roots = append(cfg.Roots, RootSpec{Tree: genTree(rt, TreeOpts{MaxNodes: 10, MaxDepth: 3, Gitignore: true, MaxSize: 40}, fmt.Sprintf("t%d", i))})
	}
	cfg.Extractors = genExtractors(rt, 3, false)
	cfg.UseGitignore = rapid.Bool().Draw(rt, "usegitignore")
	cfg.Disk = DiskPlan{Chunk: rapid.SampledFrom([]int{0, 7}).Draw(rt, "chunk"), LatencyMs: rapid.IntRange(100, 1500).Draw(rt, "latency_ms")}
	if rapid.IntRange(0, 2).Draw(rt, "cancel") == 2 {
		// the scan's context ends (cancelled or as an expired deadline) at some seam event while the
		// status goroutine is alive
		cfg.CancelAt = rapid.IntRange(0, 60).Draw(rt, "cancel_at")
		cfg.CancelDeadline = rapid.Bool().Draw(rt, "cancel_deadline")
	}
	return cfg
}

func (*C16c) Decode(raw json.RawMessage) (any, error) {
	var c Config
	err := json.Unmarshal(raw, &c)
	return &c, err
}

func (c *C16c) Run(t *testing.T, sc any) *sim.Outcome {
	cfg := sc.(*Config)
	out := &sim.Outcome{}
	if c.rw == nil {
		out.Violate("harness", "harness:no-race-log", "VERIF_RACE_LOG not set: the race detector's reports cannot be attributed")
		return out
	}
	c.rw.Poll() // discard anything not attributable to this run
	obs := Execute(t, cfg)
	out.Executions = 1
	out.HistoryFP = obs.HistFP
	out.SimTime = obs.SimTime
	if obs.Panic != "" {
		out.Violate("panic", "panic", "engine panicked: %s %s", obs.Panic, obs.PanicStack)
	}
	for _, r := range c.rw.Poll() {
		out.Violate("data-race", "data-race:"+r.Key, "race detector report during a scan of {%s} lasting %v of simulated time:\n%s", treesString(cfg), obs.SimTime, r.Text)
		out.NoShrink = true
	}
	out.Nontrivial = obs.SimTime > 2*time.Second
	if out.Nontrivial {
		out.Count("ticker_fired_runs", 1)
		out.Count("ticker_firings", int64(obs.SimTime/(2*time.Second)))
	}
	out.Sample = map[string]any{"trees": treesString(cfg), "latency_ms": cfg.Disk.LatencyMs, "simulated_scan_duration": obs.SimTime.String()}
	return out
}
