package scan

import (
	"crypto/sha256"
	"encoding/hex"
	"errors"
	"fmt"
	"io"
	"io/fs"
	"path"
	"sort"
	"strings"
	"syscall"
	"time"
)

// Event is one seam event.  Seq is the global event sequence number of the run.
type Event struct {
	Seq   int    `json:"seq"`
	Op    string `json:"op"`
	Path  string `json:"path,omitempty"`
	Arg   string `json:"arg,omitempty"`
	Res   string `json:"res,omitempty"`
	Fault bool   `json:"fault,omitempty"`
}

func (e Event) String() string {
	f := ""
	if e.Fault {
		f = " FAULT"
	}
	return fmt.Sprintf("#%d %s %s %s => %s%s", e.Seq, e.Op, e.Path, e.Arg, e.Res, f)
}

// Recorder is the append-only history of a run.  It draws no randomness, reads no real clock
// and takes no lock.  (World S is single-threaded except for the engine's status ticker, which
// never calls a seam.)
type Recorder struct {
	Events  []Event
	OnEvent func(seq int, e *Event) // called before the event takes effect (cancellation instants)
	Limit   int                     // step cap; exceeded => panic(stepCapExceeded)
	occ     map[string]int
}

type stepCapExceeded struct{ n int }

func NewRecorder(limit int) *Recorder { return &Recorder{Limit: limit, occ: map[string]int{}} }

// Add appends an event and returns its index.
func (r *Recorder) Add(op, p, arg, res string) int {
	i := len(r.Events)
	r.Events = append(r.Events, Event{Seq: i, Op: op, Path: p, Arg: arg, Res: res})
	if r.Limit > 0 && i > r.Limit {
		panic(stepCapExceeded{i})
	}
	if r.OnEvent != nil {
		r.OnEvent(i, &r.Events[i])
	}
	return i
}

// Occurrence returns the 1-based count of (op,path) seen so far, including this one.
func (r *Recorder) Occurrence(op, p string) int {
	k := op + "|" + p
	r.occ[k]++
	return r.occ[k]
}

// Fingerprint of the whole history.
func (r *Recorder) Fingerprint() string {
	h := sha256.New()
	for _, e := range r.Events {
		fmt.Fprintf(h, "%d|%s|%s|%s|%s|%v\n", e.Seq, e.Op, e.Path, e.Arg, e.Res, e.Fault)
	}
	return hex.EncodeToString(h.Sum(nil)[:12])
}

// Fault is one planned fault: the k-th occurrence of (Op, Path) fails with Kind.
type Fault struct {
	Op   string `json:"op"` // stat | open | readdir | fstat | read | readdirall
	Path string `json:"path"`
	K    int    `json:"k"`    // 1-based occurrence of (op,path) in the run
	Kind string `json:"kind"` // perm | notexist | eio | eio-partial (read only)
	// Sticky: the fault persists - every occurrence >= K fails (a bad block, a revoked
	// permission), not only the K-th.
	Sticky bool `json:"sticky,omitempty"`
}

func (f Fault) Site() string {
	if f.Sticky {
		return fmt.Sprintf("%s|%s|%d+", f.Op, f.Path, f.K)
	}
	return fmt.Sprintf("%s|%s|%d", f.Op, f.Path, f.K)
}

// DiskPlan is every decision the simulated disk takes during a run.
type DiskPlan struct {
	Chunk         int  `json:"chunk"`                    // max bytes per Read; 0 = whole buffer
	EOFWithData   bool `json:"eof_with_data,omitempty"`  // final Read returns n>0 together with io.EOF
	NoReadDirFile bool `json:"no_readdirfile,omitempty"` // directory handles do not implement fs.ReadDirFile
	// DirBatch > 0: ReadDir(n) hands out at most that many entries per call, however many are asked for
	DirBatch  int     `json:"dir_batch,omitempty"`
	LatencyMs int     `json:"latency_ms,omitempty"` // simulated latency per operation (needs a synctest bubble)
	Faults    []Fault `json:"faults,omitempty"`
}

// SimFS implements scalibrfs.FS over a Node tree.
type SimFS struct {
	Root  *Node
	Rec   *Recorder
	Plan  *DiskPlan
	Fired map[string]int // fault site -> times fired
	Label string         // root label for multi-root runs (prefix in event paths)
	Open_ int            // handles currently open
	mtime time.Time
}

func NewSimFS(root *Node, rec *Recorder, plan *DiskPlan, label string) *SimFS {
	if plan == nil {
		plan = &DiskPlan{}
	}
	return &SimFS{Root: root, Rec: rec, Plan: plan, Fired: map[string]int{}, Label: label, mtime: time.Unix(1700000000, 0)}
}

func (s *SimFS) lp(p string) string {
	if s.Label == "" {
		return p
	}
	return s.Label + ":" + p
}

func (s *SimFS) latency() {
	if s.Plan.LatencyMs > 0 {
		time.Sleep(time.Duration(s.Plan.LatencyMs) * time.Millisecond)
	}
}

func errOf(kind, op, p string) error {
	var e error
	switch kind {
	case "perm":
		e = fs.ErrPermission
	case "notexist":
		e = fs.ErrNotExist
	default:
		e = syscall.EIO
	}
	return &fs.PathError{Op: op, Path: p, Err: e}
}

// fault returns the planned fault for this occurrence of (op,p), if any.
func (s *SimFS) fault(op, p string) *Fault {
	k := s.Rec.Occurrence(op, s.lp(p))
	for i := range s.Plan.Faults {
		f := &s.Plan.Faults[i]
		if f.Op == op && f.Path == s.lp(p) && (f.K == k || (f.Sticky && k > f.K)) {
			s.Fired[f.Site()]++
			return f
		}
	}
	return nil
}

type simInfo struct {
	name string
	n    *Node
	mt   time.Time
}

func (i simInfo) Name() string { return i.name }
func (i simInfo) Size() int64 {
	if i.n.Kind == "file" {
		return int64(len(i.n.Content))
	}
	if i.n.Kind == "symlink" {
		return int64(len(i.n.Target))
	}
	return 0
}
func (i simInfo) Mode() fs.FileMode {
	switch i.n.Kind {
	case "dir":
		return fs.ModeDir | 0o755
	case "symlink":
		return fs.ModeSymlink | 0o777
	case "fifo":
		return fs.ModeNamedPipe | 0o644
	case "device":
		return fs.ModeDevice | fs.ModeCharDevice | 0o600
	case "socket":
		return fs.ModeSocket | 0o755
	}
	if i.n.Exec {
		return 0o755
	}
	return 0o644
}
func (i simInfo) ModTime() time.Time { return i.mt }
func (i simInfo) IsDir() bool        { return i.n.Kind == "dir" }
func (i simInfo) Sys() any           { return nil }

type simEntry struct{ simInfo }

func (e simEntry) Type() fs.FileMode          { return e.Mode().Type() }
func (e simEntry) Info() (fs.FileInfo, error) { return e.simInfo, nil }

func baseName(p string) string {
	if p == "." {
		return "."
	}
	return path.Base(p)
}

// Stat follows symlinks (like os.Stat).
func (s *SimFS) Stat(name string) (fs.FileInfo, error) {
	s.latency()
	if !fs.ValidPath(name) {
		s.Rec.Add("stat", s.lp(name), "", "invalid")
		return nil, &fs.PathError{Op: "stat", Path: name, Err: fs.ErrInvalid}
	}
	if f := s.fault("stat", name); f != nil {
		i := s.Rec.Add("stat", s.lp(name), "", "err:"+f.Kind)
		s.Rec.Events[i].Fault = true
		return nil, errOf(f.Kind, "stat", name)
	}
	n := s.Root.Resolve(name)
	if n == nil {
		s.Rec.Add("stat", s.lp(name), "", "notexist")
		return nil, &fs.PathError{Op: "stat", Path: name, Err: fs.ErrNotExist}
	}
	s.Rec.Add("stat", s.lp(name), "", n.Kind)
	return simInfo{baseName(name), n, s.mtime}, nil
}

// ReadDir is the non-streaming listing (fs.ReadDirFS); sorted by name as the contract demands.
func (s *SimFS) ReadDir(name string) ([]fs.DirEntry, error) {
	s.latency()
	if f := s.fault("readdirall", name); f != nil {
		i := s.Rec.Add("readdirall", s.lp(name), "", "err:"+f.Kind)
		s.Rec.Events[i].Fault = true
		return nil, errOf(f.Kind, "readdir", name)
	}
	n := s.Root.Resolve(name)
	if n == nil {
		s.Rec.Add("readdirall", s.lp(name), "", "notexist")
		return nil, &fs.PathError{Op: "readdir", Path: name, Err: fs.ErrNotExist}
	}
	if !n.IsDir() {
		s.Rec.Add("readdirall", s.lp(name), "", "notdir")
		return nil, &fs.PathError{Op: "readdir", Path: name, Err: syscall.ENOTDIR}
	}
	var out []fs.DirEntry
	for _, ch := range n.Children {
		out = append(out, simEntry{simInfo{ch.Name, ch, s.mtime}})
	}
	sort.Slice(out, func(i, j int) bool { return out[i].Name() < out[j].Name() })
	s.Rec.Add("readdirall", s.lp(name), "", fmt.Sprintf("%d", len(out)))
	return out, nil
}

// Open follows symlinks (like os.Open).
func (s *SimFS) Open(name string) (fs.File, error) {
	s.latency()
	if !fs.ValidPath(name) {
		s.Rec.Add("open", s.lp(name), "", "invalid")
		return nil, &fs.PathError{Op: "open", Path: name, Err: fs.ErrInvalid}
	}
	if f := s.fault("open", name); f != nil {
		i := s.Rec.Add("open", s.lp(name), "", "err:"+f.Kind)
		s.Rec.Events[i].Fault = true
		return nil, errOf(f.Kind, "open", name)
	}
	n := s.Root.Resolve(name)
	if n == nil {
		s.Rec.Add("open", s.lp(name), "", "notexist")
		return nil, &fs.PathError{Op: "open", Path: name, Err: fs.ErrNotExist}
	}
	s.Rec.Add("open", s.lp(name), "", n.Kind)
	s.Open_++
	h := &simHandle{fs: s, n: n, p: name}
	if n.IsDir() {
		if s.Plan.NoReadDirFile {
			return &plainDirHandle{h}, nil
		}
		return &dirHandle{simHandle: h}, nil
	}
	return &fileHandle{simHandle: h}, nil
}

type simHandle struct {
	fs     *SimFS
	n      *Node
	p      string
	closed bool
	off    int64
}

func (h *simHandle) Stat() (fs.FileInfo, error) {
	h.fs.latency()
	if f := h.fs.fault("fstat", h.p); f != nil {
		i := h.fs.Rec.Add("fstat", h.fs.lp(h.p), "", "err:"+f.Kind)
		h.fs.Rec.Events[i].Fault = true
		return nil, errOf(f.Kind, "stat", h.p)
	}
	h.fs.Rec.Add("fstat", h.fs.lp(h.p), "", h.n.Kind)
	return simInfo{baseName(h.p), h.n, h.fs.mtime}, nil
}

func (h *simHandle) Close() error {
	if h.closed {
		h.fs.Rec.Add("close", h.fs.lp(h.p), "", "double-close")
		return fs.ErrClosed
	}
	h.closed = true
	h.fs.Open_--
	h.fs.Rec.Add("close", h.fs.lp(h.p), "", "ok")
	return nil
}

// plainDirHandle is a directory handle that is not an fs.ReadDirFile.
type plainDirHandle struct{ *simHandle }

func (d *plainDirHandle) Read(b []byte) (int, error) {
	return 0, &fs.PathError{Op: "read", Path: d.p, Err: syscall.EISDIR}
}

type dirHandle struct {
	*simHandle
	pos int
}

func (d *dirHandle) Read(b []byte) (int, error) {
	d.fs.Rec.Add("read", d.fs.lp(d.p), "", "eisdir")
	return 0, &fs.PathError{Op: "read", Path: d.p, Err: syscall.EISDIR}
}

func (d *dirHandle) ReadDir(n int) ([]fs.DirEntry, error) {
	d.fs.latency()
	if f := d.fs.fault("readdir", d.p); f != nil {
		i := d.fs.Rec.Add("readdir", d.fs.lp(d.p), fmt.Sprintf("pos=%d", d.pos), "err:"+f.Kind)
		d.fs.Rec.Events[i].Fault = true
		return nil, errOf(f.Kind, "readdir", d.p)
	}
	rest := d.n.Children[d.pos:]
	if n <= 0 {
		n = len(rest)
	} else if len(rest) == 0 {
		d.fs.Rec.Add("readdir", d.fs.lp(d.p), fmt.Sprintf("pos=%d", d.pos), "eof")
		return nil, io.EOF
	}
	if n > len(rest) {
		n = len(rest)
	}
	if b := d.fs.Plan.DirBatch; b > 0 && n > b {
		// a paged listing: fewer entries than asked for although more follow (legal per io/fs)
		n = b
	}
	var out []fs.DirEntry
	for _, ch := range rest[:n] {
		out = append(out, simEntry{simInfo{ch.Name, ch, d.fs.mtime}})
	}
	var names []string
	for _, e := range out {
		names = append(names, e.Name())
	}
	d.fs.Rec.Add("readdir", d.fs.lp(d.p), fmt.Sprintf("pos=%d", d.pos), strings.Join(names, ","))
	d.pos += n
	return out, nil
}

type fileHandle struct {
	*simHandle
	reads int
}

func (f *fileHandle) data() []byte {
	if f.n.Kind == "file" {
		return []byte(f.n.Content)
	}
	return nil
}

func (f *fileHandle) Read(b []byte) (int, error) {
	f.fs.latency()
	if f.closed {
		f.fs.Rec.Add("read", f.fs.lp(f.p), "", "closed")
		return 0, fs.ErrClosed
	}
	if f.n.Kind != "file" {
		f.fs.Rec.Add("read", f.fs.lp(f.p), "", "special")
		return 0, &fs.PathError{Op: "read", Path: f.p, Err: syscall.EINVAL}
	}
	data := f.data()
	if ft := f.fs.fault("read", f.p); ft != nil {
		n := 0
		if ft.Kind == "eio-partial" && f.off < int64(len(data)) && len(b) > 0 {
			n = copy(b[:1], data[f.off:])
			f.off += int64(n)
		}
		i := f.fs.Rec.Add("read", f.fs.lp(f.p), fmt.Sprintf("off=%d", f.off), fmt.Sprintf("err:%s n=%d", ft.Kind, n))
		f.fs.Rec.Events[i].Fault = true
		return n, errOf(ft.Kind, "read", f.p)
	}
	if f.off >= int64(len(data)) {
		f.fs.Rec.Add("read", f.fs.lp(f.p), fmt.Sprintf("off=%d", f.off), "eof")
		return 0, io.EOF
	}
	max := len(b)
	if f.fs.Plan.Chunk > 0 && max > f.fs.Plan.Chunk {
		max = f.fs.Plan.Chunk
	}
	n := copy(b[:max], data[f.off:])
	f.off += int64(n)
	var err error
	if f.fs.Plan.EOFWithData && f.off >= int64(len(data)) {
		err = io.EOF
	}
	f.fs.Rec.Add("read", f.fs.lp(f.p), fmt.Sprintf("off=%d", f.off-int64(n)), fmt.Sprintf("n=%d", n))
	return n, err
}

func (f *fileHandle) ReadAt(b []byte, off int64) (int, error) {
	data := f.data()
	if off < 0 {
		return 0, errors.New("negative offset")
	}
	if off >= int64(len(data)) {
		return 0, io.EOF
	}
	n := copy(b, data[off:])
	f.fs.Rec.Add("readat", f.fs.lp(f.p), fmt.Sprintf("off=%d", off), fmt.Sprintf("n=%d", n))
	if n < len(b) {
		return n, io.EOF
	}
	return n, nil
}

func (f *fileHandle) Seek(offset int64, whence int) (int64, error) {
	var abs int64
	switch whence {
	case io.SeekStart:
		abs = offset
	case io.SeekCurrent:
		abs = f.off + offset
	case io.SeekEnd:
		abs = int64(len(f.data())) + offset
	}
	if abs < 0 {
		return 0, errors.New("negative position")
	}
	f.off = abs
	return abs, nil
}
