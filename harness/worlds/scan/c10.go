package scan

import (
	"encoding/json"
	"fmt"
	"sort"
	"strings"
	"testing"

	"github.com/google/osv-scalibr/plugin"
	"pgregory.net/rapid"
	"verif/sim"
)

// C10 (scan half) - inode limit, file-size limit and cancellation are hard bounds.
// Cancellation is a fault whose site is an instant: EVERY seam event of the fault-free
// history (and "already cancelled before Scan") is tried.
type C10 struct{}

func (C10) ID() string { return "C10" }
func (C10) Rule() string {
	return "scan half: rapid-generated trees (<=12 nodes, 1-3 roots; 1 in 4 single-root scenarios scan 1-3 explicitly requested paths) with 1-3 extractors (several wanting the same file), 0-2 standalone extractors, 0-2 detectors, 1 in 3 with .gitignore files and gitignore handling on; per scenario: inode limits {1, V-1, V, V+1, one drawn value} around the measured visit count V, size limits {1, s-1, s, s+1} for every file size s present, and cancel() delivered at EVERY seam event k of the fault-free history plus 'cancelled before Scan' (1 in 3 scenarios: the context ends as an expired deadline, Err() = DeadlineExceeded); 1 in 4 whole-tree scenarios run on a slow disk under the simulated clock (300-1500 ms per operation) so that the status ticker fires during the walk; image half (world I): layer archives with files of size L-1, L, L+1, 2L for MaxFileBytes=L; evaluation = one scan / one image load; non-trivial = work (an extraction on another file or a plugin run) remained after at least one cancellation instant; distinct = distinct scenario JSON"
}

func (C10) Gen(rt *rapid.T, tier string) any {
	cfg := &Config{CancelAt: -1}
	nroots := rapid.SampledFrom([]int{1, 1, 1, 2, 3}).Draw(rt, "nroots")
	// 1 in 3: .gitignore files in the trees and gitignore handling on (the limits and the
	// cancellation then cut the walk short while the per-directory pattern stack is in use)
	cfg.UseGitignore = rapid.IntRange(0, 2).Draw(rt, "usegitignore") == 2
	for i := 0; i < nroots; i++ {
		tree := genTree(rt, TreeOpts{MaxNodes: 12 / nroots, MaxDepth: 3, Symlinks: true, Specials: true, Gitignore: cfg.UseGitignore, MaxSize: 60}, fmt.Sprintf("t%d", i))
		cfg.Roots = append(cfg.Roots, RootSpec{Tree: tree})
	}
	cfg.Extractors = genExtractors(rt, 3, false)
	ns := rapid.IntRange(0, 2).Draw(rt, "nstandalone")
	for i := 0; i < ns; i++ {
		cfg.Standalone = append(cfg.Standalone, StandSpec{Name: fmt.Sprintf("s%d", i), NPkgs: rapid.IntRange(0, 2).Draw(rt, fmt.Sprintf("s%d.n", i))})
	}
	nd := rapid.IntRange(0, 2).Draw(rt, "ndetectors")
	for i := 0; i < nd; i++ {
		cfg.Detectors = append(cfg.Detectors, DetSpec{Name: fmt.Sprintf("d%d", i), Findings: []FindingSpec{{Ref: fmt.Sprintf("ADV-%d", i)}}})
	}
	cfg.Disk = genDisk(rt)
	cfg.ReadSymlinks = rapid.Bool().Draw(rt, "readsymlinks")
	if nroots == 1 && rapid.IntRange(0, 3).Draw(rt, "usepaths") == 3 {
		// limits and cancellation also bind scans of explicitly requested paths
		var cands []string
		cfg.Roots[0].Tree.WalkTree(func(p string, x *Node) {
			if p != "." && (x.Kind == "file" || x.Kind == "dir") {
				cands = append(cands, p)
			}
		})
		if len(cands) > 0 {
			cfg.PathsToExtract = uniq(rapid.SliceOfN(rapid.SampledFrom(cands), 1, 3).Draw(rt, "paths"))
		}
	}
	cfg.MaxInodes = rapid.IntRange(1, 14).Draw(rt, "inodelimit.extra")
	cfg.CancelDeadline = rapid.IntRange(0, 2).Draw(rt, "cancel-deadline") == 2
	if len(cfg.PathsToExtract) == 0 && rapid.IntRange(0, 3).Draw(rt, "slowdisk") == 3 {
		// a slow disk under the simulated clock: the walk outlasts the status-reporting interval,
		// so the limits must also hold while the status goroutine shares the walk context
		cfg.Disk.LatencyMs = rapid.IntRange(300, 1500).Draw(rt, "latency_ms")
		cfg.Bubble = true
	}
	return cfg
}

func (C10) Decode(raw json.RawMessage) (any, error) {
	var c Config
	err := json.Unmarshal(raw, &c)
	return &c, err
}

func countOp(events []Event, op string) int {
	n := 0
	for _, e := range events {
		if e.Op == op {
			n++
		}
	}
	return n
}

func resultDigest(o *Obs) string {
	p := append([]string(nil), o.Pkgs...)
	sort.Strings(p)
	var st []string
	for _, s := range o.Statuses {
		st = append(st, fmt.Sprintf("%s:%v", s.Name, s.Status))
	}
	sort.Strings(st)
	f := append([]string(nil), o.Findings...)
	sort.Strings(f)
	return fmt.Sprintf("overall=%v pkgs=%v statuses=%v findings=%v", o.Overall, p, st, f)
}

func (C10) Run(t *testing.T, sc any) *sim.Outcome {
	cfg := sc.(*Config)
	out := &sim.Outcome{}
	extra := cfg.MaxInodes
	base := cfg.Clone()
	base.MaxInodes = 0
	base.MaxFileSize = 0
	base.CancelAt = -1
	base.Cancels = nil
	h0 := Execute(t, base)
	out.Executions = 1
	out.HistoryFP = h0.HistFP
	ctxs := fmt.Sprintf("trees {%s} [%s]", treesString(cfg), configSummary(cfg))
	if h0.Panic != "" || h0.StepCap {
		out.Violate("panic", "panic:unlimited", "unlimited run failed: %s %s; %s", h0.Panic, h0.PanicStack, ctxs)
		return out
	}
	V := countOp(h0.Events, "inode")
	treeInodes := 0
	for _, r := range cfg.Roots {
		treeInodes += r.Tree.Count()
	}
	replayOnly := len(cfg.Cancels) > 0

	// ---- inode limit
	if !replayOnly {
		limits := uniqInts([]int{1, V - 1, V, V + 1, extra, treeInodes - 1, treeInodes})
		for _, L := range limits {
			if L <= 0 {
				continue
			}
			c := base.Clone()
			c.MaxInodes = L
			o := Execute(t, c)
			out.Executions++
			out.Count("inode_limit_runs", 1)
			if o.Panic != "" {
				out.Violate("panic", "panic:inodelimit", "panic with MaxInodes=%d: %s %s; %s", L, o.Panic, o.PanicStack, ctxs)
				continue
			}
			visits := countOp(o.Events, "inode")
			if visits > L {
				out.Violate("inode-limit-exceeded", "inode-limit-exceeded", "MaxInodes=%d but %d inodes were processed (unlimited: %d); %s", L, visits, V, ctxs)
			}
			// no Extract may start once the limit-th visit's file is done: every extract-begin must
			// follow at most L inode events
			seen := 0
			for _, e := range o.Events {
				if e.Op == "inode" {
					seen++
				}
				if e.Op == "extract-begin" && seen > L {
					out.Violate("extract-after-inode-limit", "extract-after-inode-limit", "MaxInodes=%d: extraction of %s started after %d visits; %s", L, e.Path, seen, ctxs)
				}
			}
			if V > L && o.Overall != plugin.ScanStatusFailed {
				out.Violate("inode-limit-not-failed", "inode-limit-not-failed", "tree holds %d inodes, MaxInodes=%d, but overall status is %v; %s", V, L, o.Overall, ctxs)
			}
			// independent of what the engine counts: the trees hold treeInodes entries (directories,
			// files, symlinks, special files; only without gitignore handling, the one skip rule this check configures)
			if len(cfg.PathsToExtract) == 0 && !cfg.UseGitignore && treeInodes > L && o.Overall != plugin.ScanStatusFailed {
				out.Violate("inode-limit-not-failed", "inode-limit-not-failed:tree-count", "the scanned trees hold %d inodes (the engine counted %d), MaxInodes=%d, but overall status is %v; %s", treeInodes, V, L, o.Overall, ctxs)
			}
			if V <= L {
				if o.Overall != h0.Overall || resultDigest(o) != resultDigest(h0) {
					out.Violate("inode-limit-changes-result", "inode-limit-changes-result", "MaxInodes=%d >= %d inodes but the result differs from the unlimited scan:\n %s\n %s; %s", L, V, resultDigest(o), resultDigest(h0), ctxs)
				}
			}
		}
	}

	// ---- size limit
	if !replayOnly {
		sizes := map[int]bool{}
		for _, r := range cfg.Roots {
			r.Tree.WalkTree(func(p string, x *Node) {
				if x.Kind == "file" {
					sizes[len(x.Content)] = true
				}
			})
		}
		lim := map[int]bool{1: true}
		for s := range sizes {
			for _, d := range []int{-1, 0, 1} {
				if s+d > 0 {
					lim[s+d] = true
				}
			}
		}
		var ls []int
		for l := range lim {
			ls = append(ls, l)
		}
		sort.Ints(ls)
		if len(ls) > 10 {
			ls = ls[:10]
		}
		for _, L := range ls {
			c := base.Clone()
			c.MaxFileSize = L
			o := Execute(t, c)
			out.Executions++
			out.Count("size_limit_runs", 1)
			if o.Panic != "" {
				out.Violate("panic", "panic:sizelimit", "panic with MaxFileSize=%d: %s %s; %s", L, o.Panic, o.PanicStack, ctxs)
				continue
			}
			for _, x := range o.Extracts {
				if x.InfoSize > int64(L) || x.Bytes > L {
					out.Violate("oversize-extract", "oversize-extract", "MaxFileSize=%d but extractor %s was handed %s:%s (Info.Size=%d, %d bytes readable); %s", L, x.Ext, x.Root, x.Path, x.InfoSize, x.Bytes, ctxs)
				}
			}
			// files at or below the limit: as in the unlimited run
			want := map[string]int{}
			for _, x := range h0.Extracts {
				if x.Bytes <= L {
					want[RefKey(x.Ext, x.Root, x.Path)]++
				}
			}
			got := extractCounts(o)
			for _, k := range sortedKeys(want) {
				if got[k] != want[k] {
					out.Violate("size-limit-drops-small-file", "size-limit-drops-small-file", "MaxFileSize=%d: %s extracted %d time(s), unlimited scan %d; %s", L, k, got[k], want[k], ctxs)
				}
			}
		}
	}

	// ---- cancellation at every instant
	var instants []int
	if replayOnly {
		instants = cfg.Cancels
	} else {
		instants = append(instants, -2)
		for k := range h0.Events {
			instants = append(instants, k)
		}
	}
	workRemainedSomewhere := false
	for _, k := range instants {
		c := base.Clone()
		c.CancelAt = k
		o := Execute(t, c)
		out.Executions++
		out.Count("cancel_instants", 1)
		nv := len(out.Violations)
		where := "before Scan"
		if k >= 0 && k < len(h0.Events) {
			where = h0.Events[k].String()
		}
		if o.Panic != "" {
			out.Violate("panic", "panic:cancel", "panic when cancelled at %s: %s %s; %s", where, o.Panic, o.PanicStack, ctxs)
		} else {
			// the file being handled at the cancel instant
			f := "\x00none"
			if k >= 0 {
				for i := 0; i <= k && i < len(o.Events); i++ {
					if o.Events[i].Op == "inode" {
						f = o.Events[i].Path
					}
				}
				if k < len(o.Events) && o.Events[k].Op == "inode" {
					// cancelled inside the per-inode hook itself: nothing of that file has been looked
					// at yet, it is a "further file" like any other
					f = "\x00none"
				}
			}
			for i, e := range o.Events {
				if i <= k {
					continue
				}
				switch e.Op {
				case "extract-begin":
					if unlabel(e.Path) != f {
						out.Violate("post-cancel-extract", "post-cancel-extract", "cancelled at %s (file being handled: %q) but extraction of %s by %s started afterwards; %s", where, f, e.Path, e.Arg, ctxs)
					}
				case "standalone-begin":
					out.Violate("post-cancel-plugin", "post-cancel-plugin:standalone", "cancelled at %s but standalone extractor %s ran afterwards; %s", where, e.Arg, ctxs)
				case "detector-begin":
					out.Violate("post-cancel-plugin", "post-cancel-plugin:detector", "cancelled at %s but detector %s ran afterwards; %s", where, e.Arg, ctxs)
				}
			}
			// did work remain in the fault-free history after k?
			remained := false
			for i, e := range h0.Events {
				if i <= k {
					continue
				}
				switch e.Op {
				case "extract-begin":
					if unlabel(e.Path) != f {
						remained = true
					}
				case "standalone-begin", "detector-begin":
					remained = true
				}
			}
			if remained {
				workRemainedSomewhere = true
				out.Count("cancel_with_work_remaining", 1)
				if o.Overall != plugin.ScanStatusFailed {
					out.Violate("cancel-not-failed", "cancel-not-failed", "cancelled at %s with work remaining, but overall status is %v; %s", where, o.Overall, ctxs)
				}
			}
		}
		if len(out.Violations) > nv && out.ReplayScenario == nil {
			r := base.Clone()
			r.MaxInodes = extra
			r.Cancels = []int{k}
			out.ReplayScenario = r
		}
	}
	out.Nontrivial = workRemainedSomewhere
	out.Sample = map[string]any{"trees": treesString(cfg), "config": configSummary(cfg), "inodes": V, "cancel_instants": len(instants), "plugins": fmt.Sprintf("%d standalone, %d detectors", len(cfg.Standalone), len(cfg.Detectors))}
	return out
}

func treesString(cfg *Config) string {
	var s []string
	for _, r := range cfg.Roots {
		s = append(s, r.Tree.String())
	}
	return strings.Join(s, " || ")
}

func uniqInts(in []int) []int {
	seen := map[int]bool{}
	var out []int
	for _, x := range in {
		if !seen[x] {
			seen[x] = true
			out = append(out, x)
		}
	}
	return out
}
