package scan

import (
	"context"
	"crypto/sha256"
	"encoding/hex"
	"errors"
	"fmt"
	"io"
	iofs "io/fs"
	"path"
	"sort"
	"strings"
	"time"

	"github.com/google/osv-scalibr/detector"
	"github.com/google/osv-scalibr/extractor"
	"github.com/google/osv-scalibr/extractor/filesystem"
	"github.com/google/osv-scalibr/extractor/standalone"
	scalibrfs "github.com/google/osv-scalibr/fs"
	"github.com/google/osv-scalibr/inventory"
	"github.com/google/osv-scalibr/packageindex"
	"github.com/google/osv-scalibr/plugin"
	"github.com/google/osv-scalibr/purl"
	"github.com/google/osv-scalibr/stats"
)

// Pred is a scenario-defined "file required" predicate.
type Pred struct {
	Op string `json:"op"`          // all | none | base | ext | prefix | exec | sizegt | and | or | not
	S  string `json:"s,omitempty"` // operand for base/ext/prefix
	N  int64  `json:"n,omitempty"` // operand for sizegt
	A  *Pred  `json:"a,omitempty"`
	B  *Pred  `json:"b,omitempty"`
}

// UsesStat reports whether evaluating the predicate may call Stat.
func (p *Pred) UsesStat() bool {
	if p == nil {
		return false
	}
	switch p.Op {
	case "exec", "sizegt":
		return true
	case "and", "or":
		return p.A.UsesStat() || p.B.UsesStat()
	case "not":
		return p.A.UsesStat()
	}
	return false
}

// statFn abstracts "stat of the file under consideration".
type statFn func() (size int64, exec bool, err error)

// Eval evaluates the predicate.  Short-circuits like Go: the reference walker and the real
// plugin share this evaluator (the predicate is input, not code under test).
func (p *Pred) Eval(filePath string, st statFn) bool {
	switch p.Op {
	case "all":
		return true
	case "none":
		return false
	case "base":
		return path.Base(filePath) == p.S
	case "ext":
		return path.Ext(filePath) == p.S
	case "prefix":
		return strings.HasPrefix(filePath, p.S)
	case "exec":
		_, x, err := st()
		return err == nil && x
	case "sizegt":
		sz, _, err := st()
		return err == nil && sz > p.N
	case "and":
		return p.A.Eval(filePath, st) && p.B.Eval(filePath, st)
	case "or":
		return p.A.Eval(filePath, st) || p.B.Eval(filePath, st)
	case "not":
		return !p.A.Eval(filePath, st)
	}
	return false
}

func (p *Pred) String() string {
	switch p.Op {
	case "base", "ext", "prefix":
		return p.Op + "=" + p.S
	case "sizegt":
		return fmt.Sprintf("size>%d", p.N)
	case "and", "or":
		return "(" + p.A.String() + " " + p.Op + " " + p.B.String() + ")"
	case "not":
		return "!" + p.A.String()
	}
	return p.Op
}

// ExtSpec defines a harness filesystem extractor.
type ExtSpec struct {
	Name       string `json:"name"`
	Pred       Pred   `json:"pred"`
	NPkgs      int    `json:"npkgs"`                 // packages returned per extracted file
	NameMode   string `json:"name_mode,omitempty"`   // "path" (default) | "const" | "base"
	VerMode    string `json:"ver_mode,omitempty"`    // "digest" (default) | "const" | "idx"
	NoPURL     bool   `json:"no_purl,omitempty"`     // ToPURL returns nil for odd-indexed packages
	PurlType   string `json:"purl_type,omitempty"`   // purl type of its packages (default "generic")
	Partial    bool   `json:"partial,omitempty"`     // on a read error: return what was built so far together with the error
	Buf        int    `json:"buf,omitempty"`         // read buffer size (default 64)
	FailPanics bool   `json:"fail_panics,omitempty"` // the FailOn failure is a panic instead of an error
	FailOn     *Pred  `json:"fail_on,omitempty"`     // Extract returns an error (and nothing else) for files matching this
	ExtraLoc   bool   `json:"extra_loc,omitempty"`   // packages carry a second location, emitted in non-lexical order
}

// ExtractRec records one Extract call as seen at the plugin seam.
type ExtractRec struct {
	Ext           string
	Root          string // root label
	Path          string
	InfoSize      int64
	InfoMode      string
	Bytes         int
	Digest        string
	Err           string
	NPkgs         int
	Pkgs          []string // identity strings of the packages returned
	SeqBegin      int
	SeqEnd        int
	ScanRoot      string // input.Root as given by the engine
	CtxErrAtStart bool
}

// Probe is shared state of all plugins of one run.
type Probe struct {
	Rec      *Recorder
	Extracts []*ExtractRec
	FSLabel  map[scalibrfs.FS]string
	DetSeen  map[string][]string // detector -> what its index answered (canonical)
	DetCalls map[string]int
	StCalls  map[string]int
}

type simExtractor struct {
	spec  *ExtSpec
	probe *Probe
}

func (e *simExtractor) Name() string                       { return e.spec.Name }
func (e *simExtractor) Version() int                       { return 1 }
func (e *simExtractor) Requirements() *plugin.Capabilities { return &plugin.Capabilities{} }

func pkgPurlType(spec string) string {
	if spec == "" {
		return "generic"
	}
	return spec
}

type pkgMeta struct {
	Digest string
	Idx    int
	NoPURL bool
	Type   string
}

func (e *simExtractor) ToPURL(p *extractor.Package) *purl.PackageURL {
	m, ok := p.Metadata.(*pkgMeta)
	if ok && m.NoPURL {
		return nil
	}
	t := "generic"
	if ok {
		t = m.Type
	}
	return &purl.PackageURL{Type: t, Name: p.Name, Version: p.Version}
}
func (e *simExtractor) Ecosystem(p *extractor.Package) string { return "sim" }

func (e *simExtractor) FileRequired(api filesystem.FileAPI) bool {
	p := api.Path()
	r := e.spec.Pred.Eval(p, func() (int64, bool, error) {
		info, err := api.Stat()
		if err != nil {
			return 0, false, err
		}
		return info.Size(), info.Mode()&0o111 != 0, nil
	})
	e.probe.Rec.Add("required?", p, e.spec.Name, fmt.Sprint(r))
	return r
}

func digest(b []byte) string {
	h := sha256.Sum256(b)
	return hex.EncodeToString(h[:4])
}

// makePkgs is the deterministic output function (extractor, path, content digest) -> packages.
func makePkgs(spec *ExtSpec, filePath string, dig string, n int) []*extractor.Package {
	var out []*extractor.Package
	for i := 0; i < n; i++ {
		var name, ver string
		switch spec.NameMode {
		case "const":
			name = "pkg"
		case "base":
			name = "p-" + path.Base(filePath)
		default:
			name = "p-" + filePath
		}
		if spec.NPkgs > 1 && spec.NameMode != "const" {
			name += fmt.Sprintf("#%d", i)
		}
		switch spec.VerMode {
		case "const":
			ver = "1.0"
		case "idx":
			ver = fmt.Sprintf("1.%d", i)
		default:
			ver = "0." + dig
		}
		locs := []string{filePath}
		if spec.ExtraLoc {
			locs = []string{filePath, "0aux/" + spec.Name}
		}
		out = append(out, &extractor.Package{
			Name: name, Version: ver, Locations: locs,
			Metadata: &pkgMeta{Digest: dig, Idx: i, NoPURL: spec.NoPURL && i%2 == 1, Type: pkgPurlType(spec.PurlType)},
		})
	}
	return out
}

func pkgIdent(p *extractor.Package) string {
	ex := "<nil>"
	if p.Extractor != nil {
		ex = p.Extractor.Name()
	}
	locs := append([]string(nil), p.Locations...)
	sort.Strings(locs)
	md := ""
	if m, ok := p.Metadata.(*pkgMeta); ok {
		md = fmt.Sprintf("%s/%d/%v", m.Digest, m.Idx, m.NoPURL)
	}
	return fmt.Sprintf("%s|%s|%s|%s|%s", p.Name, p.Version, ex, strings.Join(locs, ","), md)
}

func (e *simExtractor) Extract(ctx context.Context, input *filesystem.ScanInput) (inventory.Inventory, error) {
	rec := &ExtractRec{Ext: e.spec.Name, Path: input.Path, ScanRoot: input.Root, Root: e.probe.FSLabel[input.FS], CtxErrAtStart: ctx.Err() != nil}
	if input.Info != nil {
		rec.InfoSize = input.Info.Size()
		rec.InfoMode = input.Info.Mode().String()
	}
	rec.SeqBegin = e.probe.Rec.Add("extract-begin", labelled(rec.Root, input.Path), e.spec.Name, "")
	e.probe.Extracts = append(e.probe.Extracts, rec)
	bufN := e.spec.Buf
	if bufN <= 0 {
		bufN = 64
	}
	buf := make([]byte, bufN)
	var content []byte
	var rerr error
	for {
		n, err := input.Reader.Read(buf)
		content = append(content, buf[:n]...)
		if err != nil {
			if !errors.Is(err, io.EOF) {
				rerr = err
			}
			break
		}
	}
	rec.Bytes = len(content)
	rec.Digest = digest(content)
	var inv inventory.Inventory
	if e.spec.FailPanics && e.spec.FailOn != nil && rerr == nil && e.spec.FailOn.Eval(input.Path, func() (int64, bool, error) { return int64(len(content)), false, nil }) {
		// the scenario-defined failure is a panic inside Extract (the engine contains it and
		// reports it as this extractor's error for this file)
		rec.Err = "scenario-defined panic"
		rec.SeqEnd = e.probe.Rec.Add("extract-end", labelled(rec.Root, input.Path), e.spec.Name, "pkgs=0 err=true panic")
		panic(fmt.Sprintf("sim extractor %s: scenario-defined panic on %s", e.spec.Name, input.Path))
	}
	if e.spec.FailOn != nil && rerr == nil && e.spec.FailOn.Eval(input.Path, func() (int64, bool, error) { return int64(len(content)), false, nil }) {
		rerr = errors.New("scenario-defined parse failure")
		rec.Err = rerr.Error()
		rec.SeqEnd = e.probe.Rec.Add("extract-end", labelled(rec.Root, input.Path), e.spec.Name, "pkgs=0 err=true")
		return inv, fmt.Errorf("sim extractor %s: %s: %w", e.spec.Name, input.Path, rerr)
	}
	if rerr == nil || e.spec.Partial {
		inv.Packages = makePkgs(e.spec, input.Path, rec.Digest, e.spec.NPkgs)
	}
	for _, p := range inv.Packages {
		rec.Pkgs = append(rec.Pkgs, fmt.Sprintf("%s|%s", p.Name, p.Version))
	}
	rec.NPkgs = len(inv.Packages)
	if rerr != nil {
		rec.Err = rerr.Error()
		rerr = fmt.Errorf("sim extractor %s: read %s: %w", e.spec.Name, input.Path, rerr)
	}
	rec.SeqEnd = e.probe.Rec.Add("extract-end", labelled(rec.Root, input.Path), e.spec.Name, fmt.Sprintf("pkgs=%d err=%v", rec.NPkgs, rerr != nil))
	return inv, rerr
}

// StandSpec defines a harness standalone extractor.
type StandSpec struct {
	Name    string `json:"name"`
	NPkgs   int    `json:"npkgs"`
	Err     bool   `json:"err,omitempty"`
	ErrKind string `json:"err_kind,omitempty"` // as DetSpec.ErrKind
}

type simStandalone struct {
	spec  *StandSpec
	probe *Probe
}

func (e *simStandalone) Name() string                       { return e.spec.Name }
func (e *simStandalone) Version() int                       { return 2 }
func (e *simStandalone) Requirements() *plugin.Capabilities { return &plugin.Capabilities{} }
func (e *simStandalone) ToPURL(p *extractor.Package) *purl.PackageURL {
	return &purl.PackageURL{Type: "standalone", Name: p.Name, Version: p.Version}
}
func (e *simStandalone) Ecosystem(p *extractor.Package) string { return "sim" }
func (e *simStandalone) Extract(ctx context.Context, input *standalone.ScanInput) (inventory.Inventory, error) {
	e.probe.StCalls[e.spec.Name]++
	e.probe.Rec.Add("standalone-begin", "", e.spec.Name, fmt.Sprintf("ctxerr=%v", ctx.Err() != nil))
	if e.spec.Err {
		switch e.spec.ErrKind {
		case "canceled":
			return inventory.Inventory{}, fmt.Errorf("standalone failure %s: %w", e.spec.Name, context.Canceled)
		case "notexist":
			return inventory.Inventory{}, fmt.Errorf("standalone failure %s: %w", e.spec.Name, iofs.ErrNotExist)
		}
		return inventory.Inventory{}, errors.New("standalone failure " + e.spec.Name)
	}
	var inv inventory.Inventory
	for i := 0; i < e.spec.NPkgs; i++ {
		inv.Packages = append(inv.Packages, &extractor.Package{Name: fmt.Sprintf("sa-%s-%d", e.spec.Name, i), Version: "2.0", Locations: []string{"standalone:" + e.spec.Name}})
	}
	return inv, nil
}

// FindingSpec defines one finding a harness detector returns.
type FindingSpec struct {
	Ref   string `json:"ref"`              // advisory reference; "" with NoID => nil ID
	Body  int    `json:"body"`             // advisory body variant (title differs)
	NoAdv bool   `json:"no_adv,omitempty"` // finding without advisory
	NoID  bool   `json:"no_id,omitempty"`  // advisory without ID
	Extra string `json:"extra,omitempty"`
	// PreTag: the detector hands the finding over with Detectors already filled in with this
	// name (a stale tag, e.g. of an object it reuses); the result must carry its own name only.
	PreTag string `json:"pre_tag,omitempty"`
}

// DetSpec defines a harness detector.
type DetSpec struct {
	Name     string        `json:"name"`
	Findings []FindingSpec `json:"findings,omitempty"`
	Err      bool          `json:"err,omitempty"`
	// ErrKind: "" plain error | "canceled" (wraps context.Canceled) | "deadline" (wraps
	// context.DeadlineExceeded) | "notexist" (wraps fs.ErrNotExist): whatever it wraps, a detector
	// that returns an error failed.
	ErrKind string `json:"err_kind,omitempty"`
}

type simDetector struct {
	spec  *DetSpec
	probe *Probe
	types []string // purl types to query
	names []string // names to query
}

func (d *simDetector) Name() string                       { return d.spec.Name }
func (d *simDetector) Version() int                       { return 3 }
func (d *simDetector) Requirements() *plugin.Capabilities { return &plugin.Capabilities{} }
func (d *simDetector) RequiredExtractors() []string       { return nil }

func (d *simDetector) Scan(ctx context.Context, root *scalibrfs.ScanRoot, px *packageindex.PackageIndex) ([]*detector.Finding, error) {
	d.probe.DetCalls[d.spec.Name]++
	d.probe.Rec.Add("detector-begin", "", d.spec.Name, fmt.Sprintf("ctxerr=%v", ctx.Err() != nil))
	var seen []string
	add := func(q string, ps []*extractor.Package) {
		var ids []string
		for _, p := range ps {
			ids = append(ids, pkgIdent(p))
		}
		sort.Strings(ids)
		seen = append(seen, q+" => "+strings.Join(ids, " ; "))
	}
	add("all", px.GetAll())
	for _, t := range d.types {
		add("type:"+t, px.GetAllOfType(t))
		for _, n := range d.names {
			add("specific:"+t+":"+n, px.GetSpecific(n, t))
		}
	}
	d.probe.DetSeen[d.spec.Name] = seen
	var fs []*detector.Finding
	for _, f := range d.spec.Findings {
		fd := &detector.Finding{Extra: f.Extra}
		if f.PreTag != "" {
			fd.Detectors = []string{f.PreTag}
		}
		if !f.NoAdv {
			adv := advisoryVariant(f.Ref, f.Body)
			if f.NoID {
				adv.ID = nil
			}
			fd.Adv = adv
		}
		fs = append(fs, fd)
	}
	var err error
	if d.spec.Err {
		switch d.spec.ErrKind {
		case "canceled":
			err = fmt.Errorf("detector failure %s: %w", d.spec.Name, context.Canceled)
		case "deadline":
			err = fmt.Errorf("detector failure %s: %w", d.spec.Name, context.DeadlineExceeded)
		case "notexist":
			err = fmt.Errorf("detector failure %s: %w", d.spec.Name, iofs.ErrNotExist)
		default:
			err = errors.New("detector failure " + d.spec.Name)
		}
	}
	return fs, err
}

// collector is the recording stats.Collector.
type collector struct {
	stats.NoopCollector
	rec *Recorder
}

func (c *collector) AfterInodeVisited(p string) { c.rec.Add("inode", p, "", "") }
func (c *collector) AfterExtractorRun(name string, _ time.Duration, err error) {
	c.rec.Add("after-extract", "", name, fmt.Sprintf("err=%v", err != nil))
}
func (c *collector) AfterDetectorRun(name string, _ time.Duration, err error) {
	c.rec.Add("after-detector", "", name, fmt.Sprintf("err=%v", err != nil))
}
func (c *collector) AfterScan(_ time.Duration, st *plugin.ScanStatus) {
	c.rec.Add("after-scan", "", "", fmt.Sprint(st.Status))
}

func labelled(root, p string) string {
	if root == "" {
		return p
	}
	return root + ":" + p
}

// advisoryVariant builds the advisory for a reference; variants differ from variant 0 in
// exactly one (possibly nested) field.
func advisoryVariant(ref string, v int) *detector.Advisory {
	adv := &detector.Advisory{
		ID:   &detector.AdvisoryID{Publisher: "SIM", Reference: ref},
		Type: detector.TypeVulnerability, Title: "title-" + ref, Description: "desc-" + ref, Recommendation: "rec-" + ref,
		Sev: &detector.Severity{Severity: detector.SeverityHigh, CVSSV2: &detector.CVSS{BaseScore: 5}, CVSSV3: &detector.CVSS{BaseScore: 7, TemporalScore: 6}},
	}
	switch v {
	case 1:
		adv.Title += "-v1"
	case 2:
		adv.Description += "-v2"
	case 3:
		adv.Recommendation += "-v3"
	case 4:
		adv.Sev.Severity = detector.SeverityLow
	case 5:
		adv.Sev.CVSSV3.BaseScore = 9.5
	case 6:
		adv.Type = detector.TypeCISFinding
	case 7:
		adv.Sev = nil
	case 8:
		adv.Sev.CVSSV2.EnvironmentalScore = 1
	case 9:
		adv.ID.Publisher = "OTHER"
	}
	return adv
}

func advisoryString(a *detector.Advisory) string {
	if a == nil {
		return "<nil>"
	}
	id := "<nil>"
	if a.ID != nil {
		id = a.ID.Publisher + "/" + a.ID.Reference
	}
	sev := "<nil>"
	if a.Sev != nil {
		sev = fmt.Sprintf("%d", a.Sev.Severity)
		if a.Sev.CVSSV2 != nil {
			sev += fmt.Sprintf("/v2:%v", *a.Sev.CVSSV2)
		}
		if a.Sev.CVSSV3 != nil {
			sev += fmt.Sprintf("/v3:%v", *a.Sev.CVSSV3)
		}
	}
	return fmt.Sprintf("%s|%d|%s|%s|%s|%s", id, a.Type, a.Title, a.Description, a.Recommendation, sev)
}
