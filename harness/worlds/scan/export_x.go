package scan

// Helpers exported for world X (harness/worlds/extract), which reuses SimFS / Node / Recorder.

// IsStepCap reports whether a recovered panic value is the Recorder's step-cap signal.
func IsStepCap(r any) bool {
	_, ok := r.(stepCapExceeded)
	return ok
}

// PanicFrames keeps the library frames of a stack trace (see run.go).
func PanicFrames(stack string) string { return panicFrames(stack) }
