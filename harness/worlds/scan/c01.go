package scan

import (
	"encoding/json"
	"fmt"
	"path"
	"sort"
	"strings"
	"testing"

	"github.com/google/osv-scalibr/plugin"
	"pgregory.net/rapid"
	"verif/sim"
)

// C01 - every required file is extracted exactly once, nothing else is.  Fault-free.
type C01 struct{}

func (C01) ID() string { return "C01" }
func (C01) Rule() string {
	return "rapid-generated trees (<=14 nodes, depth<=4: dirs, files, symlinks, special files, .gitignore at any depth) x scan options (skip list/regex/glob alone and together, gitignore, requested paths, sub-dir cut-off, size limit, symlink reading, absolute paths, virtual/real root, a second real root whose path is a string prefix of the first with the skip list spelled under it, the cut-off without requested paths, requested files that only a .gitignore excludes (dispatch not asserted); with >= 2 requested paths the scan is repeated with the list reversed and must extract the same) x 1-4 extractors with arbitrary predicates x seeded disk behaviour (listing order, chunking, EOF style, dir-handle flavour); non-trivial = at least one expected extraction AND at least one candidate file that must not be extracted; distinct = distinct scenario JSON"
}

func (C01) Gen(rt *rapid.T, tier string) any {
	cfg := &Config{CancelAt: -1}
	tree := genTree(rt, TreeOpts{MaxNodes: 14, MaxDepth: 4, Symlinks: true, Specials: true, Gitignore: true}, "t")
	cfg.Roots = []RootSpec{{Tree: tree}}
	cfg.Extractors = genExtractors(rt, 4, false)
	genScanOptions(rt, cfg)
	cfg.Disk = genDisk(rt)
	if len(cfg.PathsToExtract) > 0 {
		// a requested path that does not exist is legal input; the other requested paths must
		// still be served
		if rapid.IntRange(0, 5).Draw(rt, "missingpath") == 5 {
			at := rapid.IntRange(0, len(cfg.PathsToExtract)).Draw(rt, "missingpath.at")
			ps := append([]string(nil), cfg.PathsToExtract[:at]...)
			ps = append(ps, "no/such/path")
			cfg.PathsToExtract = append(ps, cfg.PathsToExtract[at:]...)
		}
	} else if len(cfg.DirsToSkip) == 0 && rapid.IntRange(0, 4).Draw(rt, "tworoots") == 4 {
		// "per scan root": a second root whose relative paths may coincide with the first's
		t2 := genTree(rt, TreeOpts{MaxNodes: 8, MaxDepth: 3, Symlinks: true, Specials: true, Gitignore: true}, "t2")
		r2 := RootSpec{Tree: t2}
		if cfg.Roots[0].Path != "" {
			r2.Path = "/simroot1"
		}
		cfg.Roots = append(cfg.Roots, r2)
	} else if len(cfg.DirsToSkip) > 0 && cfg.Roots[0].Path != "" && rapid.IntRange(0, 2).Draw(rt, "siblingroot") == 2 {
		// the skip list is spelled under the second of two real roots whose directory names share
		// a string prefix (/simroot, /simroot0); Scan refuses requested paths with several roots,
		// so this is the only multi-root use of absolute paths
		t0 := genTree(rt, TreeOpts{MaxNodes: 5, MaxDepth: 2, Gitignore: true}, "t0")
		cfg.Roots = []RootSpec{{Tree: t0, Path: "/simroot"}, cfg.Roots[0]}
		cfg.PathsRoot = 1
	}
	return cfg
}

func (C01) Decode(raw json.RawMessage) (any, error) {
	var c Config
	err := json.Unmarshal(raw, &c)
	return &c, err
}

// extractCounts turns the recorded Extract calls into a multiset keyed like RefKey.
func extractCounts(obs *Obs) map[string]int {
	m := map[string]int{}
	for _, e := range obs.Extracts {
		m[RefKey(e.Ext, e.Root, e.Path)]++
	}
	return m
}

func configSummary(cfg *Config) string {
	var parts []string
	if len(cfg.DirsToSkip) > 0 {
		parts = append(parts, "skip="+strings.Join(cfg.DirsToSkip, ","))
	}
	if cfg.SkipRegex != "" {
		parts = append(parts, "regex="+cfg.SkipRegex)
	}
	if cfg.SkipGlob != "" {
		parts = append(parts, "glob="+cfg.SkipGlob)
	}
	if cfg.UseGitignore {
		parts = append(parts, "gitignore")
	}
	if len(cfg.PathsToExtract) > 0 {
		parts = append(parts, "paths="+strings.Join(cfg.PathsToExtract, ","))
	}
	if cfg.IgnoreSubDirs {
		parts = append(parts, "ignoresubdirs")
	}
	if cfg.MaxFileSize > 0 {
		parts = append(parts, fmt.Sprintf("maxsize=%d", cfg.MaxFileSize))
	}
	if cfg.MaxInodes > 0 {
		parts = append(parts, fmt.Sprintf("maxinodes=%d", cfg.MaxInodes))
	}
	if cfg.ReadSymlinks {
		parts = append(parts, "readsymlinks")
	}
	if cfg.StoreAbs {
		parts = append(parts, "storeabs")
	}
	if cfg.ErrorOnFSErrors {
		parts = append(parts, "fatal-fs-errors")
	}
	var ex []string
	for _, e := range cfg.Extractors {
		ex = append(ex, e.Name+":"+e.Pred.String())
	}
	parts = append(parts, "extractors=["+strings.Join(ex, " ")+"]")
	return strings.Join(parts, " ")
}

// ruleTags lists which option families are active, for violation keys.
func ruleTags(cfg *Config) string {
	var t []string
	if len(cfg.DirsToSkip) > 0 {
		t = append(t, "skiplist")
	}
	if cfg.SkipRegex != "" {
		t = append(t, "regex")
	}
	if cfg.SkipGlob != "" {
		t = append(t, "glob")
	}
	if cfg.UseGitignore {
		t = append(t, "gitignore")
	}
	if len(cfg.PathsToExtract) > 0 {
		t = append(t, "paths")
	}
	if cfg.IgnoreSubDirs {
		t = append(t, "subdircut")
	}
	if cfg.MaxFileSize > 0 {
		t = append(t, "maxsize")
	}
	if cfg.ReadSymlinks {
		t = append(t, "symlinks")
	}
	return strings.Join(t, "+")
}

// checkFaultFree evaluates the C01 oracle on one fault-free run.
func checkFaultFree(cfg *Config, obs *Obs, ref *RefOut, out *sim.Outcome) {
	tags := ruleTags(cfg)
	if obs.Panic != "" {
		out.Violate("panic", "panic:"+tags, "engine panicked: %s [%s]", obs.Panic, obs.PanicStack)
		return
	}
	if obs.StepCap {
		out.Violate("nontermination", "nontermination:"+tags, "step cap exceeded after %d seam events", len(obs.Events))
		return
	}
	got := extractCounts(obs)
	for _, k := range sortedKeys(ref.Extracts) {
		if ref.Soft[k] {
			continue
		}
		if got[k] < ref.Extracts[k] {
			out.Violate("missing-extract", "missing-extract:"+tags, "expected %d extraction(s) of %s, saw %d [%s]", ref.Extracts[k], k, got[k], configSummary(cfg))
		} else if got[k] > ref.Extracts[k] {
			out.Violate("duplicate-extract", "duplicate-extract:"+tags, "expected %d extraction(s) of %s, saw %d [%s]", ref.Extracts[k], k, got[k], configSummary(cfg))
		}
	}
	for _, k := range sortedKeys(got) {
		if ref.Soft[k] {
			continue
		}
		if _, ok := ref.Extracts[k]; !ok {
			out.Violate("extra-extract", "extra-extract:"+tags, "extraction of %s must not happen [%s]", k, configSummary(cfg))
		}
	}
	// every Open closed
	if obs.OpenLeak != 0 {
		out.Violate("handle-leak", "handle-leak", "%d file handle(s) left open", obs.OpenLeak)
	}
	// one successful open of a regular file per Extract (besides .gitignore parsing)
	opens := 0
	for _, e := range obs.Events {
		if e.Op == "open" && e.Res == "file" && path.Base(unlabel(e.Path)) != ".gitignore" {
			opens++
		}
	}
	exts := 0
	for _, e := range obs.Extracts {
		if path.Base(e.Path) != ".gitignore" && e.InfoMode != "" && !strings.HasPrefix(e.InfoMode, "d") {
			exts++
		}
	}
	if opens != exts {
		out.Violate("open-extract-mismatch", "open-extract-mismatch", "%d successful file opens but %d Extract calls", opens, exts)
	}
	// inventory = union of what the invocations returned, attributed to the producer
	var want []string
	for _, e := range obs.Extracts {
		ri := 0
		if e.Root != "" {
			fmt.Sscanf(e.Root, "r%d", &ri)
		}
		for _, p := range e.Pkgs {
			loc := e.Path
			if cfg.StoreAbs && cfg.Roots[ri].Path != "" {
				loc = cfg.Roots[ri].Path + "/" + e.Path
			}
			want = append(want, p+"|"+e.Ext+"|"+loc)
		}
	}
	var have []string
	for _, p := range obs.RawPkgs {
		have = append(have, fmt.Sprintf("%s|%s|%s|%s", p.Name, p.Version, p.Extractor, strings.Join(p.Locations, ",")))
	}
	sort.Strings(want)
	sort.Strings(have)
	if strings.Join(want, "\n") != strings.Join(have, "\n") {
		out.Violate("inventory-mismatch", "inventory-mismatch:"+tags, "inventory differs from the union of returned packages:\n want %v\n have %v", want, have)
	}
	// statuses
	{
		seen := map[string]int{}
		for _, s := range obs.Statuses {
			seen[s.Name]++
			if !ref.SoftExt[s.Name] && s.Status != plugin.ScanStatusSucceeded {
				out.Violate("status-mismatch", "status-mismatch:"+tags, "plugin %s reported status %v (%s) in a fault-free scan", s.Name, s.Status, s.Reason)
			}
		}
		for _, e := range cfg.Extractors {
			if seen[e.Name] != 1 {
				out.Violate("status-count", "status-count:"+tags, "extractor %s has %d status entries", e.Name, seen[e.Name])
			}
		}
		if obs.Overall != plugin.ScanStatusSucceeded && len(ref.Soft) == 0 {
			out.Violate("overall-status", "overall-status:"+tags, "fault-free scan reported overall status %v: %s", obs.Overall, obs.OverallMsg)
		}
	}
}

// unlabel strips the "rN:" root label multi-root runs put in front of event paths.
func unlabel(p string) string {
	if i := strings.Index(p, ":"); i > 0 && p[0] == 'r' {
		return p[i+1:]
	}
	return p
}

func under(p, dir string) bool {
	return dir == "." || p == dir || strings.HasPrefix(p, dir+"/")
}

func (C01) Run(t *testing.T, sc any) *sim.Outcome {
	cfg := sc.(*Config)
	out := &sim.Outcome{}
	ref := RefScan(cfg)
	obs := Execute(t, cfg)
	out.Executions = 1
	out.HistoryFP = obs.HistFP
	checkFaultFree(cfg, obs, ref, out)

	// candidates that must not be extracted
	cands := 0
	for _, r := range cfg.Roots {
		r.Tree.WalkTree(func(p string, x *Node) {
			if x.Kind == "file" || x.Kind == "symlink" {
				cands += len(cfg.Extractors)
			}
		})
	}
	nExp := 0
	for _, v := range ref.Extracts {
		nExp += v
	}
	out.Nontrivial = nExp > 0 && cands > len(ref.Extracts)
	out.Count("expected_extractions", int64(nExp))
	if len(ref.Soft) > 0 {
		out.Count("probe_soft_symlink_dispatch", 1)
	}
	if cfg.UseGitignore {
		out.Count("probe_gitignore_on", 1)
	}
	if len(cfg.PathsToExtract) > 0 {
		out.Count("probe_requested_paths", 1)
	}

	// sub-directory law: requesting a directory the whole-tree scan reaches yields the whole-tree
	// extractions restricted to it.
	if len(out.Violations) == 0 && len(cfg.PathsToExtract) == 0 && len(cfg.Roots) == 1 && obs.Panic == "" {
		whole := extractCounts(obs)
		for _, d := range ref.Reached {
			if d == "." {
				continue
			}
			sub := cfg.Clone()
			sub.PathsToExtract = []string{d}
			so := Execute(t, sub)
			out.Executions++
			out.Count("subdir_law_runs", 1)
			got := extractCounts(so)
			want := map[string]int{}
			for k, v := range whole {
				parts := strings.SplitN(k, "|", 3)
				if under(parts[2], d) {
					want[k] = v
				}
			}
			for _, k := range sortedKeys(want) {
				if got[k] != want[k] && !ref.Soft[k] {
					out.Violate("subdir-law", "subdir-law:"+ruleTags(cfg), "requesting %q: %s extracted %d time(s), whole-tree scan restricted to it has %d [%s]", d, k, got[k], want[k], configSummary(cfg))
				}
			}
			for _, k := range sortedKeys(got) {
				if _, ok := want[k]; !ok && !ref.Soft[k] {
					out.Violate("subdir-law", "subdir-law:"+ruleTags(cfg), "requesting %q: %s extracted but not by the whole-tree scan [%s]", d, k, configSummary(cfg))
				}
			}
		}
	}
	// the order of the request list decides nothing
	if len(cfg.PathsToExtract) >= 2 && len(out.Violations) == 0 && obs.Panic == "" {
		rev := cfg.Clone()
		for i, j := 0, len(rev.PathsToExtract)-1; i < j; i, j = i+1, j-1 {
			rev.PathsToExtract[i], rev.PathsToExtract[j] = rev.PathsToExtract[j], rev.PathsToExtract[i]
		}
		ro := Execute(t, rev)
		out.Executions++
		out.Count("request_order_runs", 1)
		a, b := extractCounts(obs), extractCounts(ro)
		for _, k := range sortedKeys(a) {
			if a[k] != b[k] {
				out.Violate("request-order-dependent", "request-order-dependent:"+ruleTags(cfg), "%s is extracted %d time(s) with requested paths %v and %d time(s) with the list reversed [%s]", k, a[k], cfg.PathsToExtract, b[k], configSummary(cfg))
			}
		}
		for _, k := range sortedKeys(b) {
			if _, ok := a[k]; !ok {
				out.Violate("request-order-dependent", "request-order-dependent:"+ruleTags(cfg), "%s is extracted %d time(s) with the request list reversed and not at all with %v [%s]", k, b[k], cfg.PathsToExtract, configSummary(cfg))
			}
		}
	}
	out.Sample = map[string]any{"tree": cfg.Roots[cfg.PathsRoot].Tree.String(), "config": configSummary(cfg), "expected_extractions": sortedKeys(ref.Extracts), "seam_events": len(obs.Events)}
	return out
}
