package scan

import (
	"path"
	"regexp"
	"sort"
	"strings"

	"github.com/gobwas/glob"
)

// RefScan is the reference walker, written from the statement of C01 and the loop described
// in docs/new_extractor.md - not from filesystem.go.  It computes which (extractor, path)
// extractions a fault-free scan must perform.

// giPattern is one line of a .gitignore in the unambiguous dialect the generator emits:
// literal names, "*.ext", "name/", "/anchored", "dir/name".
type giPattern struct {
	dir      string   // directory holding the .gitignore ("." for root)
	segs     []string // pattern split on "/" (leading "/" removed)
	anchored bool     // contained a slash other than a trailing one
	dirOnly  bool
}

func parseGitignore(dir, content string) []giPattern {
	var ps []giPattern
	for _, line := range strings.Split(content, "\n") {
		if strings.HasPrefix(line, "#") || strings.TrimSpace(line) == "" {
			continue
		}
		line = strings.TrimRight(line, " ")
		p := giPattern{dir: dir}
		if strings.HasSuffix(line, "/") {
			p.dirOnly = true
			line = strings.TrimSuffix(line, "/")
		}
		if strings.Contains(line, "/") {
			p.anchored = true
			line = strings.TrimPrefix(line, "/")
		}
		p.segs = strings.Split(line, "/")
		ps = append(ps, p)
	}
	return ps
}

func segMatch(pat, name string) bool {
	ok, err := path.Match(pat, name)
	return err == nil && ok
}

// matches reports whether the pattern excludes the entry at root-relative path p (isDir says
// what p itself is), either because p matches or because one of its ancestor directories
// (below the pattern's directory) matches.
func (g giPattern) matches(p string, isDir bool) bool {
	rel := p
	if g.dir != "." {
		if !strings.HasPrefix(p, g.dir+"/") {
			return false
		}
		rel = strings.TrimPrefix(p, g.dir+"/")
	}
	comps := strings.Split(rel, "/")
	if !g.anchored {
		for i, c := range comps {
			if !segMatch(g.segs[0], c) {
				continue
			}
			last := i == len(comps)-1
			if g.dirOnly && last && !isDir {
				continue
			}
			return true
		}
		return false
	}
	if len(comps) < len(g.segs) {
		return false
	}
	for i, s := range g.segs {
		if !segMatch(s, comps[i]) {
			return false
		}
	}
	if len(comps) == len(g.segs) {
		return !g.dirOnly || isDir
	}
	return true // p lies below the matched entry, which therefore is a directory
}

// RefKey identifies an extraction: extractor | root label | path.
func RefKey(ext, root, p string) string { return ext + "|" + root + "|" + p }

// RefOut is the expected behaviour of a fault-free scan.
type RefOut struct {
	Extracts map[string]int   // RefKey -> expected number of Extract calls
	Soft     map[string]bool  // RefKey of dispatch attempts whose outcome the statement does not fix (dangling / directory symlinks)
	SoftExt  map[string]bool  // extractors whose status is not asserted because of Soft entries
	Reached  []string         // directories reached by a whole-tree walk (root 0), for the sub-directory law
	Sizes    map[string]int64 // root|path -> size handed over
}

type refWalker struct {
	cfg   *Config
	out   *RefOut
	regex *regexp.Regexp
	glob  glob.Glob
	root  *Node
	label string
	// softAll: every dispatch of the file being handled is "not fixed by the statement"
	softAll bool
}

func RefScan(cfg *Config) *RefOut {
	out := &RefOut{Extracts: map[string]int{}, Soft: map[string]bool{}, SoftExt: map[string]bool{}, Sizes: map[string]int64{}}
	w := &refWalker{cfg: cfg, out: out}
	if cfg.SkipRegex != "" {
		w.regex = regexp.MustCompile(cfg.SkipRegex)
	}
	if cfg.SkipGlob != "" {
		w.glob = glob.MustCompile(cfg.SkipGlob)
	}
	for i, r := range cfg.Roots {
		w.root = r.Tree
		w.label = rootLabel(i)
		if len(cfg.Roots) == 1 {
			w.label = ""
		}
		if len(cfg.PathsToExtract) == 0 {
			w.dir(".", nil, i == 0)
			continue
		}
		for _, p := range cfg.PathsToExtract {
			n := r.Tree.Resolve(p)
			if n == nil {
				continue
			}
			if n.IsDir() {
				// gitignore files of the ancestors inside the scan root apply
				var gis []giPattern
				if cfg.UseGitignore && p != "." {
					comps := strings.Split(p, "/")
					for k := 0; k < len(comps); k++ {
						anc := "."
						if k > 0 {
							anc = strings.Join(comps[:k], "/")
						}
						gis = append(gis, w.gitignoreOf(anc)...)
					}
				}
				w.dir(p, gis, false)
			} else {
				// A requested FILE that a .gitignore (of an ancestor inside the root) excludes: the
				// statement can be read both ways (the skip rule excludes it / the explicit request
				// reaches it), so its dispatch is not asserted - only that it does not depend on the
				// position of the path in the request list (C01's request-order check).
				if cfg.UseGitignore && p != "." {
					comps := strings.Split(p, "/")
					var gis []giPattern
					ign := false
					for k := 0; k < len(comps); k++ {
						anc := "."
						if k > 0 {
							anc = strings.Join(comps[:k], "/")
						}
						gis = append(gis, w.gitignoreOf(anc)...)
						if ignored(gis, strings.Join(comps[:k+1], "/"), k+1 < len(comps)) {
							ign = true
						}
					}
					w.softAll = ign
				}
				w.file(p, n, nil)
				w.softAll = false
			}
		}
	}
	sort.Strings(out.Reached)
	return out
}

func (w *refWalker) gitignoreOf(dir string) []giPattern {
	d := w.root.Lookup(dir)
	if d == nil {
		return nil
	}
	for _, ch := range d.Children {
		if ch.Name == ".gitignore" && ch.Kind == "file" {
			return parseGitignore(dir, ch.Content)
		}
	}
	return nil
}

func ignored(gis []giPattern, p string, isDir bool) bool {
	for _, g := range gis {
		if g.matches(p, isDir) {
			return true
		}
	}
	return false
}

func (w *refWalker) dirSkipped(p string, gis []giPattern) bool {
	for _, d := range w.cfg.DirsToSkip {
		if d == p {
			return true
		}
	}
	if w.cfg.IgnoreSubDirs {
		// "non-recursive mode: only the files in the top-level directory": without requested
		// paths the top-level directory is the scan root
		req := len(w.cfg.PathsToExtract) == 0 && p == "."
		for _, q := range w.cfg.PathsToExtract {
			if q == p {
				req = true
			}
		}
		if !req {
			return true
		}
	}
	if w.cfg.UseGitignore && p != "." && ignored(gis, p, true) {
		return true
	}
	if w.regex != nil && w.regex.MatchString(p) {
		return true
	}
	if w.glob != nil && w.glob.Match(p) {
		return true
	}
	return false
}

func (w *refWalker) dir(p string, gis []giPattern, note bool) {
	if w.dirSkipped(p, gis) {
		return
	}
	if note {
		w.out.Reached = append(w.out.Reached, p)
	}
	if w.cfg.UseGitignore {
		gis = append(append([]giPattern(nil), gis...), w.gitignoreOf(p)...)
	}
	d := w.root.Lookup(p)
	for _, ch := range d.Children {
		cp := ch.Name
		if p != "." {
			cp = p + "/" + ch.Name
		}
		if ch.IsDir() {
			w.dir(cp, gis, note)
		} else {
			w.file(cp, ch, gis)
		}
	}
}

func (w *refWalker) file(p string, n *Node, gis []giPattern) {
	switch n.Kind {
	case "file":
	case "symlink":
		if !w.cfg.ReadSymlinks {
			return
		}
	default:
		return // special files are never dispatched
	}
	if w.cfg.UseGitignore && ignored(gis, p, false) {
		return
	}
	target := n
	if n.Kind == "symlink" {
		target = w.root.Resolve(p)
	}
	st := func() (int64, bool, error) {
		if target == nil {
			return 0, false, errNotExist
		}
		switch target.Kind {
		case "file":
			return int64(len(target.Content)), target.Exec, nil
		case "dir":
			return 0, true, nil
		}
		return 0, false, nil
	}
	soft := target == nil || target.Kind != "file" || w.softAll
	for i := range w.cfg.Extractors {
		e := &w.cfg.Extractors[i]
		if !e.Pred.Eval(p, st) {
			continue
		}
		if w.cfg.MaxFileSize > 0 {
			sz, _, err := st()
			if err != nil {
				// the size of a required dangling link cannot be taken: outcome not fixed by the statement
				w.out.Soft[RefKey(e.Name, w.label, p)] = true
				w.out.SoftExt[e.Name] = true
				continue
			}
			if sz > int64(w.cfg.MaxFileSize) {
				return
			}
		}
		k := RefKey(e.Name, w.label, p)
		if soft {
			w.out.Soft[k] = true
			w.out.SoftExt[e.Name] = true
			continue
		}
		w.out.Extracts[k]++
		w.out.Sizes[w.label+"|"+p] = int64(len(target.Content))
	}
}

type notExistErr struct{}

func (notExistErr) Error() string { return "file does not exist" }

var errNotExist = notExistErr{}
