package scan

import (
	"context"
	"fmt"
	"regexp"
	"runtime/debug"
	"sort"
	"strings"
	"sync"
	"testing"
	"time"

	"github.com/gobwas/glob"
	scalibr "github.com/google/osv-scalibr"
	"github.com/google/osv-scalibr/detector"
	"github.com/google/osv-scalibr/extractor/filesystem"
	"github.com/google/osv-scalibr/extractor/standalone"
	scalibrfs "github.com/google/osv-scalibr/fs"
	"github.com/google/osv-scalibr/plugin"
	"verif/sim"
)

// RootSpec is one scan root.
type RootSpec struct {
	Tree *Node  `json:"tree"`
	Path string `json:"path,omitempty"` // "" = virtual root; else an absolute path label such as "/simroot0"
}

// Config is a complete scan scenario: input + configuration + every simulator decision.
type Config struct {
	Roots          []RootSpec  `json:"roots"`
	Extractors     []ExtSpec   `json:"extractors"`
	Standalone     []StandSpec `json:"standalone,omitempty"`
	Detectors      []DetSpec   `json:"detectors,omitempty"`
	DirsToSkip     []string    `json:"dirs_to_skip,omitempty"` // root-relative
	SkipRegex      string      `json:"skip_regex,omitempty"`
	SkipGlob       string      `json:"skip_glob,omitempty"`
	UseGitignore   bool        `json:"use_gitignore,omitempty"`
	PathsToExtract []string    `json:"paths_to_extract,omitempty"` // root-relative
	// ExactInodeLimit (C09): the fault runs use MaxInodes = the number of inodes the fault-free run
	// visited, i.e. a limit the tree exactly fits in: a contained fault must not push the scan over it.
	ExactInodeLimit bool `json:"exact_inode_limit,omitempty"`
	// PathsRoot is the index of the root under which DirsToSkip and PathsToExtract are spelled
	// as absolute paths when that root has a Path (default: the first root).
	PathsRoot       int      `json:"paths_root,omitempty"`
	IgnoreSubDirs   bool     `json:"ignore_sub_dirs,omitempty"`
	MaxFileSize     int      `json:"max_file_size,omitempty"`
	MaxInodes       int      `json:"max_inodes,omitempty"`
	ReadSymlinks    bool     `json:"read_symlinks,omitempty"`
	StoreAbs        bool     `json:"store_abs,omitempty"`
	ErrorOnFSErrors bool     `json:"error_on_fs_errors,omitempty"`
	Disk            DiskPlan `json:"disk"`
	// CancelAt: -1 = never; -2 = context already cancelled before Scan; k >= 0 = cancel() is
	// called by the simulator when seam event k is recorded.
	CancelAt int `json:"cancel_at"`
	// CancelDeadline: the cancellation is an expired deadline (Err() == context.DeadlineExceeded)
	CancelDeadline bool `json:"cancel_deadline,omitempty"`
	Bubble         bool `json:"bubble,omitempty"` // run inside a synctest bubble (needed for latency)
	// Plans, when non-empty, restricts a fault/cancel-enumerating check to exactly these plans
	// (set in replay files).
	Plans   [][]Fault `json:"plans,omitempty"`
	Cancels []int     `json:"cancels,omitempty"`
	stepCap int
}

func (c *Config) Clone() *Config {
	d := *c
	d.Roots = nil
	for _, r := range c.Roots {
		d.Roots = append(d.Roots, RootSpec{Tree: r.Tree.Clone(), Path: r.Path})
	}
	d.Extractors = append([]ExtSpec(nil), c.Extractors...)
	d.Standalone = append([]StandSpec(nil), c.Standalone...)
	d.Detectors = append([]DetSpec(nil), c.Detectors...)
	d.DirsToSkip = append([]string(nil), c.DirsToSkip...)
	d.PathsToExtract = append([]string(nil), c.PathsToExtract...)
	d.Disk.Faults = append([]Fault(nil), c.Disk.Faults...)
	return &d
}

// Obs is everything observed in one run.
type Obs struct {
	Events      []Event
	HistFP      string
	Extracts    []*ExtractRec
	Pkgs        []string // identity strings in result order
	Findings    []string
	Statuses    []StatusObs
	Overall     plugin.ScanStatusEnum
	OverallMsg  string
	Fired       map[string]int
	DetSeen     map[string][]string
	DetCalls    map[string]int
	StCalls     map[string]int
	OpenLeak    int
	Panic       string // non-empty if the engine panicked (value + site)
	Hang        bool   // the scan never returned (Panic describes it)
	PanicStack  string
	StepCap     bool
	SimTime     time.Duration
	RawPkgs     []PkgObs
	RawFindings []FindingObs
}

type StatusObs struct {
	Name    string
	Version int
	Status  plugin.ScanStatusEnum
	Reason  string
}

type PkgObs struct {
	Name, Version, Extractor string
	Locations                []string
	HasPURL                  bool
	PurlType                 string
	Meta                     string
}

type FindingObs struct {
	Ref       string
	HasAdv    bool
	HasID     bool
	Title     string
	Adv       string
	Extra     string
	Detectors []string
}

func rootLabel(i int) string { return fmt.Sprintf("r%d", i) }

// absIn renders a root-relative path the way the caller must pass it for this root flavour.
func absIn(root RootSpec, rel string) string {
	if root.Path == "" {
		return rel
	}
	if rel == "." {
		return root.Path
	}
	return root.Path + "/" + rel
}

// Execute runs the real scan engine on the scenario.  Pure function of cfg.
func Execute(t *testing.T, cfg *Config) *Obs {
	if cfg.Bubble || cfg.Disk.LatencyMs > 0 {
		var obs *Obs
		sim.Bubble(t, func() {
			start := time.Now()
			obs = execute(cfg)
			obs.SimTime = time.Since(start)
		})
		return obs
	}
	// A scan of these small in-memory trees takes microseconds; one that has not returned after a
	// minute of wall-clock time is blocked for good (e.g. on a lock that was never released).  The
	// blocked goroutine is abandoned; nothing it holds is shared with later executions.
	done := make(chan *Obs, 1)
	go func() { done <- execute(cfg) }()
	select {
	case obs := <-done:
		return obs
	case <-time.After(hangTimeout):
		return &Obs{Panic: fmt.Sprintf("hang: the scan did not return within %v of wall-clock time (blocked for good; outside a bubble no simulated clock can detect the deadlock)", hangTimeout), Hang: true}
	}
}

var hangTimeout = 60 * time.Second

func execute(cfg *Config) (obs *Obs) {
	nodes := 0
	for _, r := range cfg.Roots {
		nodes += r.Tree.Count()
	}
	limit := 4000 + 600*nodes*(len(cfg.Extractors)+1)*(len(cfg.PathsToExtract)+1)
	if cfg.stepCap > 0 {
		limit = cfg.stepCap
	}
	rec := NewRecorder(limit)
	probe := &Probe{Rec: rec, FSLabel: map[scalibrfs.FS]string{}, DetSeen: map[string][]string{}, DetCalls: map[string]int{}, StCalls: map[string]int{}}
	obs = &Obs{}
	var fss []*SimFS
	sc := &scalibr.ScanConfig{
		Capabilities:      &plugin.Capabilities{OS: plugin.OSLinux, Network: plugin.NetworkOffline},
		UseGitignore:      cfg.UseGitignore,
		IgnoreSubDirs:     cfg.IgnoreSubDirs,
		MaxFileSize:       cfg.MaxFileSize,
		MaxInodes:         cfg.MaxInodes,
		ReadSymlinks:      cfg.ReadSymlinks,
		StoreAbsolutePath: cfg.StoreAbs,
		ErrorOnFSErrors:   cfg.ErrorOnFSErrors,
		Stats:             &collector{rec: rec},
	}
	for i, r := range cfg.Roots {
		plan := cfg.Disk
		sfs := NewSimFS(r.Tree, rec, &plan, rootLabel(i))
		if len(cfg.Roots) == 1 {
			sfs.Label = ""
		}
		fss = append(fss, sfs)
		probe.FSLabel[sfs] = sfs.Label
		sc.ScanRoots = append(sc.ScanRoots, &scalibrfs.ScanRoot{FS: sfs, Path: r.Path})
	}
	for _, d := range cfg.DirsToSkip {
		sc.DirsToSkip = append(sc.DirsToSkip, absIn(cfg.Roots[cfg.PathsRoot], d))
	}
	for _, p := range cfg.PathsToExtract {
		sc.PathsToExtract = append(sc.PathsToExtract, absIn(cfg.Roots[cfg.PathsRoot], p))
	}
	if cfg.SkipRegex != "" {
		sc.SkipDirRegex = regexp.MustCompile(cfg.SkipRegex)
	}
	if cfg.SkipGlob != "" {
		sc.SkipDirGlob = glob.MustCompile(cfg.SkipGlob)
	}
	typeSet := map[string]bool{"generic": true, "standalone": true}
	for i := range cfg.Extractors {
		sc.FilesystemExtractors = append(sc.FilesystemExtractors, filesystem.Extractor(&simExtractor{spec: &cfg.Extractors[i], probe: probe}))
		typeSet[pkgPurlType(cfg.Extractors[i].PurlType)] = true
	}
	for i := range cfg.Standalone {
		sc.StandaloneExtractors = append(sc.StandaloneExtractors, standalone.Extractor(&simStandalone{spec: &cfg.Standalone[i], probe: probe}))
	}
	var types []string
	for k := range typeSet {
		types = append(types, k)
	}
	sort.Strings(types)
	for i := range cfg.Detectors {
		sc.Detectors = append(sc.Detectors, detector.Detector(&simDetector{spec: &cfg.Detectors[i], probe: probe, types: types, names: []string{"pkg", "p-a", "sa-s0-0"}}))
	}

	ctx, cancel := context.WithCancel(context.Background())
	defer cancel()
	if cfg.CancelDeadline {
		// the same instants, but the context ends the way an expired deadline ends it
		dc := &deadlineCtx{Context: context.Background(), done: make(chan struct{})}
		ctx, cancel = dc, dc.fire
	}
	if cfg.CancelAt == -2 {
		cancel()
	} else if cfg.CancelAt >= 0 {
		rec.OnEvent = func(seq int, e *Event) {
			if seq == cfg.CancelAt {
				cancel()
				e.Arg += " [CANCEL]"
			}
		}
	}

	var res *scalibr.ScanResult
	func() {
		defer func() {
			if r := recover(); r != nil {
				if sc, ok := r.(stepCapExceeded); ok {
					_ = sc
					obs.StepCap = true
					return
				}
				if rec.Limit > 0 && len(rec.Events) > rec.Limit {
					// the step-cap panic was replaced by a secondary panic in a deferred function of the engine
					obs.StepCap = true
					return
				}
				obs.Panic = fmt.Sprintf("%v", r)
				obs.PanicStack = panicFrames(string(debug.Stack()))
			}
		}()
		res = scalibr.New().Scan(ctx, sc)
	}()

	obs.Events = rec.Events
	obs.HistFP = rec.Fingerprint()
	obs.Extracts = probe.Extracts
	obs.DetSeen = probe.DetSeen
	obs.DetCalls = probe.DetCalls
	obs.StCalls = probe.StCalls
	obs.Fired = map[string]int{}
	for _, f := range fss {
		for k, v := range f.Fired {
			obs.Fired[k] += v
		}
		obs.OpenLeak += f.Open_
	}
	if res == nil {
		return obs
	}
	obs.Overall = res.Status.Status
	obs.OverallMsg = res.Status.FailureReason
	for _, p := range res.Inventory.Packages {
		obs.Pkgs = append(obs.Pkgs, pkgIdent(p))
		po := PkgObs{Name: p.Name, Version: p.Version, Locations: append([]string(nil), p.Locations...)}
		if p.Extractor != nil {
			po.Extractor = p.Extractor.Name()
			if u := p.Extractor.ToPURL(p); u != nil {
				po.HasPURL = true
				po.PurlType = u.Type
			}
		}
		if m, ok := p.Metadata.(*pkgMeta); ok {
			po.Meta = fmt.Sprintf("%s/%d", m.Digest, m.Idx)
		}
		obs.RawPkgs = append(obs.RawPkgs, po)
	}
	for _, f := range res.Inventory.Findings {
		fo := FindingObs{Extra: f.Extra, Detectors: append([]string(nil), f.Detectors...)}
		if f.Adv != nil {
			fo.HasAdv = true
			fo.Title = f.Adv.Title
			fo.Adv = advisoryString(f.Adv)
			if f.Adv.ID != nil {
				fo.HasID = true
				fo.Ref = f.Adv.ID.Reference
			}
		}
		obs.RawFindings = append(obs.RawFindings, fo)
		obs.Findings = append(obs.Findings, fmt.Sprintf("%s|%s|%s|%s", fo.Ref, fo.Adv, fo.Extra, strings.Join(fo.Detectors, ",")))
	}
	for _, s := range res.PluginStatus {
		so := StatusObs{Name: s.Name, Version: s.Version}
		if s.Status != nil {
			so.Status = s.Status.Status
			so.Reason = s.Status.FailureReason
		}
		obs.Statuses = append(obs.Statuses, so)
	}
	return obs
}

// panicFrames keeps the library frames of a stack trace.
func panicFrames(st string) string {
	var keep []string
	lines := strings.Split(st, "\n")
	for i, l := range lines {
		if strings.HasPrefix(l, "github.com/google/osv-scalibr") && i+1 < len(lines) {
			keep = append(keep, strings.TrimSpace(l)+" @ "+strings.TrimSpace(lines[i+1]))
		}
		if len(keep) >= 6 {
			break
		}
	}
	return strings.Join(keep, " <- ")
}

// deadlineCtx is a context that ends, when fire is called, the way an expired deadline ends one:
// Err() reports context.DeadlineExceeded.  (A real deadline cannot be made to expire at a chosen
// seam event.)
type deadlineCtx struct {
	context.Context
	done  chan struct{}
	mu    sync.Mutex
	fired bool
}

func (c *deadlineCtx) Done() <-chan struct{} { return c.done }
func (c *deadlineCtx) Err() error {
	c.mu.Lock()
	defer c.mu.Unlock()
	if c.fired {
		return context.DeadlineExceeded
	}
	return nil
}
func (c *deadlineCtx) fire() {
	c.mu.Lock()
	defer c.mu.Unlock()
	if !c.fired {
		c.fired = true
		close(c.done)
	}
}
