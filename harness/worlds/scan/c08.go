package scan

import (
	"encoding/json"
	"fmt"
	"sort"
	"strings"
	"testing"

	"github.com/google/osv-scalibr/plugin"
	"pgregory.net/rapid"
	"verif/sim"
)

// C08 - scan results depend only on content, not on enumeration order or root count.
// The schedule the simulator owns here is the order in which the disk lists directory
// entries and the order in which the caller supplies plugins.
type C08 struct{}

// Order is one schedule: a listing permutation per directory per root, a plugin order,
// the directory-handle flavour.
type Order struct {
	Dirs          []map[string][]int `json:"dirs"` // per root: dir path -> permutation of child indexes
	Extractors    []int              `json:"extractors"`
	Detectors     []int              `json:"detectors"`
	NoReadDirFile bool               `json:"no_readdirfile,omitempty"`
}

// C08Scenario is a scan configuration plus the schedules to run it under.
type C08Scenario struct {
	Cfg    *Config `json:"cfg"`
	Orders []Order `json:"orders"`
	Reps   int     `json:"reps"` // executions per order (samples Go map iteration order)
}

func (C08) ID() string { return "C08" }
func (C08) Rule() string {
	return "rapid-generated trees (1-3 roots whose relative paths and contents overlap) with extractor outputs engineered to tie on some but not all sort keys (constant names/versions, two-location packages emitted in non-lexical order), extractors that fail on scenario-chosen files, detectors whose findings tie on advisory reference (now and then with conflicting advisory bodies, so that the scan fails while still returning packages and statuses); each scenario executed under the identity order and 5 (quick) / 23 (thorough) seeded schedules (every directory listing permuted independently, extractor and detector lists permuted, both dir-handle flavours), each `reps` times; plus one scan per root alone for the union law; non-trivial = at least 2 distinct listing orders of a directory with >= 2 entries AND >= 2 packages in the result; distinct = distinct scenario JSON"
}

func (C08) Gen(rt *rapid.T, tier string) any {
	cfg := &Config{CancelAt: -1}
	nroots := rapid.SampledFrom([]int{1, 1, 2, 3}).Draw(rt, "nroots")
	for i := 0; i < nroots; i++ {
		tree := genTree(rt, TreeOpts{MaxNodes: 10, MaxDepth: 3, Symlinks: true, Specials: true, Gitignore: true, MaxSize: 30}, fmt.Sprintf("t%d", i))
		cfg.Roots = append(cfg.Roots, RootSpec{Tree: tree})
	}
	cfg.Extractors = genExtractors(rt, 4, true)
	for i := range cfg.Extractors {
		l := fmt.Sprintf("ex%d", i)
		cfg.Extractors[i].ExtraLoc = rapid.Bool().Draw(rt, l+".extraloc")
		if rapid.IntRange(0, 3).Draw(rt, l+".fails") == 0 {
			p := genPred(rt, 0, l+".failon")
			cfg.Extractors[i].FailOn = &p
			cfg.Extractors[i].FailPanics = rapid.IntRange(0, 2).Draw(rt, l+".panics") == 2
		}
	}
	cfg.UseGitignore = rapid.Bool().Draw(rt, "usegitignore")
	cfg.ReadSymlinks = rapid.IntRange(0, 3).Draw(rt, "readsymlinks") == 3
	if rapid.IntRange(0, 3).Draw(rt, "usemaxsize") == 3 {
		cfg.MaxFileSize = rapid.IntRange(1, 30).Draw(rt, "maxsize")
	}
	switch rapid.IntRange(0, 5).Draw(rt, "skipmode") {
	case 4:
		cfg.SkipRegex = rapid.SampledFrom(skipRegexes).Draw(rt, "skipregex")
	case 5:
		cfg.SkipGlob = rapid.SampledFrom(skipGlobs).Draw(rt, "skipglob")
	}
	nd := rapid.IntRange(0, 3).Draw(rt, "ndetectors")
	for i := 0; i < nd; i++ {
		d := DetSpec{Name: fmt.Sprintf("d%d", i)}
		nf := rapid.IntRange(0, 3).Draw(rt, fmt.Sprintf("d%d.nf", i))
		for j := 0; j < nf; j++ {
			d.Findings = append(d.Findings, FindingSpec{
				Ref:   rapid.SampledFrom([]string{"ADV-1", "ADV-2", "ADV-3"}).Draw(rt, fmt.Sprintf("d%d.f%d.ref", i, j)),
				Extra: rapid.SampledFrom([]string{"", "x", "y", "z"}).Draw(rt, fmt.Sprintf("d%d.f%d.extra", i, j)),
				// now and then an advisory body that conflicts with another finding of the same
				// reference: the scan then fails, but what it still returns must be sorted too
				Body: rapid.SampledFrom([]int{0, 0, 0, 0, 0, 1}).Draw(rt, fmt.Sprintf("d%d.f%d.body", i, j)),
			})
		}
		cfg.Detectors = append(cfg.Detectors, d)
	}
	cfg.Disk = DiskPlan{Chunk: rapid.SampledFrom([]int{0, 3, 4096}).Draw(rt, "chunk"), EOFWithData: rapid.Bool().Draw(rt, "eofwithdata")}

	norders := 5
	if tier == "thorough" {
		norders = 23
	}
	sc := &C08Scenario{Cfg: cfg, Reps: 2}
	for o := 0; o < norders; o++ {
		ord := Order{NoReadDirFile: rapid.IntRange(0, 3).Draw(rt, fmt.Sprintf("o%d.nrdf", o)) == 3}
		for ri, r := range cfg.Roots {
			m := map[string][]int{}
			for _, d := range r.Tree.Dirs() {
				n := len(r.Tree.Lookup(d).Children)
				if n < 2 {
					continue
				}
				idx := make([]int, n)
				for i := range idx {
					idx[i] = i
				}
				m[d] = rapid.Permutation(idx).Draw(rt, fmt.Sprintf("o%d.r%d.%s", o, ri, d))
			}
			ord.Dirs = append(ord.Dirs, m)
		}
		ei := make([]int, len(cfg.Extractors))
		for i := range ei {
			ei[i] = i
		}
		ord.Extractors = rapid.Permutation(ei).Draw(rt, fmt.Sprintf("o%d.ext", o))
		di := make([]int, len(cfg.Detectors))
		for i := range di {
			di[i] = i
		}
		ord.Detectors = rapid.Permutation(di).Draw(rt, fmt.Sprintf("o%d.det", o))
		sc.Orders = append(sc.Orders, ord)
	}
	return sc
}

func (C08) Decode(raw json.RawMessage) (any, error) {
	var c C08Scenario
	err := json.Unmarshal(raw, &c)
	return &c, err
}

func applyOrder(cfg *Config, o *Order) *Config {
	c := cfg.Clone()
	for i := range c.Roots {
		if i < len(o.Dirs) {
			c.Roots[i].Tree = c.Roots[i].Tree.Permute(o.Dirs[i])
		}
	}
	if len(o.Extractors) == len(c.Extractors) {
		ne := make([]ExtSpec, len(c.Extractors))
		for i, j := range o.Extractors {
			ne[i] = cfg.Extractors[j]
		}
		c.Extractors = ne
	}
	if len(o.Detectors) == len(c.Detectors) {
		nd := make([]DetSpec, len(c.Detectors))
		for i, j := range o.Detectors {
			nd[i] = cfg.Detectors[j]
		}
		c.Detectors = nd
	}
	c.Disk.NoReadDirFile = o.NoReadDirFile
	return c
}

// multisetDigest is what must not depend on the schedule.
func multisetDigest(o *Obs) (pkgs, findings, statuses string) {
	p := append([]string(nil), o.Pkgs...)
	sort.Strings(p)
	f := append([]string(nil), o.Findings...)
	sort.Strings(f)
	var st []string
	for _, s := range o.Statuses {
		lines := strings.Split(s.Reason, "\n")
		sort.Strings(lines)
		st = append(st, fmt.Sprintf("%s/%d/%v/%s", s.Name, s.Version, s.Status, strings.Join(lines, "\\n")))
	}
	sort.Strings(st)
	return strings.Join(p, "\n"), strings.Join(f, "\n"), strings.Join(st, "\n")
}

// checkSorted verifies the documented order with an independent comparator: packages by
// name, version, extractor name, locations; findings by advisory reference then extra;
// statuses by name.  Equal-key neighbours may come in any order.
func checkSorted(o *Obs, out *sim.Outcome, ctx string) {
	type pk struct{ a, b, c, d string }
	var prev *pk
	for i, p := range o.RawPkgs {
		if !sort.StringsAreSorted(p.Locations) {
			out.Violate("unsorted-locations", "unsorted-locations", "package %s@%s: locations %v not sorted; %s", p.Name, p.Version, p.Locations, ctx)
		}
		cur := &pk{p.Name, p.Version, p.Extractor, fmt.Sprintf("%v", p.Locations)}
		if prev != nil {
			less := func(x, y *pk) bool {
				if x.a != y.a {
					return x.a < y.a
				}
				if x.b != y.b {
					return x.b < y.b
				}
				if x.c != y.c {
					return x.c < y.c
				}
				return x.d < y.d
			}
			if less(cur, prev) {
				out.Violate("unsorted-packages", "unsorted-packages", "package #%d %v sorts before its predecessor %v; %s", i, *cur, *prev, ctx)
			}
		}
		prev = cur
	}
	for i := 1; i < len(o.RawFindings); i++ {
		a, b := o.RawFindings[i-1], o.RawFindings[i]
		if b.Ref < a.Ref || (b.Ref == a.Ref && b.Extra < a.Extra) {
			out.Violate("unsorted-findings", "unsorted-findings", "finding #%d (%s,%q) sorts before its predecessor (%s,%q); %s", i, b.Ref, b.Extra, a.Ref, a.Extra, ctx)
		}
	}
	for i := 1; i < len(o.Statuses); i++ {
		if o.Statuses[i].Name < o.Statuses[i-1].Name {
			out.Violate("unsorted-statuses", "unsorted-statuses", "status #%d %s sorts before %s; %s", i, o.Statuses[i].Name, o.Statuses[i-1].Name, ctx)
		}
	}
}

func (C08) Run(t *testing.T, scn any) *sim.Outcome {
	sc := scn.(*C08Scenario)
	cfg := sc.Cfg
	out := &sim.Outcome{}
	ctx := fmt.Sprintf("trees {%s} [%s]", treesString(cfg), configSummary(cfg))
	reps := sc.Reps
	if reps < 1 {
		reps = 1
	}
	var ref *Obs
	var refP, refF, refS string
	listingOrders := map[string]bool{}
	run := func(c *Config, label string) *Obs {
		o := Execute(t, c)
		out.Executions++
		if o.Panic != "" {
			out.Violate("panic", "panic", "panic under %s: %s %s; %s", label, o.Panic, o.PanicStack, ctx)
			return nil
		}
		checkSorted(o, out, label+"; "+ctx)
		return o
	}
	for r := 0; r < reps; r++ {
		o := run(cfg, "identity order")
		if o == nil {
			return out
		}
		p, f, s := multisetDigest(o)
		if ref == nil {
			ref, refP, refF, refS = o, p, f, s
			out.HistoryFP = o.HistFP
		} else if p != refP || f != refF || s != refS {
			out.Violate("nondeterministic", "nondeterministic", "two executions of the identical schedule differ (Go map iteration order?):\n%s\n--\n%s; %s", refP+refS, p+s, ctx)
		}
	}
	for oi := range sc.Orders {
		c := applyOrder(cfg, &sc.Orders[oi])
		for _, r := range c.Roots {
			listingOrders[r.Tree.String()] = true
		}
		for r := 0; r < reps; r++ {
			o := run(c, fmt.Sprintf("schedule %d", oi))
			if o == nil {
				return out
			}
			p, f, s := multisetDigest(o)
			if p != refP {
				out.Violate("order-dependent-packages", "order-dependent-packages", "packages differ between the identity order and schedule %d %+v:\n%s\n--\n%s; %s", oi, sc.Orders[oi], refP, p, ctx)
			}
			if f != refF {
				out.Violate("order-dependent-findings", "order-dependent-findings", "findings differ between the identity order and schedule %d:\n%s\n--\n%s; %s", oi, refF, f, ctx)
			}
			if s != refS {
				out.Violate("order-dependent-statuses", "order-dependent-statuses", "plugin statuses differ between the identity order and schedule %d %+v:\n%s\n--\n%s; %s", oi, sc.Orders[oi], refS, s, ctx)
			}
		}
	}
	// multi-root law
	if len(cfg.Roots) > 1 && len(out.Violations) == 0 {
		var union []string
		okAlone := map[string]bool{}
		failAlone := map[string]bool{}
		for _, e := range cfg.Extractors {
			okAlone[e.Name] = true
		}
		for i := range cfg.Roots {
			c := cfg.Clone()
			c.Roots = []RootSpec{cfg.Roots[i]}
			o := run(c, fmt.Sprintf("root %d alone", i))
			if o == nil {
				return out
			}
			union = append(union, o.Pkgs...)
			for _, s := range o.Statuses {
				if s.Status != plugin.ScanStatusSucceeded {
					okAlone[s.Name] = false
					failAlone[s.Name] = true
				}
			}
		}
		sort.Strings(union)
		if strings.Join(union, "\n") != refP {
			out.Violate("multi-root-union", "multi-root-union", "packages of the %d-root scan are not the union of the single-root scans:\n multi: %s\n union: %s; %s", len(cfg.Roots), strings.ReplaceAll(refP, "\n", " ; "), strings.Join(union, " ; "), ctx)
		}
		seen := map[string]bool{}
		for _, s := range ref.Statuses {
			seen[s.Name] = true
			isExt := false
			for _, e := range cfg.Extractors {
				if e.Name == s.Name {
					isExt = true
				}
			}
			if !isExt {
				continue
			}
			if okAlone[s.Name] && s.Status != plugin.ScanStatusSucceeded {
				out.Violate("multi-root-status", "multi-root-status", "extractor %s succeeded on every root alone but is reported %v in the multi-root scan; %s", s.Name, s.Status, ctx)
			}
			if failAlone[s.Name] && s.Status == plugin.ScanStatusSucceeded {
				out.Violate("multi-root-status", "multi-root-status", "extractor %s failed on some root alone but is reported succeeded in the multi-root scan; %s", s.Name, ctx)
			}
		}
		for _, e := range cfg.Extractors {
			if !seen[e.Name] {
				out.Violate("multi-root-status", "multi-root-status-missing", "extractor %s has no status entry in the multi-root scan; %s", e.Name, ctx)
			}
		}
		out.Count("multi_root_scenarios", 1)
	}
	out.Nontrivial = len(listingOrders) >= 2 && len(ref.Pkgs) >= 2
	out.Count("schedules", int64(len(sc.Orders)+1))
	out.Sample = map[string]any{"trees": treesString(cfg), "config": configSummary(cfg), "schedules": len(sc.Orders) + 1, "packages": len(ref.Pkgs), "first_schedule": sc.Orders[0]}
	return out
}
