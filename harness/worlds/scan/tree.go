// Package scan is world S: the real scan engine (scalibr.Scanner.Scan, filesystem.Run,
// WalkDirUnsorted, gitignore handling, standalone.Run, detector.Run, packageindex, result
// sorting) running on a simulated disk (SimFS) with harness plugins and a recording
// stats.Collector.
package scan

import (
	"fmt"
	"path"
	"sort"
	"strings"
)

// Node is one entry of the simulated tree.  Children order IS the listing order the
// simulated disk delivers.
type Node struct {
	Name     string  `json:"n"`
	Kind     string  `json:"k"`           // "dir" | "file" | "symlink" | "fifo" | "device" | "socket"
	Content  string  `json:"c,omitempty"` // file content
	Exec     bool    `json:"x,omitempty"` // executable bit
	Target   string  `json:"t,omitempty"` // symlink target: root-relative path ("a/b") or a path that does not exist
	Children []*Node `json:"ch,omitempty"`
}

func (n *Node) IsDir() bool { return n.Kind == "dir" }

// Clone deep-copies a tree.
func (n *Node) Clone() *Node {
	c := *n
	c.Children = nil
	for _, ch := range n.Children {
		c.Children = append(c.Children, ch.Clone())
	}
	return &c
}

// Lookup finds the node at a root-relative slash path ("." is the root).  It does not follow
// symlinks.
func (n *Node) Lookup(p string) *Node {
	p = path.Clean(p)
	if p == "." || p == "" {
		return n
	}
	cur := n
	for _, seg := range strings.Split(p, "/") {
		if cur == nil || !cur.IsDir() {
			return nil
		}
		var next *Node
		for _, ch := range cur.Children {
			if ch.Name == seg {
				next = ch
				break
			}
		}
		cur = next
	}
	return cur
}

// Resolve follows symlinks at the final component (bounded), as os.Stat/os.Open do.
func (n *Node) Resolve(p string) *Node {
	for i := 0; i < 8; i++ {
		x := n.Lookup(p)
		if x == nil || x.Kind != "symlink" {
			return x
		}
		p = x.Target
	}
	return nil
}

// WalkTree visits every node with its root-relative path in listing order (pre-order).
func (n *Node) WalkTree(fn func(p string, x *Node)) {
	var rec func(p string, x *Node)
	rec = func(p string, x *Node) {
		fn(p, x)
		for _, ch := range x.Children {
			cp := ch.Name
			if p != "." {
				cp = p + "/" + ch.Name
			}
			rec(cp, ch)
		}
	}
	rec(".", n)
}

// Count returns the number of nodes.
func (n *Node) Count() int {
	c := 0
	n.WalkTree(func(string, *Node) { c++ })
	return c
}

// Dirs returns all directory paths (including ".") sorted.
func (n *Node) Dirs() []string {
	var ds []string
	n.WalkTree(func(p string, x *Node) {
		if x.IsDir() {
			ds = append(ds, p)
		}
	})
	sort.Strings(ds)
	return ds
}

// Permute reorders the children of each directory: order[dir] is a permutation of indexes.
// Directories without an entry keep their order.
func (n *Node) Permute(order map[string][]int) *Node {
	c := n.Clone()
	c.WalkTree(func(p string, x *Node) {
		perm, ok := order[p]
		if !ok || len(perm) != len(x.Children) {
			return
		}
		nc := make([]*Node, len(x.Children))
		for i, j := range perm {
			nc[i] = x.Children[j]
		}
		x.Children = nc
	})
	return c
}

func (n *Node) String() string {
	var sb strings.Builder
	n.WalkTree(func(p string, x *Node) {
		switch x.Kind {
		case "dir":
			fmt.Fprintf(&sb, "%s/ ", p)
		case "file":
			fmt.Fprintf(&sb, "%s(%d) ", p, len(x.Content))
		case "symlink":
			fmt.Fprintf(&sb, "%s->%s ", p, x.Target)
		default:
			fmt.Fprintf(&sb, "%s[%s] ", p, x.Kind)
		}
	})
	return strings.TrimSpace(sb.String())
}
