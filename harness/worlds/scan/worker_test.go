package scan

import (
	"testing"

	"verif/sim"
)

// TestWorker is the entry point verifctl spawns (one OS process per worker).
func TestWorker(t *testing.T) {
	sim.Quiet()
	sim.RunWorker(t, []sim.Check{C01{}, C09{}, C10{}, C08{}, C20{}, NewC16c()})
}
