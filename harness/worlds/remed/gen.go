package remed

import (
	"context"
	"fmt"
	"sort"
	"strconv"
	"strings"

	"deps.dev/util/resolve"
	"deps.dev/util/resolve/dep"
	mavenresolve "deps.dev/util/resolve/maven"
	npmresolve "deps.dev/util/resolve/npm"
	"pgregory.net/rapid"
)

// All randomness of a scenario is drawn here.  Generation may *compute* (e.g. resolve the
// generated manifest with the deps.dev resolver to aim vulnerabilities at versions that are
// actually installed): that is deterministic and consumes nothing.

var npmNames = []string{"ansi", "b-lib", "socket.io", "@sc/core", "dd.js", "left-pad", "e2", "@sc/util.x", "zeta", "mid"}
var mvnNames = []string{"org.a:core", "org.a:util", "com.b:lib-x", "io.c:c", "pkg:d", "pkg:e.f", "net.g:g-h", "x.y:z", "org.q:q"}

func draw[T any](rt *rapid.T, label string, xs ...T) T {
	return xs[rapid.IntRange(0, len(xs)-1).Draw(rt, label)]
}

func chance(rt *rapid.T, label string, num, den int) bool {
	return rapid.IntRange(0, den-1).Draw(rt, label) < num
}

type vnum struct{ maj, min, pat, bld int }

func major(v string) int {
	s := v
	if i := strings.IndexAny(s, ".-"); i >= 0 {
		s = s[:i]
	}
	n, _ := strconv.Atoi(s)
	return n
}

func isPre(v string) bool { return strings.Contains(v, "-") }

// genVersions draws an ascending sequence of versions: patch / minor / major bumps, with
// pre-releases of a new release line sitting between the lines.
func genVersions(rt *rapid.T, l, sys string) []string {
	n := draw(rt, l+".nvers", 2, 1, 2, 3, 3, 4, 4, 5, 6, 8, 12)
	c := vnum{maj: draw(rt, l+".maj0", 1, 0, 1, 2, 1, 0, 1, 2, 1, 199, 150, 200)}
	str := func(c vnum) string {
		if sys == "maven" && c.pat == 0 && chance(rt, l+".short", 1, 6) {
			return fmt.Sprintf("%d.%d", c.maj, c.min)
		}
		return fmt.Sprintf("%d.%d.%d", c.maj, c.min, c.pat)
	}
	pres := []string{"-alpha", "-rc.1"}
	if sys == "maven" {
		pres = []string{"-alpha", "-RC1"}
	}
	seen := map[string]bool{}
	var out []string
	add := func(v string) {
		if !seen[v] {
			seen[v] = true
			out = append(out, v)
		}
	}
	add(str(c))
	for tries := 0; len(out) < n && tries < 40; tries++ {
		if sys == "maven" && chance(rt, l+".four", 1, 10) {
			// a fourth component: a re-release of the current version
			c.bld++
			add(fmt.Sprintf("%d.%d.%d.%d", c.maj, c.min, c.pat, c.bld))
			continue
		}
		k := draw(rt, l+".bump", 0, 0, 1, 1, 2)
		c.bld = 0
		switch k {
		case 0:
			c.pat++
		case 1:
			c.min, c.pat = c.min+1, 0
		case 2:
			c.maj, c.min, c.pat = c.maj+1, 0, 0
		}
		if k > 0 && chance(rt, l+".pre", 1, 3) {
			add(fmt.Sprintf("%d.%d.%d", c.maj, c.min, c.pat) + draw(rt, l+".pretag", pres...))
			if len(out) < n && chance(rt, l+".rel", 4, 5) {
				add(fmt.Sprintf("%d.%d.%d", c.maj, c.min, c.pat))
			}
			continue
		}
		add(str(c))
	}
	return out
}

// genReq draws a requirement on (a version t of) package p.
func genReq(rt *rapid.T, l, sys string, p *Pkg, t string, direct bool) string {
	if sys == "maven" {
		switch draw(rt, l+".form", 0, 0, 0, 0, 1, 2, 3) {
		case 1:
			return "[" + t + ",)"
		case 2:
			return fmt.Sprintf("[%s,%d.0.0)", t, major(t)+1)
		case 3:
			if !direct {
				return "[" + t + "]"
			}
		}
		return t
	}
	switch draw(rt, l+".form", 0, 1, 1, 1, 2, 2, 3, 4, 5, 6, 7) {
	case 0:
		return t
	case 1:
		return "^" + t
	case 2:
		return "~" + t
	case 3:
		return ">=" + t
	case 4:
		return "*"
	case 5:
		for _, v := range p.Vers {
			if strings.Contains(v.Tags, "latest") {
				return "latest"
			}
		}
		return "^" + t
	case 6:
		if !isPre(t) {
			return fmt.Sprintf("%d.x", major(t))
		}
		return "^" + t
	}
	return fmt.Sprintf(">=%s <%d.0.0", t, major(t)+1)
}

// genUniverse draws packages, versions and an acyclic dependency structure: package i may
// depend only on packages with a larger index.  The dependency set of a package is mostly
// stable across its versions, its targets move upward with the version, and now and then a
// dependency is dropped or added in a later version (that is what reshapes graphs on upgrade).
func genUniverse(rt *rapid.T, sys string) []Pkg {
	names := npmNames
	if sys == "maven" {
		names = mvnNames
	}
	n := draw(rt, "npkgs", 4, 3, 4, 5, 5, 6, 7, 8)
	perm := rapid.Permutation(names).Draw(rt, "names")[:n]
	u := make([]Pkg, n)
	for i := range u {
		u[i].Name = perm[i]
		for _, v := range genVersions(rt, fmt.Sprintf("p%d", i), sys) {
			u[i].Vers = append(u[i].Vers, Ver{V: v})
		}
		if sys == "npm" {
			switch draw(rt, fmt.Sprintf("p%d.tag", i), 0, 0, 0, 0, 1, 2) {
			case 0: // the usual: latest = highest release
				for j := len(u[i].Vers) - 1; j >= 0; j-- {
					if !isPre(u[i].Vers[j].V) || j == 0 {
						u[i].Vers[j].Tags = "latest"
						break
					}
				}
			case 1:
				u[i].Vers[rapid.IntRange(0, len(u[i].Vers)-1).Draw(rt, fmt.Sprintf("p%d.tagat", i))].Tags = "latest"
			}
		}
	}
	for i := n - 2; i >= 0; i-- {
		l := fmt.Sprintf("p%d", i)
		nb := draw(rt, l+".ndeps", 1, 0, 1, 1, 2, 3)
		var base []int
		for k := 0; k < nb; k++ {
			j := rapid.IntRange(i+1, n-1).Draw(rt, fmt.Sprintf("%s.dep%d", l, k))
			dupe := false
			for _, b := range base {
				dupe = dupe || b == j
			}
			if !dupe {
				base = append(base, j)
			}
		}
		nv := len(u[i].Vers)
		for vi := range u[i].Vers {
			vl := fmt.Sprintf("%s.v%d", l, vi)
			targets := []int{}
			for _, j := range base {
				if chance(rt, fmt.Sprintf("%s.keep%d", vl, j), 6, 7) {
					targets = append(targets, j)
				}
			}
			if i+1 < n && chance(rt, vl+".extra", 1, 8) {
				j := rapid.IntRange(i+1, n-1).Draw(rt, vl+".extradep")
				dupe := false
				for _, b := range targets {
					dupe = dupe || b == j
				}
				if !dupe {
					targets = append(targets, j)
				}
			}
			for _, j := range targets {
				nj := len(u[j].Vers)
				ti := vi * nj / nv
				ti += draw(rt, fmt.Sprintf("%s.jit%d", vl, j), 0, 0, -1, 1)
				if ti < 0 {
					ti = 0
				}
				if ti >= nj {
					ti = nj - 1
				}
				u[i].Vers[vi].Deps = append(u[i].Vers[vi].Deps, Dep{Name: u[j].Name, Req: genReq(rt, fmt.Sprintf("%s.r%d", vl, j), sys, &u[j], u[j].Vers[ti].V, false)})
			}
		}
	}
	return u
}

// lowVersion draws a version of p, biased towards old ones (manifests lag behind).
func lowVersion(rt *rapid.T, l string, p *Pkg) string {
	n := len(p.Vers)
	i := rapid.IntRange(0, n-1).Draw(rt, l+".tv")
	if j := rapid.IntRange(0, n-1).Draw(rt, l+".tv2"); j < i {
		i = j
	}
	return p.Vers[i].V
}

// preWithRelease returns a pre-release of p whose release is the next version, or "".
func preWithRelease(p *Pkg) string {
	for i := 0; i+1 < len(p.Vers); i++ {
		if v := p.Vers[i].V; isPre(v) && p.Vers[i+1].V == v[:strings.Index(v, "-")] {
			return v
		}
	}
	return ""
}

func genNpmManifest(rt *rapid.T, u []Pkg) Manifest {
	nd := draw(rt, "ndirect", 2, 1, 2, 3, 3, 4, 5)
	if nd > len(u) {
		nd = len(u)
	}
	var m Manifest
	used := map[int]bool{}
	for k := 0; k < nd; k++ {
		l := fmt.Sprintf("d%d", k)
		i := rapid.IntRange(0, len(u)-1).Draw(rt, l+".pkg")
		if j := rapid.IntRange(0, len(u)-1).Draw(rt, l+".pkg2"); j < i {
			i = j // prefer packages that have dependencies of their own
		}
		if used[i] {
			continue
		}
		used[i] = true
		p := &u[i]
		sec := draw(rt, l+".section", "dependencies", "dependencies", "dependencies", "dependencies", "devDependencies", "devDependencies", "optionalDependencies")
		t := lowVersion(rt, l, p)
		// wave 8 (C11-w8-1): now and then start from a pre-release whose release exists, so relaxing
		// from a pre-release under a per-package level is reached by the quick tier too
		if pv := preWithRelease(p); pv != "" && chance(rt, l+".frompre", 1, 6) {
			t = pv
		}
		req := genReq(rt, l, "npm", p, t, true)
		key, spec := p.Name, req
		if chance(rt, l+".alias", 1, 10) {
			key, spec = fmt.Sprintf("al-%d", k), "npm:"+p.Name+"@"+req
		}
		m.Npm = append(m.Npm, NpmEntry{Section: sec, Key: key, Spec: spec})
		if key == p.Name && sec == "dependencies" && chance(rt, l+".twin", 1, 10) {
			// the same registry package once more through an alias, same section (the reader
			// replaces requirements by package, not by key, across sections: not generated)
			spec2 := spec
			if chance(rt, l+".twindiff", 1, 3) {
				spec2 = genReq(rt, l+".t", "npm", p, lowVersion(rt, l+".t", p), true)
			}
			m.Npm = append(m.Npm, NpmEntry{Section: sec, Key: fmt.Sprintf("twin-%d", k), Spec: "npm:" + p.Name + "@" + spec2})
			continue
		}
		if key == p.Name && chance(rt, l+".twice", 1, 10) {
			other := "devDependencies"
			if sec == other {
				other = "dependencies"
			}
			spec2 := spec
			if chance(rt, l+".twicediff", 1, 2) {
				spec2 = genReq(rt, l+".2", "npm", p, lowVersion(rt, l+".2", p), true)
			}
			m.Npm = append(m.Npm, NpmEntry{Section: other, Key: key, Spec: spec2})
		}
	}
	return m
}

func genMavenManifest(rt *rapid.T, u []Pkg, mode string) Manifest {
	pom := &Pom{}
	var parent *Pom
	if chance(rt, "hasparent", 1, 3) {
		parent = &Pom{}
	}
	split := func(n string) (string, string) { g, a, _ := strings.Cut(n, ":"); return g, a }
	nd := draw(rt, "ndirect", 2, 1, 2, 3, 3, 4)
	if nd > len(u) {
		nd = len(u)
	}
	used := map[int]bool{}
	nprop := 0
	var directs []int
	for k := 0; k < nd; k++ {
		l := fmt.Sprintf("d%d", k)
		i := rapid.IntRange(0, len(u)-1).Draw(rt, l+".pkg")
		if j := rapid.IntRange(0, len(u)-1).Draw(rt, l+".pkg2"); j < i {
			i = j
		}
		if used[i] {
			continue
		}
		used[i] = true
		directs = append(directs, i)
		p := &u[i]
		g, a := split(p.Name)
		t := lowVersion(rt, l, p)
		d := MDep{G: g, A: a, V: genReq(rt, l, "maven", p, t, true)}
		if chance(rt, l+".test", 1, 5) {
			d.Scope = "test"
		}
		if mode == "update" && d.V == t && chance(rt, l+".offlist", 1, 8) {
			// a declared version the registry does not list: another spelling of a listed
			// version, or a version of its own
			switch n := strings.Count(t, "."); {
			case !isPre(t) && n == 1 && chance(rt, l+".spell", 1, 2):
				d.V = t + ".0"
			case !isPre(t) && n == 2 && strings.HasSuffix(t, ".0") && chance(rt, l+".spell", 1, 2):
				d.V = strings.TrimSuffix(t, ".0")
			case !isPre(t):
				d.V = t + ".7"
			}
			if hasVersion(p, d.V) {
				d.V = t
			}
		}
		if mode == "update" && d.V != t && strings.HasPrefix(d.V, "[") && chance(rt, l+".deadrange", 1, 8) {
			d.V = "[900.0,901.0)" // a range none of the listed versions satisfies
		}
		if d.V == t && chance(rt, l+".prop", 1, 3) {
			// version through a property; now and then a property another dependency already uses
			shared := false
			for _, pr := range pom.Props {
				if pr.V == t && chance(rt, l+".share", 1, 2) {
					d.V, shared = "${"+pr.K+"}", true
					break
				}
			}
			if !shared {
				nprop++
				k := fmt.Sprintf("v%d.version", nprop)
				d.V = "${" + k + "}"
				if parent != nil && chance(rt, l+".propinparent", 1, 3) {
					parent.Props = append(parent.Props, Prop{K: k, V: t})
				} else {
					pom.Props = append(pom.Props, Prop{K: k, V: t})
				}
			}
		}
		if parent != nil && chance(rt, l+".inparent", 1, 4) {
			parent.Deps = append(parent.Deps, d)
		} else {
			pom.Deps = append(pom.Deps, d)
		}
	}
	// dependencyManagement: transitive packages (what override adds to) or a second
	// declaration of a direct dependency at another version
	nm := draw(rt, "nmgmt", 0, 0, 1, 1, 2)
	mused := map[int]bool{}
	for k := 0; k < nm; k++ {
		l := fmt.Sprintf("m%d", k)
		i := rapid.IntRange(0, len(u)-1).Draw(rt, l+".pkg")
		if mused[i] {
			continue
		}
		mused[i] = true
		g, a := split(u[i].Name)
		d := MDep{G: g, A: a, V: genReq(rt, l, "maven", &u[i], lowVersion(rt, l, &u[i]), true)}
		if parent != nil && chance(rt, l+".inparent", 1, 3) {
			parent.Mgmt = append(parent.Mgmt, d)
		} else {
			pom.Mgmt = append(pom.Mgmt, d)
		}
	}
	if mode == "update" && len(directs) > 0 && chance(rt, "hasprofile", 2, 3) {
		pf := Profile{ID: "extra", Active: chance(rt, "profactive", 1, 2)}
		np := draw(rt, "nprofdeps", 1, 1, 2)
		pused := map[int]bool{}
		for k := 0; k < np; k++ {
			l := fmt.Sprintf("pf%d", k)
			i := directs[rapid.IntRange(0, len(directs)-1).Draw(rt, l+".dup")]
			if chance(rt, l+".other", 1, 2) {
				i = rapid.IntRange(0, len(u)-1).Draw(rt, l+".pkg")
			}
			if len(pom.Props) > 0 && chance(rt, l+".byprop", 1, 2) {
				// prefer a package that has the version one of the project-wide properties holds
				// (so that the profile can take its version from that property)
				pr := pom.Props[rapid.IntRange(0, len(pom.Props)-1).Draw(rt, l+".byprop.p")]
				var cand []int
				for j := range u {
					if hasVersion(&u[j], pr.V) && !used[j] {
						cand = append(cand, j)
					}
				}
				if len(cand) > 0 {
					i = cand[rapid.IntRange(0, len(cand)-1).Draw(rt, l+".byprop.i")]
					if !pused[i] {
						pused[i] = true
						g, a := split(u[i].Name)
						pf.Deps = append(pf.Deps, MDep{G: g, A: a, V: "${" + pr.K + "}"})
						continue
					}
				}
			}
			if pused[i] {
				continue
			}
			pused[i] = true
			g, a := split(u[i].Name)
			v := u[i].Vers[rapid.IntRange(0, len(u[i].Vers)-1).Draw(rt, l+".ver")].V
			// a profile dependency may take its version from a project-wide property, also one
			// that a top-level dependency uses
			for _, pr := range pom.Props {
				if chance(rt, l+".prop", 1, 2) {
					if p := w0pkg(u, u[i].Name); p != nil && hasVersion(p, pr.V) {
						v = "${" + pr.K + "}"
						break
					}
				}
			}
			pf.Deps = append(pf.Deps, MDep{G: g, A: a, V: v})
		}
		if chance(rt, "profnoid", 1, 5) {
			pf.ID = "" // the <id> is optional
		}
		if chance(rt, "profmgmt", 1, 3) {
			i := rapid.IntRange(0, len(u)-1).Draw(rt, "profmgmt.pkg")
			g, a := split(u[i].Name)
			pf.Mgmt = append(pf.Mgmt, MDep{G: g, A: a, V: lowVersion(rt, "profmgmt", &u[i])})
		}
		pom.Profiles = append(pom.Profiles, pf)
	}
	if mode == "fix" && chance(rt, "fixprofile", 1, 6) {
		// a profile that is not activated: its own dependencyManagement and/or dependencies
		pf := Profile{ID: "extra"}
		if chance(rt, "profnoid", 1, 5) {
			pf.ID = ""
		}
		i := rapid.IntRange(0, len(u)-1).Draw(rt, "fixprofile.pkg")
		g, a := split(u[i].Name)
		d := MDep{G: g, A: a, V: lowVersion(rt, "fixprofile", &u[i])}
		if chance(rt, "fixprofile.mgmt", 2, 3) {
			pf.Mgmt = append(pf.Mgmt, d)
		} else {
			pf.Deps = append(pf.Deps, d)
		}
		pom.Profiles = append(pom.Profiles, pf)
	}
	if len(pom.Deps) == 0 && parent != nil && len(parent.Deps) > 0 {
		// keep at least one requirement in the project itself
		pom.Deps, parent.Deps = parent.Deps[:1], parent.Deps[1:]
	}
	m := Manifest{Pom: pom, Parent: parent}
	if parent != nil {
		m.ParentDir = draw(rt, "parentdir", "", "", "", "mono@2")
	}
	if len(pom.Mgmt) == 0 {
		pom.EmptyMgmt = chance(rt, "emptymgmt", 1, 6)
	}
	return m
}

// installed resolves the generated manifest with the deps.dev resolver (harness-driven) and
// returns the (name, version) of every node: where to aim vulnerabilities.
func installed(w *World) [][2]string {
	lc := w.localClient()
	sys := w.system()
	root := resolve.Version{VersionKey: resolve.VersionKey{PackageKey: resolve.PackageKey{System: sys, Name: "verif-root"}, VersionType: resolve.Concrete, Version: "1.0.0"}}
	var imports []resolve.RequirementVersion
	var r resolve.Resolver
	if w.Sys == "npm" {
		for _, q := range npmEffective(w.Manifest.Npm) {
			t := dep.NewType()
			if q.Name != q.Key {
				t.AddAttr(dep.KnownAs, q.Key)
			}
			imports = append(imports, resolve.RequirementVersion{VersionKey: resolve.VersionKey{PackageKey: resolve.PackageKey{System: sys, Name: q.Name}, VersionType: resolve.Requirement, Version: q.Req}, Type: t})
		}
		lc.AddVersion(root, imports)
		r = npmresolve.NewResolver(lc)
	} else {
		props := w.Manifest.props()
		seen := map[string]bool{}
		for _, pom := range []*Pom{w.Manifest.Pom, w.Manifest.Parent} {
			if pom == nil {
				continue
			}
			for _, d := range pom.Deps {
				if seen["d"+d.Name()] {
					continue
				}
				seen["d"+d.Name()] = true
				imports = append(imports, resolve.RequirementVersion{VersionKey: resolve.VersionKey{PackageKey: resolve.PackageKey{System: sys, Name: d.Name()}, VersionType: resolve.Requirement, Version: interpolate(d.V, props)}, Type: dep.NewType()})
			}
			for _, d := range pom.Mgmt {
				if seen["m"+d.Name()] {
					continue
				}
				seen["m"+d.Name()] = true
				t := dep.NewType()
				t.AddAttr(dep.MavenDependencyOrigin, "management")
				imports = append(imports, resolve.RequirementVersion{VersionKey: resolve.VersionKey{PackageKey: resolve.PackageKey{System: sys, Name: d.Name()}, VersionType: resolve.Requirement, Version: interpolate(d.V, props)}, Type: t})
			}
		}
		lc.AddVersion(root, imports)
		r = mavenresolve.NewResolver(lc)
	}
	g, err := r.Resolve(context.Background(), root.VersionKey)
	if err != nil || g == nil {
		return nil
	}
	var out [][2]string
	in := map[string]bool{}
	for _, n := range g.Nodes[1:] {
		out = append(out, [2]string{n.Version.Name, n.Version.Version})
		in[n.Version.Name] = true
	}
	if w.Sys == "maven" && w.Manifest.Pom != nil {
		// packages that are only managed (visible with MavenManagement): aim at an old version
		// of what the managed requirement admits
		props := w.Manifest.props()
		for _, d := range w.Manifest.Pom.Mgmt {
			p := w.pkg(d.Name())
			if in[d.Name()] || p == nil {
				continue
			}
			if c, err := semverOf(w).ParseConstraint(interpolate(d.V, props)); err == nil {
				for _, v := range p.Vers {
					if c.Match(v.V) {
						out = append(out, [2]string{d.Name(), v.V})
						break
					}
				}
			}
		}
	}
	return out
}

// addRange gives an affected entry a redundant range with its events in non-ascending order:
// [fixed Y, introduced X] with X listed explicitly and Y the next version of the package.
func addRange(w *World, a *Aff) {
	p := w.pkg(a.Pkg)
	if p == nil || len(a.Versions) == 0 {
		return
	}
	sys := semverOf(w)
	x := a.Versions[len(a.Versions)-1]
	if _, err := sys.Parse(x); err != nil {
		return
	}
	y := ""
	for _, v := range p.Vers {
		if _, err := sys.Parse(v.V); err != nil {
			return
		}
		if sys.Compare(v.V, x) > 0 && (y == "" || sys.Compare(v.V, y) < 0) {
			y = v.V
		}
	}
	if y != "" {
		a.Range = []string{y, x}
	}
}

func genVulns(rt *rapid.T, w *World, conc bool) []VulnSpec {
	nodes := installed(w)
	nv := draw(rt, "nvulns", 2, 1, 2, 2, 3, 4)
	if conc && nv < 2 {
		nv = 2
	}
	var out []VulnSpec
	one := func(l string) Aff {
		var p *Pkg
		hit := ""
		if len(nodes) > 0 && chance(rt, l+".aim", 4, 5) {
			n := nodes[rapid.IntRange(0, len(nodes)-1).Draw(rt, l+".node")]
			p, hit = w.pkg(n[0]), n[1]
		}
		if p == nil {
			p = &w.Universe[rapid.IntRange(0, len(w.Universe)-1).Draw(rt, l+".pkg")]
		}
		k := len(p.Vers)
		a := Aff{Pkg: p.Name}
		switch draw(rt, l+".style", 0, 0, 0, 0, 1, 1, 2) {
		case 0: // everything before a fix (k = no fix at all)
			c := rapid.IntRange(1, k).Draw(rt, l+".cut")
			for i, v := range p.Vers {
				if v.V == hit && c <= i && chance(rt, l+".cover", 4, 5) {
					c = i + 1
				}
			}
			for _, v := range p.Vers[:c] {
				a.Versions = append(a.Versions, v.V)
			}
		case 1:
			for i, v := range p.Vers {
				if chance(rt, fmt.Sprintf("%s.in%d", l, i), 1, 2) || (v.V == hit && chance(rt, l+".cover", 4, 5)) {
					a.Versions = append(a.Versions, v.V)
				}
			}
		case 2:
			v := p.Vers[rapid.IntRange(0, k-1).Draw(rt, l+".single")].V
			if hit != "" && chance(rt, l+".cover", 4, 5) {
				v = hit
			}
			a.Versions = []string{v}
		}
		if len(a.Versions) == 0 {
			a.Versions = []string{p.Vers[0].V}
		}
		if chance(rt, l+".range", 1, 3) {
			addRange(w, &a)
		}
		return a
	}
	for i := 0; i < nv; i++ {
		l := fmt.Sprintf("vuln%d", i)
		v := VulnSpec{ID: fmt.Sprintf("V%d", i+1), Affected: []Aff{one(l)}}
		if chance(rt, l+".two", 1, 7) {
			b := one(l + ".b")
			if b.Pkg != v.Affected[0].Pkg {
				v.Affected = append(v.Affected, b)
			}
		}
		v.Severity = draw(rt, l+".sev", "", "", "high", "low")
		if len(v.Affected[0].Versions) > 1 && chance(rt, l+".persev", 1, 6) {
			splitSeverity(&v, rapid.IntRange(1, len(v.Affected[0].Versions)-1).Draw(rt, l+".persev.at"), chance(rt, l+".persev.lowfirst", 1, 2))
		}
		v.Withdrawn = chance(rt, l+".withdrawn", 1, 8)
		out = append(out, v)
	}
	return out
}

func genOpts(rt *rapid.T, w *World, maxUpgrades []int, plain, conc bool) Opts {
	o := Opts{DevDeps: true, MaxDepth: -1}
	o.Default = draw(rt, "level.default", "major", "major", "major", "major", "minor", "minor", "patch", "patch", "none")
	if conc && chance(rt, "level.conc", 3, 4) {
		o.Default = "major" // C16 is about interfering attempts: restrictive levels leave none
	}
	// per-package levels: mostly on packages that matter (direct requirements, vulnerable ones)
	var cands []string
	if w.Sys == "npm" {
		for _, q := range npmEffective(w.Manifest.Npm) {
			cands = append(cands, q.Name)
		}
	} else {
		for _, pom := range []*Pom{w.Manifest.Pom, w.Manifest.Parent} {
			if pom != nil {
				for _, d := range pom.Deps {
					cands = append(cands, d.Name())
				}
			}
		}
	}
	for _, v := range w.Vulns {
		for _, a := range v.Affected {
			cands = append(cands, a.Pkg)
		}
	}
	sort.Strings(cands)
	nl := draw(rt, "level.n", 0, 0, 1, 1, 2)
	if conc && chance(rt, "level.nconc", 1, 2) {
		nl = 0
	}
	for k := 0; k < nl && len(cands) > 0; k++ {
		p := cands[rapid.IntRange(0, len(cands)-1).Draw(rt, fmt.Sprintf("level.%d.pkg", k))]
		dupe := false
		for _, x := range o.Levels {
			dupe = dupe || x.Pkg == p
		}
		if !dupe {
			o.Levels = append(o.Levels, PkgLevel{Pkg: p, Level: draw(rt, fmt.Sprintf("level.%d", k), "major", "minor", "minor", "patch", "patch", "none", "none")})
		}
	}
	o.MaxUpgrades = draw(rt, "maxupgrades", maxUpgrades...)
	o.ConfigFromStrings = chance(rt, "level.fromstrings", 1, 2)
	if w.Mode == "update" {
		o.IgnoreDev = chance(rt, "ignoredev", 1, 4)
		return o
	}
	if plain && !conc && w.Sys == "maven" && w.Mode == "fix" {
		o.MavenManagement = chance(rt, "mavenmanagement", 1, 3)
	}
	if plain && conc {
		o.MinSeverity = draw(rt, "minseverity", 0.0, 0.0, 5.0)
	}
	if plain {
		if conc && len(w.Vulns) > 1 && chance(rt, "hasexplicit", 2, 5) {
			// "only fix these": explicit list in C16 worlds; now and then an explicit record
			// carries the id of a non-listed record as an OSV alias
			for i, v := range w.Vulns {
				if i == 0 || chance(rt, fmt.Sprintf("explicit%d", i), 3, 4) {
					o.Explicit = append(o.Explicit, v.ID)
				}
			}
			if len(o.Explicit) < len(w.Vulns) && chance(rt, "alias", 1, 2) {
				for i := range w.Vulns {
					listed := false
					for _, e := range o.Explicit {
						listed = listed || e == w.Vulns[i].ID
					}
					if !listed {
						j := rapid.IntRange(0, len(o.Explicit)-1).Draw(rt, "alias.of")
						for k := range w.Vulns {
							if w.Vulns[k].ID == o.Explicit[j] {
								w.Vulns[k].Aliases = []string{w.Vulns[i].ID}
							}
						}
						break
					}
				}
			}
		}
		return o
	}
	o.NoIntroduce = chance(rt, "nointroduce", 1, 4)
	if len(w.Vulns) > 0 && chance(rt, "hasignore", 1, 6) {
		o.Ignore = []string{w.Vulns[rapid.IntRange(0, len(w.Vulns)-1).Draw(rt, "ignore")].ID}
	}
	if len(w.Vulns) > 1 && chance(rt, "hasexplicit", 1, 4) {
		for i, v := range w.Vulns {
			if chance(rt, fmt.Sprintf("explicit%d", i), 2, 3) {
				o.Explicit = append(o.Explicit, v.ID)
			}
		}
		// duplicate records (GHSA/CVE style): a listed record carries the id of a separate,
		// non-listed record as an OSV alias
		if len(o.Explicit) > 0 && len(o.Explicit) < len(w.Vulns) && chance(rt, "explicit.recordalias", 1, 2) {
			var out []int
			for i, v := range w.Vulns {
				listed := false
				for _, e := range o.Explicit {
					listed = listed || e == v.ID
				}
				if !listed {
					out = append(out, i)
				}
			}
			n := out[rapid.IntRange(0, len(out)-1).Draw(rt, "explicit.recordalias.n")]
			x := o.Explicit[rapid.IntRange(0, len(o.Explicit)-1).Draw(rt, "explicit.recordalias.x")]
			for i := range w.Vulns {
				if w.Vulns[i].ID == x {
					w.Vulns[i].Aliases = append(w.Vulns[i].Aliases, w.Vulns[n].ID)
				}
			}
		}
		// now and then the list names a record by an OSV alias instead of its id
		if chance(rt, "explicit.alias", 1, 3) {
			i := rapid.IntRange(0, len(w.Vulns)-1).Draw(rt, "explicit.aliasof")
			al := "CVE-" + w.Vulns[i].ID
			w.Vulns[i].Aliases = append(w.Vulns[i].Aliases, al)
			var keep []string
			for _, e := range o.Explicit {
				if e != w.Vulns[i].ID {
					keep = append(keep, e)
				}
			}
			o.Explicit = append(keep, al)
		}
	}
	if len(w.Vulns) > 1 && chance(rt, "aliaspair", 1, 8) {
		// two records naming each other as alias (the GHSA and the CVE record of one issue)
		i := rapid.IntRange(0, len(w.Vulns)-1).Draw(rt, "aliaspair.a")
		j := rapid.IntRange(0, len(w.Vulns)-2).Draw(rt, "aliaspair.b")
		if j >= i {
			j++
		}
		w.Vulns[i].Aliases = append(w.Vulns[i].Aliases, w.Vulns[j].ID)
		w.Vulns[j].Aliases = append(w.Vulns[j].Aliases, w.Vulns[i].ID)
	}
	o.DevDeps = !chance(rt, "nodev", 1, 4)
	o.MaxDepth = draw(rt, "maxdepth", -1, -1, -1, 1, 2, 3)
	o.MinSeverity = draw(rt, "minseverity", 0.0, 0.0, 0.0, 0.0, 5.0)
	return o
}

// genWorld draws a complete world.  plain = default scoping options (C11, C16); conc = favour
// worlds with several patch goroutines (C16).
func genWorld(rt *rapid.T, kinds []string, maxUpgrades []int, plain, conc bool) *World {
	kind := draw(rt, "kind", kinds...)
	w := &World{Mode: "fix"}
	switch kind {
	case "npm":
		w.Sys = "npm"
	case "maven":
		w.Sys = "maven"
	case "update":
		w.Sys, w.Mode = "maven", "update"
	}
	motif := draw(rt, "motif", 0, 0, 0, 0, 0, 0, 0, 0, 0, 1, 2, 3, 4, 5, 6, 7, 8)
	switch {
	case w.Sys == "npm" && motif == 4:
		motif = 5
	case w.Sys == "npm" && motif == 6:
		motif = 7
	case w.Sys == "maven" && motif == 5:
		motif = 4
	case w.Sys == "maven" && motif == 7:
		motif = 6
	}
	if conc && (motif == 0 || motif == 2 || motif == 4 || motif == 6) && chance(rt, "motif.conc", 1, 2) {
		// C16: favour the shapes with several patch attempts that interfere
		motif = draw(rt, "motif.which", 1, 1, 1, 3, 3, 3, 5)
		if w.Sys == "maven" && motif == 5 {
			motif = 3
		}
	}
	if motif > 0 && w.Mode == "fix" {
		genMotif(rt, w, motif)
	} else {
		w.Universe = genUniverse(rt, w.Sys)
		if w.Sys == "npm" {
			w.Manifest = genNpmManifest(rt, w.Universe)
		} else {
			w.Manifest = genMavenManifest(rt, w.Universe, w.Mode)
		}
		if w.Mode == "fix" {
			w.Vulns = genVulns(rt, w, conc)
		}
	}
	w.Opts = genOpts(rt, w, maxUpgrades, plain, conc)
	w.VersionsOrder = draw(rt, "versions.order", "", "", "desc", "rot")
	return w
}

func genSched(rt *rapid.T, l string) []int {
	if chance(rt, l+".calm", 1, 2) {
		return rapid.SliceOfN(rapid.SampledFrom([]int{0, 0, 0, 0, 1, 2, 3}), 0, 60).Draw(rt, l)
	}
	return rapid.SliceOfN(rapid.IntRange(0, 3), 0, 60).Draw(rt, l)
}

func genFaults(rt *rapid.T) []Fault {
	n := draw(rt, "nfaults", 0, 0, 0, 1, 1, 2)
	var fs []Fault
	for i := 0; i < n; i++ {
		fs = append(fs, Fault{Phase: draw(rt, fmt.Sprintf("fault%d.phase", i), 1, 1, 1, 1, 0), K: rapid.IntRange(0, 80).Draw(rt, fmt.Sprintf("fault%d.k", i))})
	}
	return fs
}

func w0pkg(u []Pkg, name string) *Pkg {
	for i := range u {
		if u[i].Name == name {
			return &u[i]
		}
	}
	return nil
}

func hasVersion(p *Pkg, v string) bool {
	for _, x := range p.Vers {
		if x.V == v {
			return true
		}
	}
	return false
}

// splitSeverity turns the first affected entry into two entries of the same package with
// different severities and removes the record's top-level severity.
func splitSeverity(v *VulnSpec, at int, lowFirst bool) {
	a := v.Affected[0]
	a1 := Aff{Pkg: a.Pkg, Versions: append([]string(nil), a.Versions[:at]...), Severity: "high"}
	a2 := Aff{Pkg: a.Pkg, Versions: append([]string(nil), a.Versions[at:]...), Severity: "low", Range: a.Range}
	if lowFirst {
		a1.Severity, a2.Severity = "low", "high"
	}
	v.Affected = append([]Aff{a1, a2}, v.Affected[1:]...)
	v.Severity = ""
}
