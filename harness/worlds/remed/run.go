package remed

import (
	"fmt"
	"io/fs"
	"os"
	"path/filepath"
	"runtime/debug"
	"strings"
	"sync/atomic"
	"syscall"
	"testing"

	"deps.dev/util/resolve"
	"github.com/google/osv-scalibr/guidedremediation"
	"github.com/google/osv-scalibr/guidedremediation/options"
	"github.com/google/osv-scalibr/guidedremediation/result"
	"github.com/google/osv-scalibr/guidedremediation/strategy"
	"github.com/google/osv-scalibr/verifshim"
	"verif/sim"
)

// callBudget is the termination budget of one run: registry + matcher calls (DESIGN C11 (4)).
const callBudget = 10000

// WriteFault makes the K-th call of Op (WriteFile | MkdirAll) of the manifest writer fail.
type WriteFault struct {
	Op string `json:"op"`
	K  int    `json:"k"`
}

// RunSpec is one execution of the real code on a world.
type RunSpec struct {
	Kind     string    // fix | update | analyse (read+resolve+match only) | all (+ ComputePatches, nothing chosen or written)
	Dir      string    // sandbox directory of this run
	Manifest *Manifest // rendered into Dir/project; nil => keep what is on disk there
	Opts     *Opts     // nil => the world's
	Sched    []int
	Faults   []Fault
	Pass     bool // no scheduler: calls go straight through (fresh, un-faulted analysis)
	// Salt is appended to every vulnerability id, alias, explicit and ignore entry of this run and
	// stripped from what the run reports: every execution gets a database with fresh ids, so that
	// process-global state keyed by advisory id inside the library cannot carry over from one run
	// to the next (runs stay independent; the schedule of THIS run decides).
	Salt   string
	Free   bool // with Pass: free-running, no synchronisation in the stubs, no call budget (race detector run)
	WFault *WriteFault
}

// Obs is what one execution showed.
type Obs struct {
	Res      result.Result
	An       *guidedremediation.VerifAnalysis
	Err      string
	Panic    string
	Over     bool // call budget exceeded
	Deadlock bool
	Calls    int
	Steps    int
	Choices  int
	MaxPar   int
	Actors   int
	Fired    int // registry/matcher faults delivered
	WFired   int // write faults delivered
	TraceFP  string
	Trace    []string
	Path     string // manifest path
}

var scratchSeq int

// scratchDir returns a fresh per-scenario directory under $VERIF_SCRATCH.
func scratchDir() string {
	base := os.Getenv("VERIF_SCRATCH")
	if base == "" {
		cache := os.Getenv("XDG_CACHE_HOME")
		if cache == "" {
			cache = filepath.Join(os.Getenv("HOME"), ".cache")
		}
		base = filepath.Join(cache, "verif-scratch", fmt.Sprintf("remed-%d", os.Getpid()))
	}
	scratchSeq++
	d := filepath.Join(base, fmt.Sprintf("sc%d", scratchSeq))
	os.RemoveAll(d)
	os.MkdirAll(d, 0o755)
	return d
}

// Execute runs the real library once.
func Execute(t *testing.T, w *World, spec RunSpec) *Obs {
	obs := &Obs{}
	o := spec.Opts
	if o == nil {
		o = &w.Opts
	}
	if spec.Salt != "" {
		so := *o
		so.Ignore, so.Explicit = nil, nil
		for _, x := range o.Ignore {
			so.Ignore = append(so.Ignore, x+spec.Salt)
		}
		for _, x := range o.Explicit {
			so.Explicit = append(so.Explicit, x+spec.Salt)
		}
		o = &so
	}
	if spec.Manifest != nil {
		p, err := w.writeProject(spec.Dir, spec.Manifest)
		if err != nil {
			panic("harness: cannot write project: " + err.Error())
		}
		obs.Path = p
	} else {
		obs.Path = filepath.Join(spec.Dir, "project", w.manifestName())
	}
	if spec.WFault != nil {
		n := 0
		wf := *spec.WFault
		dir := spec.Dir
		verifshim.OSFault = func(op, path string) error {
			if op != wf.Op || !strings.HasPrefix(path, dir) {
				return nil
			}
			n++
			if n-1 == wf.K {
				obs.WFired++
				return &fs.PathError{Op: strings.ToLower(op), Path: path, Err: syscall.ENOSPC}
			}
			return nil
		}
		defer func() { verifshim.OSFault = nil }()
	}

	body := func(s *Sched) {
		var cl resolve.Client = &SimClient{s: s, lc: w.localClient(), order: w.VersionsOrder}
		vm := &SimMatcher{s: s, w: w, osv: w.osv(spec.Salt)}
		if spec.Free {
			cl, vm.s = freeze(w.localClient()), nil
		}
		var err error
		switch spec.Kind {
		case "update":
			obs.Res, err = guidedremediation.Update(options.UpdateOptions{
				Manifest: obs.Path, ResolveClient: cl, IgnoreDev: o.IgnoreDev, UpgradeConfig: o.upgradeConfig(),
			})
		default:
			fo := options.FixVulnsOptions{
				Manifest: obs.Path, MaxUpgrades: o.MaxUpgrades, NoIntroduce: o.NoIntroduce,
				MatcherClient: vm, ResolveClient: cl, RemediationOptions: o.remediation(),
			}
			if w.Sys == "npm" {
				fo.Strategy = strategy.StrategyRelax
			} else {
				fo.Strategy = strategy.StrategyOverride
			}
			switch spec.Kind {
			case "fix":
				obs.Res, err = guidedremediation.FixVulns(fo)
			case "analyse":
				obs.An, err = guidedremediation.VerifAnalyse(fo, false)
			case "all":
				obs.An, err = guidedremediation.VerifAnalyse(fo, true)
			default:
				panic("harness: unknown run kind " + spec.Kind)
			}
		}
		if spec.Salt != "" {
			unsalt(obs, spec.Salt)
		}
		if err != nil {
			// error texts carry sandbox paths; keep observations independent of where the sandbox is
			e := strings.ReplaceAll(err.Error(), spec.Dir, "$SANDBOX")
			obs.Err = strings.ReplaceAll(e, strings.TrimPrefix(spec.Dir, "/"), "$SANDBOX")
		}
	}
	collect := func(s *Sched) {
		s.mu.Lock()
		defer s.mu.Unlock()
		obs.Over, obs.Calls, obs.Steps, obs.Choices, obs.MaxPar, obs.Fired, obs.Actors = s.Over, s.Calls, s.Steps, s.Choices, s.MaxPar, s.Fired, s.actorsN
		obs.Trace = s.trace
		obs.TraceFP = s.TraceFP()
	}

	if spec.Pass {
		s := newSched(nil, nil, callBudget, true)
		body(s) // a panic propagates to the kernel (class "panic")
		collect(s)
		return obs
	}

	func() {
		defer func() {
			if r := recover(); r != nil {
				if strings.Contains(fmt.Sprint(r), "deadlock") {
					obs.Deadlock = true
					return
				}
				panic(r)
			}
		}()
		sim.Bubble(t, func() {
			s := newSched(spec.Sched, spec.Faults, callBudget, false)
			var done atomic.Bool
			go func() {
				// outermost harness frame of the run: a panic of the caller's goroutine becomes an observation
				defer func() {
					if r := recover(); r != nil {
						obs.Panic = fmt.Sprintf("%v\n%s", r, trim(string(debug.Stack()), 30))
					}
					done.Store(true)
				}()
				body(s)
			}()
			s.Run()
			sim.Wait()
			if !done.Load() {
				obs.Deadlock = true
			}
			collect(s)
		})
	}()
	return obs
}

func trim(s string, n int) string {
	l := strings.Split(s, "\n")
	if len(l) > n {
		l = l[:n]
	}
	return strings.Join(l, "\n")
}

// copyTree copies a sandbox directory (regular files only).
func copyTree(src, dst string) error {
	return filepath.Walk(src, func(p string, info os.FileInfo, err error) error {
		if err != nil {
			return err
		}
		rel, _ := filepath.Rel(src, p)
		if info.IsDir() {
			return os.MkdirAll(filepath.Join(dst, rel), 0o755)
		}
		b, err := os.ReadFile(p)
		if err != nil {
			return err
		}
		return os.WriteFile(filepath.Join(dst, rel), b, 0o644)
	})
}

// unsalt strips the run's id suffix from everything the run reported.
func unsalt(obs *Obs, salt string) {
	us := func(vs []result.Vuln) {
		for i := range vs {
			vs[i].ID = strings.TrimSuffix(vs[i].ID, salt)
		}
	}
	us(obs.Res.Vulnerabilities)
	for i := range obs.Res.Patches {
		us(obs.Res.Patches[i].Fixed)
		us(obs.Res.Patches[i].Introduced)
	}
	if obs.An != nil {
		for i := range obs.An.VulnIDs {
			obs.An.VulnIDs[i] = strings.TrimSuffix(obs.An.VulnIDs[i], salt)
		}
		for i := range obs.An.Patches {
			us(obs.An.Patches[i].Fixed)
			us(obs.An.Patches[i].Introduced)
		}
	}
}
