// Package remed is world R: generated package universes served by the real deps.dev
// LocalClient (behind SimClient), a SimMatcher answering from explicit affected-version
// lists, a cooperative seeded scheduler, and the real guidedremediation.FixVulns / Update
// writing manifests into a per-scenario sandbox directory.
package remed

import (
	"encoding/json"
	"fmt"
	"os"
	"path/filepath"
	"sort"
	"strings"
	"time"

	"deps.dev/util/resolve"
	"deps.dev/util/resolve/dep"
	"deps.dev/util/resolve/version"
	"github.com/google/osv-scalibr/guidedremediation/options"
	"github.com/google/osv-scalibr/guidedremediation/upgrade"
	"github.com/ossf/osv-schema/bindings/go/osvschema"
)

// ---- the model (everything is JSON; a scenario is self-contained) ----

// Dep is one dependency edge of a universe version.
type Dep struct {
	Name string `json:"n"`
	Req  string `json:"r"`
}

// Ver is one concrete version of a universe package.
type Ver struct {
	V    string `json:"v"`
	Deps []Dep  `json:"d,omitempty"`
	Tags string `json:"t,omitempty"` // npm dist-tags, e.g. "latest"
}

// Pkg is one package of the universe.
type Pkg struct {
	Name string `json:"name"`
	Vers []Ver  `json:"vers"`
}

// NpmEntry is one line of a package.json dependency section.
type NpmEntry struct {
	Section string `json:"s"` // dependencies | devDependencies | optionalDependencies
	Key     string `json:"k"`
	Spec    string `json:"v"` // requirement, or npm:<real>@<requirement> for an alias
}

// MDep is one Maven dependency declaration; V may contain ${property} placeholders.
type MDep struct {
	G     string `json:"g"`
	A     string `json:"a"`
	V     string `json:"v"`
	Scope string `json:"scope,omitempty"`
}

func (d MDep) Name() string { return d.G + ":" + d.A }

// Prop is one Maven property.
type Prop struct {
	K string `json:"k"`
	V string `json:"v"`
}

// Profile is a Maven profile (not activated unless Active).
type Profile struct {
	ID     string `json:"id"` // "" = no <id> element (legal; Maven defaults it)
	Deps   []MDep `json:"deps,omitempty"`
	Mgmt   []MDep `json:"mgmt,omitempty"`   // the profile's own <dependencyManagement>
	Active bool   `json:"active,omitempty"` // <activeByDefault>: merged into the requirements
}

// Pom is the dependency-relevant part of a pom.xml.
type Pom struct {
	Deps     []MDep    `json:"deps,omitempty"`
	Mgmt     []MDep    `json:"mgmt,omitempty"`
	Props    []Prop    `json:"props,omitempty"`
	Profiles []Profile `json:"profiles,omitempty"`
	// EmptyMgmt: with no managed dependencies, still render an empty <dependencyManagement/> element.
	EmptyMgmt bool `json:"empty_mgmt,omitempty"`
}

// Manifest is the project under remediation.
type Manifest struct {
	Npm    []NpmEntry `json:"npm,omitempty"`
	Pom    *Pom       `json:"pom,omitempty"`
	Parent *Pom       `json:"parent,omitempty"` // local parent POM at ../<ParentDir>/pom.xml
	// ParentDir is the directory name of the local parent ("" = "parent"); names with an '@'
	// are legal and what the library's origin encoding trips over.
	ParentDir string `json:"parent_dir,omitempty"`
}

func (m *Manifest) parentDir() string {
	if m.ParentDir == "" {
		return "parent"
	}
	return m.ParentDir
}

// Aff lists the affected versions of one package explicitly.
type Aff struct {
	Pkg      string   `json:"pkg"`
	Versions []string `json:"versions"`
	// Range, if set, is [fixed Y, introduced X]: a REDUNDANT OSV range whose events are listed in
	// non-ascending order.  X is in Versions and Y is the next version of the package, so the
	// range affects exactly X and changes no verdict; it only gives the library's event sort
	// something to do (OSV prescribes no event order).
	Range []string `json:"range,omitempty"`
	// Severity of this affected[] entry ("", "high", "low"); used by the library only when the
	// record has no top-level severity.
	Severity string `json:"severity,omitempty"`
}

// VulnSpec is one record of the simulated vulnerability database.
type VulnSpec struct {
	ID       string   `json:"id"`
	Affected []Aff    `json:"affected"`
	Severity string   `json:"severity,omitempty"` // "", "high", "low"
	Aliases  []string `json:"aliases,omitempty"`  // OSV aliases (ids of other records)
	// Withdrawn: the record carries a `withdrawn` timestamp (the database retracted it; the
	// matcher still returns it, as osv.dev does).
	Withdrawn bool `json:"withdrawn,omitempty"`
}

// PkgLevel is a per-package upgrade level.
type PkgLevel struct {
	Pkg   string `json:"pkg"`
	Level string `json:"level"`
}

// Opts are the remediation options of the scenario.
type Opts struct {
	Default         string     `json:"default_level"` // major|minor|patch|none
	Levels          []PkgLevel `json:"levels,omitempty"`
	MaxUpgrades     int        `json:"max_upgrades"`
	NoIntroduce     bool       `json:"no_introduce,omitempty"`
	Ignore          []string   `json:"ignore,omitempty"`
	Explicit        []string   `json:"explicit,omitempty"`
	DevDeps         bool       `json:"dev_deps"`
	MaxDepth        int        `json:"max_depth"`
	MinSeverity     float64    `json:"min_severity,omitempty"`
	MavenManagement bool       `json:"maven_management,omitempty"`
	// ConfigFromStrings: build the upgrade.Config through upgrade.NewConfigFromStrings
	// instead of Set/SetDefault.
	ConfigFromStrings bool `json:"config_from_strings,omitempty"`
	IgnoreDev         bool `json:"ignore_dev,omitempty"` // Update only
}

// World is the generated input: ecosystem, universe, project, vulnerability database, options.
type World struct {
	Sys      string     `json:"sys"`  // npm | maven
	Mode     string     `json:"mode"` // fix | update
	Universe []Pkg      `json:"universe"`
	Manifest Manifest   `json:"manifest"`
	Vulns    []VulnSpec `json:"vulns,omitempty"`
	Opts     Opts       `json:"opts"`
	// VersionsOrder is the order in which the registry lists the versions of a package to
	// the strategies (resolve.Client.Versions promises none): "" = ascending, "desc", "rot".
	VersionsOrder string `json:"versions_order,omitempty"`
}

// Fault is one transient registry/matcher error: the K-th scheduling step of a phase fails.
// Phase 0 counts steps from the start of the run, phase 1 from the first step of a patch
// goroutine (any actor other than the caller of FixVulns).
type Fault struct {
	Phase int `json:"phase"`
	K     int `json:"k"`
}

func (w *World) system() resolve.System {
	if w.Sys == "npm" {
		return resolve.NPM
	}
	return resolve.Maven
}

func (w *World) ecosystem() string {
	if w.Sys == "npm" {
		return "npm"
	}
	return "Maven"
}

func (w *World) pkg(name string) *Pkg {
	for i := range w.Universe {
		if w.Universe[i].Name == name {
			return &w.Universe[i]
		}
	}
	return nil
}

// level returns the configured level name for a package (own lookup, not the library's).
func (o *Opts) level(pkg string) string {
	for _, l := range o.Levels {
		if l.Pkg == pkg {
			return l.Level
		}
	}
	return o.Default
}

func parseLevel(s string) upgrade.Level {
	switch s {
	case "minor":
		return upgrade.Minor
	case "patch":
		return upgrade.Patch
	case "none":
		return upgrade.None
	}
	return upgrade.Major
}

func (o *Opts) upgradeConfig() upgrade.Config {
	if o.ConfigFromStrings {
		// the way a command-line caller builds it: "<default level>", "<package>:<level>", ...
		ss := []string{o.Default}
		for _, l := range o.Levels {
			ss = append(ss, l.Pkg+":"+l.Level)
		}
		return upgrade.NewConfigFromStrings(ss)
	}
	c := upgrade.NewConfig()
	c.SetDefault(parseLevel(o.Default))
	for _, l := range o.Levels {
		c.Set(l.Pkg, parseLevel(l.Level))
	}
	return c
}

func (o *Opts) remediation() options.RemediationOptions {
	return options.RemediationOptions{
		IgnoreVulns:       append([]string(nil), o.Ignore...),
		ExplicitVulns:     append([]string(nil), o.Explicit...),
		DevDeps:           o.DevDeps,
		MinSeverity:       o.MinSeverity,
		MaxDepth:          o.MaxDepth,
		UpgradeConfig:     o.upgradeConfig(),
		ResolutionOptions: options.ResolutionOptions{MavenManagement: o.MavenManagement},
	}
}

// ---- universe -> real LocalClient ----

const parentName = "verif:parent"

// localClient builds a fresh deps.dev LocalClient serving the universe.
func (w *World) localClient() *resolve.LocalClient {
	lc := resolve.NewLocalClient()
	sys := w.system()
	for _, p := range w.Universe {
		pk := resolve.PackageKey{System: sys, Name: p.Name}
		for _, v := range p.Vers {
			rv := resolve.Version{VersionKey: resolve.VersionKey{PackageKey: pk, VersionType: resolve.Concrete, Version: v.V}}
			if v.Tags != "" {
				rv.SetAttr(version.Tags, v.Tags)
			}
			var deps []resolve.RequirementVersion
			for _, d := range v.Deps {
				deps = append(deps, resolve.RequirementVersion{
					VersionKey: resolve.VersionKey{PackageKey: resolve.PackageKey{System: sys, Name: d.Name}, VersionType: resolve.Requirement, Version: d.Req},
					Type:       dep.NewType(),
				})
			}
			lc.AddVersion(rv, deps)
		}
	}
	if w.Sys == "maven" && w.Manifest.Parent != nil {
		// Update models the parent as a requirement and asks the registry for its versions.
		pk := resolve.PackageKey{System: sys, Name: parentName}
		lc.AddVersion(resolve.Version{VersionKey: resolve.VersionKey{PackageKey: pk, VersionType: resolve.Concrete, Version: "1.0.0"}}, nil)
	}
	return lc
}

// schemaText renders the universe in deps.dev schema syntax (for humans: evidence samples).
func (w *World) schemaText() string {
	var b strings.Builder
	for _, p := range w.Universe {
		b.WriteString(p.Name + "\n")
		for _, v := range p.Vers {
			b.WriteString("\t" + v.V)
			if v.Tags != "" {
				b.WriteString(" [" + v.Tags + "]")
			}
			b.WriteString("\n")
			for _, d := range v.Deps {
				b.WriteString("\t\t" + d.Name + "@" + d.Req + "\n")
			}
		}
	}
	return b.String()
}

// ---- vulnerability database ----

const (
	cvssHigh = "CVSS:3.1/AV:N/AC:L/PR:N/UI:N/S:U/C:H/I:H/A:H" // 9.8
	cvssLow  = "CVSS:3.1/AV:L/AC:H/PR:H/UI:R/S:U/C:L/I:N/A:N" // 1.8
)

// osv builds the OSV records; salt is appended to every id and alias (see RunSpec.Salt).
func (w *World) osv(salt string) []*osvschema.Vulnerability {
	var out []*osvschema.Vulnerability
	for _, v := range w.Vulns {
		o := &osvschema.Vulnerability{ID: v.ID + salt}
		for _, a := range v.Aliases {
			o.Aliases = append(o.Aliases, a+salt)
		}
		for _, a := range v.Affected {
			oa := osvschema.Affected{
				Package:  osvschema.Package{Ecosystem: w.ecosystem(), Name: a.Pkg},
				Versions: append([]string(nil), a.Versions...),
			}
			switch a.Severity {
			case "high":
				oa.Severity = []osvschema.Severity{{Type: osvschema.SeverityCVSSV3, Score: cvssHigh}}
			case "low":
				oa.Severity = []osvschema.Severity{{Type: osvschema.SeverityCVSSV3, Score: cvssLow}}
			}
			if len(a.Range) == 2 {
				oa.Ranges = []osvschema.Range{{Type: osvschema.RangeEcosystem, Events: []osvschema.Event{{Fixed: a.Range[0]}, {Introduced: a.Range[1]}}}}
			}
			o.Affected = append(o.Affected, oa)
		}
		if v.Withdrawn {
			o.Withdrawn = time.Date(2024, 1, 2, 3, 4, 5, 0, time.UTC)
		}
		switch v.Severity {
		case "high":
			o.Severity = []osvschema.Severity{{Type: osvschema.SeverityCVSSV3, Score: cvssHigh}}
		case "low":
			o.Severity = []osvschema.Severity{{Type: osvschema.SeverityCVSSV3, Score: cvssLow}}
		}
		out = append(out, o)
	}
	return out
}

// affected reports whether the model says vulnerability v affects name@ver.
func (v *VulnSpec) affects(name, ver string) bool {
	for _, a := range v.Affected {
		if a.Pkg != name {
			continue
		}
		for _, x := range a.Versions {
			if x == ver {
				return true
			}
		}
	}
	return false
}

// ---- manifest rendering (the harness's own writer; no library code involved) ----

func (m *Manifest) clone() Manifest {
	b, _ := json.Marshal(m)
	var c Manifest
	json.Unmarshal(b, &c)
	return c
}

func renderPackageJSON(entries []NpmEntry) []byte {
	secs := map[string]map[string]string{}
	for _, e := range entries {
		if secs[e.Section] == nil {
			secs[e.Section] = map[string]string{}
		}
		secs[e.Section][e.Key] = e.Spec
	}
	var b strings.Builder
	b.WriteString("{\n  \"name\": \"verif-root\",\n  \"version\": \"1.0.0\"")
	for _, s := range []string{"dependencies", "devDependencies", "optionalDependencies"} {
		m := secs[s]
		if m == nil {
			continue
		}
		keys := make([]string, 0, len(m))
		for k := range m {
			keys = append(keys, k)
		}
		sort.Strings(keys)
		b.WriteString(",\n  " + jsonStr(s) + ": {")
		for i, k := range keys {
			if i > 0 {
				b.WriteString(",")
			}
			b.WriteString("\n    " + jsonStr(k) + ": " + jsonStr(m[k]))
		}
		b.WriteString("\n  }")
	}
	b.WriteString("\n}\n")
	return []byte(b.String())
}

func jsonStr(s string) string {
	b, _ := json.Marshal(s)
	return string(b)
}

func renderDeps(b *strings.Builder, ind string, deps []MDep) {
	b.WriteString(ind + "<dependencies>\n")
	for _, d := range deps {
		b.WriteString(ind + "  <dependency>\n")
		b.WriteString(ind + "    <groupId>" + d.G + "</groupId>\n")
		b.WriteString(ind + "    <artifactId>" + d.A + "</artifactId>\n")
		if d.V != "" {
			b.WriteString(ind + "    <version>" + d.V + "</version>\n")
		}
		if d.Scope != "" {
			b.WriteString(ind + "    <scope>" + d.Scope + "</scope>\n")
		}
		b.WriteString(ind + "  </dependency>\n")
	}
	b.WriteString(ind + "</dependencies>\n")
}

func renderPom(p *Pom, isParent bool, parentDir string) []byte {
	hasParent := parentDir != ""
	var b strings.Builder
	b.WriteString("<project>\n  <modelVersion>4.0.0</modelVersion>\n")
	if isParent {
		b.WriteString("  <groupId>verif</groupId>\n  <artifactId>parent</artifactId>\n  <version>1.0.0</version>\n  <packaging>pom</packaging>\n")
	} else {
		if hasParent {
			b.WriteString("  <parent>\n    <groupId>verif</groupId>\n    <artifactId>parent</artifactId>\n    <version>1.0.0</version>\n    <relativePath>../" + parentDir + "/pom.xml</relativePath>\n  </parent>\n")
		}
		b.WriteString("  <groupId>verif</groupId>\n  <artifactId>root</artifactId>\n  <version>1.0.0</version>\n")
	}
	if len(p.Props) > 0 {
		b.WriteString("  <properties>\n")
		for _, pr := range p.Props {
			b.WriteString("    <" + pr.K + ">" + pr.V + "</" + pr.K + ">\n")
		}
		b.WriteString("  </properties>\n")
	}
	if len(p.Mgmt) == 0 && p.EmptyMgmt {
		b.WriteString("  <dependencyManagement>\n  </dependencyManagement>\n")
	}
	if len(p.Mgmt) > 0 {
		b.WriteString("  <dependencyManagement>\n")
		renderDeps(&b, "    ", p.Mgmt)
		b.WriteString("  </dependencyManagement>\n")
	}
	if len(p.Deps) > 0 {
		renderDeps(&b, "  ", p.Deps)
	}
	if len(p.Profiles) > 0 {
		b.WriteString("  <profiles>\n")
		for _, pf := range p.Profiles {
			b.WriteString("    <profile>\n")
			if pf.ID != "" {
				b.WriteString("      <id>" + pf.ID + "</id>\n")
			}
			if pf.Active {
				b.WriteString("      <activation>\n        <activeByDefault>true</activeByDefault>\n      </activation>\n")
			}
			if len(pf.Mgmt) > 0 {
				b.WriteString("      <dependencyManagement>\n")
				renderDeps(&b, "        ", pf.Mgmt)
				b.WriteString("      </dependencyManagement>\n")
			}
			if len(pf.Deps) > 0 {
				renderDeps(&b, "      ", pf.Deps)
			}
			b.WriteString("    </profile>\n")
		}
		b.WriteString("  </profiles>\n")
	}
	b.WriteString("</project>\n")
	return []byte(b.String())
}

// manifestName is the file name FixVulns dispatches on.
func (w *World) manifestName() string {
	if w.Sys == "npm" {
		return "package.json"
	}
	return "pom.xml"
}

// writeProject renders the manifest m into dir/project (and dir/parent) and returns the
// path of the manifest file.
func (w *World) writeProject(dir string, m *Manifest) (string, error) {
	pd := filepath.Join(dir, "project")
	if err := os.MkdirAll(pd, 0o755); err != nil {
		return "", err
	}
	path := filepath.Join(pd, w.manifestName())
	if w.Sys == "npm" {
		return path, os.WriteFile(path, renderPackageJSON(m.Npm), 0o644)
	}
	if m.Parent != nil {
		if err := os.MkdirAll(filepath.Join(dir, m.parentDir()), 0o755); err != nil {
			return "", err
		}
		if err := os.WriteFile(filepath.Join(dir, m.parentDir(), "pom.xml"), renderPom(m.Parent, true, ""), 0o644); err != nil {
			return "", err
		}
	}
	pd2 := ""
	if m.Parent != nil {
		pd2 = m.parentDir()
	}
	return path, os.WriteFile(path, renderPom(m.Pom, false, pd2), 0o644)
}

// describe is the abbreviated, human-readable form of a world for evidence and details.
func (w *World) describe() string {
	var man string
	if w.Sys == "npm" {
		var parts []string
		for _, e := range w.Manifest.Npm {
			parts = append(parts, fmt.Sprintf("%s[%s]=%s", e.Section[:3], e.Key, e.Spec))
		}
		man = strings.Join(parts, " ")
	} else {
		f := func(p *Pom) string {
			if p == nil {
				return "-"
			}
			var parts []string
			for _, d := range p.Deps {
				parts = append(parts, "dep "+d.Name()+"@"+d.V+scopeStr(d.Scope))
			}
			for _, d := range p.Mgmt {
				parts = append(parts, "mgmt "+d.Name()+"@"+d.V)
			}
			for _, pr := range p.Props {
				parts = append(parts, "prop "+pr.K+"="+pr.V)
			}
			if p.EmptyMgmt && len(p.Mgmt) == 0 {
				parts = append(parts, "empty <dependencyManagement/>")
			}
			for _, pf := range p.Profiles {
				for _, d := range pf.Deps {
					act := ""
					if pf.Active {
						act = "(active)"
					}
					parts = append(parts, "profile "+pf.ID+act+" "+d.Name()+"@"+d.V)
				}
				for _, d := range pf.Mgmt {
					parts = append(parts, "profile "+pf.ID+" mgmt "+d.Name()+"@"+d.V)
				}
				if len(pf.Deps)+len(pf.Mgmt) == 0 {
					parts = append(parts, "profile "+pf.ID+" (empty)")
				}
			}
			return strings.Join(parts, "; ")
		}
		man = "pom{" + f(w.Manifest.Pom) + "} parent(../" + w.Manifest.parentDir() + "){" + f(w.Manifest.Parent) + "}"
	}
	var vs []string
	for _, v := range w.Vulns {
		var as []string
		for _, a := range v.Affected {
			r := ""
			if len(a.Range) == 2 {
				r = "+range[fixed " + a.Range[0] + ", introduced " + a.Range[1] + "]"
			}
			as = append(as, a.Pkg+"@{"+strings.Join(a.Versions, ",")+"}"+sevStr(a.Severity)+r)
		}
		al := ""
		if len(v.Aliases) > 0 {
			al = "(alias " + strings.Join(v.Aliases, ",") + ")"
		}
		if v.Withdrawn {
			al += "(withdrawn)"
		}
		vs = append(vs, v.ID+al+sevStr(v.Severity)+":"+strings.Join(as, "+"))
	}
	ob, _ := json.Marshal(w.Opts)
	ord := ""
	if w.VersionsOrder != "" {
		ord = " | registry lists versions " + w.VersionsOrder
	}
	return fmt.Sprintf("%s/%s manifest: %s | vulns: %s | opts: %s%s | universe:\n%s", w.Sys, w.Mode, man, strings.Join(vs, " "), ob, ord, w.schemaText())
}

func scopeStr(s string) string {
	if s == "" {
		return ""
	}
	return "(" + s + ")"
}

func sevStr(s string) string {
	if s == "" {
		return ""
	}
	return "[" + s + "]"
}
