package remed

import (
	"os"
	"runtime/debug"
	"testing"

	"verif/sim"
)

// TestWorker is the entry point verifctl spawns (one OS process per worker).
func TestWorker(t *testing.T) {
	sim.Quiet()
	// A runaway recursion in the library must kill the worker quickly, not after 1 GB of stack:
	// the coordinator turns the death of a crash-prone check's worker into a `crash` violation
	// whose replay is the scenario in progress.
	debug.SetMaxStack(64 << 20)
	// Budgets of a multi-part check are max-merged over its parts; REMED_QUICK_SECONDS (Part.Env)
	// keeps this world's share of a quick check short.
	if s := os.Getenv("REMED_QUICK_SECONDS"); s != "" && os.Getenv("VERIF_TIER") != "thorough" && os.Getenv("VERIF_REPLAY") == "" {
		os.Setenv("VERIF_MAX_SECONDS", s)
	}
	sim.RunWorker(t, []sim.Check{C11{}, C12{}, NewC16a()})
}
