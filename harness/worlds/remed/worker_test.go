package remed

import (
	"os"
	"testing"

	"verif/sim"
)

// TestWorker is the entry point verifctl spawns (one OS process per worker).
func TestWorker(t *testing.T) {
	sim.Quiet()
	// Budgets of a multi-part check are max-merged over its parts; REMED_QUICK_SECONDS (Part.Env)
	// keeps this world's share of a quick check short.
	if s := os.Getenv("REMED_QUICK_SECONDS"); s != "" && os.Getenv("VERIF_TIER") != "thorough" && os.Getenv("VERIF_REPLAY") == "" {
		os.Setenv("VERIF_MAX_SECONDS", s)
	}
	sim.RunWorker(t, []sim.Check{C11{}, C12{}, NewC16a()})
}
