package remed

import (
	"context"
	"crypto/sha256"
	"encoding/hex"
	"errors"
	"fmt"
	"runtime"
	"sort"
	"strconv"
	"strings"
	"sync"

	"deps.dev/util/resolve"
	"github.com/google/osv-scalibr/extractor"
	"github.com/ossf/osv-schema/bindings/go/osvschema"
	"verif/sim"
)

// The cooperative scheduler of world R.
//
// The actors are goroutines created by the code under test (the caller of FixVulns and one
// goroutine per patch attempt, started by common.ComputePatches in the order of a Go map
// iteration).  The harness cannot name them at creation, so an actor is named by content: the
// hash of its own call history.  Parked actors are ordered by that name, which makes a
// schedule vector mean the same interleaving in every process, independent of goroutine ids,
// launch order and GOMAXPROCS.  Actors with identical names (identical histories and the same
// pending call) are indistinguishable to the simulator; they are released together as one
// step, one after the other.
//
// Scheduling points are (a) every call of the deps.dev resolver into the registry client and
// (b) every matcher call.  Registry calls made by the strategies themselves (relaxer,
// ConstrainingSubgraph, getVersionsGreater, suggest) are recorded as part of the actor's
// current segment but are not scheduling points: their order within one goroutine follows Go
// map iteration inside the library, which the simulator does not own.
type Sched struct {
	mu      sync.Mutex
	pass    bool // pass-through: no parking, calls only counted
	actors  map[int64]*actor
	first   int64 // goroutine id of the first actor seen (the caller of FixVulns)
	parked  []*slot
	vec     []int
	pos     int
	faults  []Fault
	budget  int
	Calls   int  // registry + matcher calls
	Over    bool // call budget exceeded: every further call fails
	Steps   int  // scheduling steps (releases)
	steps1  int  // steps of phase 1 (patch goroutines)
	Choices int  // steps at which more than one distinguishable actor was parked
	MaxPar  int
	Fired   int // faults delivered
	last    map[int64]bool
	trace   []string // one line per step: the interleaving
	actorsN int
}

type actor struct {
	key string   // hash of the actor's history so far
	seg []string // calls since the last scheduling point that were not scheduling points
}

type slot struct {
	g    int64
	a    *actor
	call string
	ch   chan bool // true => fail this call with a transient error
}

var errTransient = errors.New("sim: transient registry error (503)")
var errBudget = errors.New("sim: call budget exceeded")

func newSched(vec []int, faults []Fault, budget int, pass bool) *Sched {
	return &Sched{actors: map[int64]*actor{}, vec: vec, faults: faults, budget: budget, pass: pass, last: map[int64]bool{}}
}

func goid() int64 {
	var buf [64]byte
	n := runtime.Stack(buf[:], false)
	f := strings.Fields(string(buf[:n]))
	if len(f) < 2 {
		return -1
	}
	id, _ := strconv.ParseInt(f[1], 10, 64)
	return id
}

func h(parts ...string) string {
	s := sha256.New()
	for _, p := range parts {
		s.Write([]byte(p))
		s.Write([]byte{0})
	}
	return hex.EncodeToString(s.Sum(nil)[:12])
}

// inResolver reports whether the current call comes from a deps.dev resolver (their call
// order is deterministic) rather than from strategy code of the library.
func inResolver() bool {
	var pcs [48]uintptr
	n := runtime.Callers(3, pcs[:])
	fr := runtime.CallersFrames(pcs[:n])
	for {
		f, more := fr.Next()
		if strings.HasPrefix(f.Function, "deps.dev/util/resolve/npm.") || strings.HasPrefix(f.Function, "deps.dev/util/resolve/maven.") {
			return true
		}
		if !more {
			return false
		}
	}
}

// enter is called at the start of every seam call.  It returns a non-nil error if the call
// has to fail (transient fault, or budget exceeded).
func (s *Sched) enter(call string, point bool) error {
	s.mu.Lock()
	s.Calls++
	if s.Calls > s.budget {
		s.Over = true
	}
	if s.Over {
		s.mu.Unlock()
		return errBudget
	}
	if s.pass {
		s.mu.Unlock()
		return nil
	}
	g := goid()
	a := s.actors[g]
	if a == nil {
		a = &actor{key: "0"}
		s.actors[g] = a
		s.actorsN++
		if s.first == 0 {
			s.first = g
		}
	}
	if !point {
		a.seg = append(a.seg, call)
		s.mu.Unlock()
		return nil
	}
	if len(a.seg) > 0 {
		sort.Strings(a.seg)
		a.key = h(a.key, strings.Join(a.seg, "\n"))
		a.seg = nil
	}
	sl := &slot{g: g, a: a, call: call, ch: make(chan bool, 1)}
	s.parked = append(s.parked, sl)
	s.mu.Unlock()
	if <-sl.ch {
		return errTransient
	}
	return nil
}

// Run drives the actors until none is parked.  Must be called from the bubble's root.
func (s *Sched) Run() {
	for {
		sim.Wait()
		s.mu.Lock()
		if len(s.parked) == 0 {
			s.mu.Unlock()
			return
		}
		sort.SliceStable(s.parked, func(i, j int) bool {
			a, b := s.parked[i], s.parked[j]
			if a.a.key != b.a.key {
				return a.a.key < b.a.key
			}
			return a.call < b.call
		})
		// classes of indistinguishable actors
		var classes [][]*slot
		for _, p := range s.parked {
			if n := len(classes); n > 0 && classes[n-1][0].a.key == p.a.key && classes[n-1][0].call == p.call {
				classes[n-1] = append(classes[n-1], p)
			} else {
				classes = append(classes, []*slot{p})
			}
		}
		// the class released last comes first: schedule value 0 = "keep running the same actor",
		// so the all-zero vector is run-to-completion (what instantly answering mocks give).
		for i, c := range classes {
			cont := false
			for _, p := range c {
				if s.last[p.g] {
					cont = true
				}
			}
			if cont {
				copy(classes[1:i+1], classes[:i])
				classes[0] = c
				break
			}
		}
		if len(s.parked) > s.MaxPar {
			s.MaxPar = len(s.parked)
		}
		idx := 0
		if len(classes) > 1 {
			s.Choices++
			if s.pos < len(s.vec) {
				idx = s.vec[s.pos]
				if idx < 0 {
					idx = -idx
				}
				idx %= len(classes)
				s.pos++
			}
		}
		cls := classes[idx]
		rest := s.parked[:0]
		for _, c := range classes {
			if &c[0] != &cls[0] {
				rest = append(rest, c...)
			}
		}
		s.parked = rest
		phase1 := cls[0].g != s.first
		fail := false
		for _, f := range s.faults {
			if (f.Phase == 0 && f.K == s.Steps) || (f.Phase == 1 && phase1 && f.K == s.steps1) {
				fail = true
			}
		}
		s.Steps++
		if phase1 {
			s.steps1++
		}
		if fail {
			s.Fired += len(cls)
		}
		s.trace = append(s.trace, fmt.Sprintf("%s %s x%d%s", cls[0].a.key, cls[0].call, len(cls), map[bool]string{true: " FAULT", false: ""}[fail]))
		s.last = map[int64]bool{}
		for _, p := range cls {
			s.last[p.g] = true
			p.a.key = h(p.a.key, p.call, fmt.Sprint(fail))
		}
		s.mu.Unlock()
		for i, p := range cls {
			if i > 0 {
				sim.Wait()
			}
			p.ch <- fail
		}
	}
}

// TraceFP is the fingerprint of the interleaving: the sequence of (actor, call) releases.
func (s *Sched) TraceFP() string { return h(s.trace...) }

// ---- SimClient: the real LocalClient behind a scheduling point and a fault switch ----

// SimClient wraps the real deps.dev LocalClient.  LocalClient sorts its version slices in
// place and hands out internal slices, so calls are serialised and results copied.
type SimClient struct {
	s     *Sched
	mu    sync.Mutex
	lc    *resolve.LocalClient
	order string // World.VersionsOrder
}

func (c *SimClient) Version(ctx context.Context, vk resolve.VersionKey) (resolve.Version, error) {
	if err := c.s.enter("V "+vk.Name+" "+vk.Version, inResolver()); err != nil {
		return resolve.Version{}, err
	}
	c.mu.Lock()
	defer c.mu.Unlock()
	return c.lc.Version(ctx, vk)
}

func (c *SimClient) Versions(ctx context.Context, pk resolve.PackageKey) ([]resolve.Version, error) {
	res := inResolver()
	if err := c.s.enter("Vs "+pk.Name, res); err != nil {
		return nil, err
	}
	c.mu.Lock()
	defer c.mu.Unlock()
	vs, err := c.lc.Versions(ctx, pk)
	out := append([]resolve.Version(nil), vs...)
	// The Client contract promises no order for Versions.  The deps.dev resolvers are served
	// the LocalClient's order; the library's own callers get the scenario's order.
	if !res && len(out) > 1 {
		switch c.order {
		case "desc":
			for i, j := 0, len(out)-1; i < j; i, j = i+1, j-1 {
				out[i], out[j] = out[j], out[i]
			}
		case "rot":
			k := len(out) / 2
			out = append(append([]resolve.Version(nil), out[k:]...), out[:k]...)
		}
	}
	return out, err
}

func (c *SimClient) Requirements(ctx context.Context, vk resolve.VersionKey) ([]resolve.RequirementVersion, error) {
	if err := c.s.enter("R "+vk.Name+" "+vk.Version, inResolver()); err != nil {
		return nil, err
	}
	c.mu.Lock()
	defer c.mu.Unlock()
	rs, err := c.lc.Requirements(ctx, vk)
	out := make([]resolve.RequirementVersion, len(rs))
	for i, r := range rs {
		out[i] = r
		out[i].Type = r.Type.Clone()
	}
	return out, err
}

func (c *SimClient) MatchingVersions(ctx context.Context, vk resolve.VersionKey) ([]resolve.Version, error) {
	if err := c.s.enter("MV "+vk.Name+" "+vk.Version, inResolver()); err != nil {
		return nil, err
	}
	c.mu.Lock()
	defer c.mu.Unlock()
	vs, err := c.lc.MatchingVersions(ctx, vk)
	return append([]resolve.Version(nil), vs...), err
}

// ---- SimMatcher: the vulnerability database of the model ----

// SimMatcher answers from the explicit affected-version lists of the scenario.
type SimMatcher struct {
	s     *Sched
	w     *World
	osv   []*osvschema.Vulnerability
	mu    sync.Mutex
	First [][2]string // packages of the first query: the nodes of the initially resolved graph
	Seen  bool
}

func (m *SimMatcher) MatchVulnerabilities(ctx context.Context, pkgs []*extractor.Package) ([][]*osvschema.Vulnerability, error) {
	var names []string
	for _, p := range pkgs {
		names = append(names, p.Name+"@"+p.Version)
	}
	if m.s != nil { // nil = free-running: no synchronisation at all
		if err := m.s.enter("M "+h(names...), true); err != nil {
			return nil, err
		}
		m.mu.Lock()
		if !m.Seen {
			m.Seen = true
			for _, p := range pkgs {
				m.First = append(m.First, [2]string{p.Name, p.Version})
			}
		}
		m.mu.Unlock()
	}
	out := make([][]*osvschema.Vulnerability, len(pkgs))
	for i, p := range pkgs {
		for j := range m.w.Vulns {
			if m.w.Vulns[j].affects(p.Name, p.Version) {
				out[i] = append(out[i], m.osv[j])
			}
		}
	}
	return out, nil
}

// ---- free-running mode: no scheduler and NO synchronisation inside the stubs ----
//
// Mutexes (and atomics) in the stubs order the patch goroutines' memory accesses for the race
// detector and so hide unsynchronised sharing inside the library.  The frozen client serves the
// same universe from immutable data, answering exactly as LocalClient does (Versions in
// LocalClient order, MatchingVersions = resolve.MatchRequirement on a private copy).

type frozenClient struct {
	vers    map[resolve.PackageKey][]resolve.Version
	imports map[resolve.VersionKey][]resolve.RequirementVersion
}

func freeze(lc *resolve.LocalClient) *frozenClient {
	f := &frozenClient{vers: map[resolve.PackageKey][]resolve.Version{}, imports: map[resolve.VersionKey][]resolve.RequirementVersion{}}
	for pk, vs := range lc.PackageVersions {
		f.vers[pk] = append([]resolve.Version(nil), vs...)
		for _, v := range vs {
			if rs, err := lc.Requirements(context.Background(), v.VersionKey); err == nil {
				f.imports[v.VersionKey] = rs
			}
		}
	}
	return f
}

func (c *frozenClient) Version(ctx context.Context, vk resolve.VersionKey) (resolve.Version, error) {
	for _, v := range c.vers[vk.PackageKey] {
		if v.VersionKey == vk {
			return v, nil
		}
	}
	return resolve.Version{}, fmt.Errorf("version %v: %w", vk, resolve.ErrNotFound)
}

func (c *frozenClient) Versions(ctx context.Context, pk resolve.PackageKey) ([]resolve.Version, error) {
	vs, ok := c.vers[pk]
	if !ok {
		return nil, fmt.Errorf("package %v: %w", pk, resolve.ErrNotFound)
	}
	return append([]resolve.Version(nil), vs...), nil
}

func (c *frozenClient) Requirements(ctx context.Context, vk resolve.VersionKey) ([]resolve.RequirementVersion, error) {
	rs, ok := c.imports[vk]
	if !ok {
		return nil, fmt.Errorf("version %v: %w", vk, resolve.ErrNotFound)
	}
	out := make([]resolve.RequirementVersion, len(rs))
	for i, r := range rs {
		out[i] = r
		out[i].Type = r.Type.Clone()
	}
	return out, nil
}

func (c *frozenClient) MatchingVersions(ctx context.Context, vk resolve.VersionKey) ([]resolve.Version, error) {
	vs, ok := c.vers[vk.PackageKey]
	if !ok {
		return nil, fmt.Errorf("version: %v: %w", vk, resolve.ErrNotFound)
	}
	return resolve.MatchRequirement(vk, append([]resolve.Version(nil), vs...)), nil
}
