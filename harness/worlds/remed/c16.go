package remed

import (
	"encoding/json"
	"fmt"
	"os"
	"path/filepath"
	"strings"
	"testing"

	"github.com/google/osv-scalibr/guidedremediation/result"
	"pgregory.net/rapid"
	"verif/sim"
)

// C16a - part (a) of C16: the patch list does not depend on the goroutine interleaving.
type C16a struct{ rw *sim.RaceWatcher }

func NewC16a() *C16a { return &C16a{rw: sim.NewRaceWatcher()} }

// C16Scenario is one world, the schedule vectors to run it under, and the repetitions per
// schedule (which sample Go map iteration order inside the library).
type C16Scenario struct {
	W      *World  `json:"world"`
	Scheds [][]int `json:"scheds"`
	Reps   int     `json:"reps"`
}

func (*C16a) ID() string { return "C16" }
func (*C16a) Rule() string {
	return "(a) worlds as for C11 (npm/relax and Maven/override, default scoping options, MaxUpgrades=0) with >= 2 vulnerabilities favoured (one goroutine per vulnerability, more for introduced ones); each world is executed under the run-to-completion schedule (what instantly answering mocks give) and under 8 (quick) / 16 (thorough) seeded schedule vectors, each `reps` times; the complete list returned by the strategy's ComputePatches (overlay export; nothing chosen, nothing written) and the in-scope vulnerability list must be deep-equal in all runs, sorted in the documented patch order (own comparison, not Patch.Compare) with no two adjacent equal elements; additionally one free-running computation (no scheduler) must return the same list, and the real FixVulns runs under the first three schedules and its Result must be equal; built with -race: any race report is a violation; scheduling points: every registry call of the deps.dev resolver and every matcher call, channel hand-overs sequenced by quiescence; non-trivial = at least 2 patch goroutines and at least 2 distinct interleavings (distinct sequences of (actor, call)) observed; distinct = distinct scenario JSON"
}

func (*C16a) Gen(rt *rapid.T, tier string) any {
	w := genWorld(rt, []string{"npm", "npm", "maven"}, []int{0}, true, true)
	n := 8
	if tier == "thorough" {
		n = 16
	}
	sc := &C16Scenario{W: w, Reps: 2}
	for i := 0; i < n; i++ {
		sc.Scheds = append(sc.Scheds, genSched(rt, fmt.Sprintf("sched%d", i)))
	}
	return sc
}

func (*C16a) Decode(raw json.RawMessage) (any, error) {
	var s C16Scenario
	err := json.Unmarshal(raw, &s)
	if err == nil && s.W == nil {
		err = fmt.Errorf("no world in scenario")
	}
	return &s, err
}

// ownCompare is the documented patch order, written independently of result.Patch.Compare:
// (fixed - introduced) per changed package descending, number of fixed descending, number of
// changed packages ascending, names ascending, then new versions ascending (as versions if both
// parse, else as strings), package by package.
func ownCompare(w *World, a, b result.Patch) int {
	sgn := func(x, y int) int {
		switch {
		case x < y:
			return -1
		case x > y:
			return 1
		}
		return 0
	}
	if c := sgn((len(b.Fixed)-len(b.Introduced))*len(a.PackageUpdates), (len(a.Fixed)-len(a.Introduced))*len(b.PackageUpdates)); c != 0 {
		return c
	}
	if c := sgn(len(b.Fixed), len(a.Fixed)); c != 0 {
		return c
	}
	if c := sgn(len(a.PackageUpdates), len(b.PackageUpdates)); c != 0 {
		return c
	}
	for i := range a.PackageUpdates {
		if c := strings.Compare(a.PackageUpdates[i].Name, b.PackageUpdates[i].Name); c != 0 {
			return c
		}
	}
	sys := semverOf(w)
	for i := range a.PackageUpdates {
		x, y := a.PackageUpdates[i].VersionTo, b.PackageUpdates[i].VersionTo
		vx, ex := sys.Parse(x)
		vy, ey := sys.Parse(y)
		if ex != nil || ey != nil {
			if c := strings.Compare(x, y); c != 0 {
				return c
			}
			continue
		}
		if c := vx.Compare(vy); c != 0 {
			return c
		}
	}
	return 0
}

// checkSortedCompact: sorted in the documented order, no two adjacent equal elements.
func checkSortedCompact(w *World, ps []result.Patch, out *sim.Outcome, label, ctx string) {
	for i := 1; i < len(ps); i++ {
		c := ownCompare(w, ps[i-1], ps[i])
		if c > 0 {
			out.Violate("unsorted-patches", "unsorted-patches:"+w.Sys, "%s: patch #%d %s sorts after patch #%d %s; %s", label, i-1, patchString(ps[i-1]), i, patchString(ps[i]), ctx)
		}
		if c == 0 {
			out.Violate("duplicate-patches", "duplicate-patches:"+w.Sys, "%s: patches #%d and #%d compare equal: %s / %s; %s", label, i-1, i, patchString(ps[i-1]), patchString(ps[i]), ctx)
		}
	}
}

func (c *C16a) Run(t *testing.T, scn any) *sim.Outcome {
	sc := scn.(*C16Scenario)
	w := sc.W
	out := &sim.Outcome{}
	dir := scratchDir()
	defer os.RemoveAll(dir)
	ctx := w.describe()
	reps := sc.Reps
	if reps < 1 {
		reps = 1
	}
	opts := w.Opts
	opts.MaxUpgrades = 0

	scheds := append([][]int{nil}, sc.Scheds...)
	label := func(i int) string {
		if i == 0 {
			return "run-to-completion schedule"
		}
		return fmt.Sprintf("schedule %d %v", i, scheds[i])
	}
	digest := func(o *Obs) string {
		if o.An == nil {
			return "error: " + o.Err
		}
		ids := append([]string(nil), o.An.VulnIDs...)
		sortStrings(ids)
		return "vulns " + strings.Join(ids, ",") + "\npatches " + patchesString(o.An.Patches)
	}
	inter := map[string]bool{}
	var fps []string
	ref, refLabel := "", ""
	maxActors := 0
	n := 0
	bad := false
	for si := range scheds {
		for r := 0; r < reps; r++ {
			n++
			o := Execute(t, w, RunSpec{Kind: "all", Dir: filepath.Join(dir, fmt.Sprintf("r%d", n)), Manifest: &w.Manifest, Opts: &opts, Sched: scheds[si], Salt: nextSalt()})
			out.Executions++
			out.Count("seam_calls", int64(o.Calls))
			out.Count("sched_choices", int64(o.Choices))
			if o.Over || o.Deadlock {
				out.Count("run_did_not_finish", 1) // termination is C11's clause
				dumpUnfinished(sc)
				return out
			}
			if o.Panic != "" {
				out.Violate("panic", "panic:"+w.Sys, "panic under %s: %s; %s", label(si), o.Panic, ctx)
				return out
			}
			inter[o.TraceFP] = true
			if r == 0 {
				fps = append(fps, o.TraceFP)
			}
			if o.Actors > maxActors {
				maxActors = o.Actors
			}
			d := digest(o)
			if o.An != nil {
				checkSortedCompact(w, o.An.Patches, out, label(si), ctx)
			}
			if ref == "" {
				ref, refLabel = d, label(si)
			} else if d != ref && !bad {
				bad = true
				class := "schedule-dependent"
				if si == 0 {
					class = "nondeterministic"
				}
				out.Violate(class, class+":"+w.Sys, "the patch computation returns different lists under the %s and under the %s (repetition %d):\n%s\n--\n%s\n; %s", refLabel, label(si), r, ref, d, ctx)
			}
		}
	}
	// one free-running computation (no scheduler: the goroutines run as the Go runtime likes), so
	// that the race detector also sees sharing that the one-at-a-time scheduler serialises
	n++
	if o := Execute(t, w, RunSpec{Kind: "all", Dir: filepath.Join(dir, fmt.Sprintf("r%d", n)), Manifest: &w.Manifest, Opts: &opts, Pass: true, Free: true, Salt: nextSalt()}); !o.Over {
		out.Executions++
		if d := digest(o); d != ref && !bad {
			bad = true
			out.Violate("nondeterministic", "nondeterministic:"+w.Sys+":free-running", "the free-running patch computation returns a different list than the %s:\n%s\n--\n%s\n; %s", refLabel, ref, d, ctx)
		}
	}
	// the real FixVulns, end to end, under the first three schedules
	fref := ""
	for si := 0; si < len(scheds) && si < 3; si++ {
		n++
		o := Execute(t, w, RunSpec{Kind: "fix", Dir: filepath.Join(dir, fmt.Sprintf("r%d", n)), Manifest: &w.Manifest, Opts: &opts, Sched: scheds[si], Salt: nextSalt()})
		out.Executions++
		if o.Over || o.Deadlock || o.Panic != "" {
			break
		}
		checkSortedCompact(w, o.Res.Patches, out, "FixVulns under "+label(si), ctx)
		d := "error " + o.Err + "\nvulns " + vulnsString(o.Res.Vulnerabilities) + "\npatches " + patchesString(o.Res.Patches)
		if fref == "" {
			fref = d
		} else if d != fref && !bad {
			bad = true
			out.Violate("schedule-dependent", "schedule-dependent:"+w.Sys+":fixvulns", "FixVulns returns different results under the run-to-completion schedule and under the %s:\n%s\n--\n%s\n; %s", label(si), fref, d, ctx)
		}
	}
	for _, rr := range c.rw.Poll() {
		out.Violate("data-race", "data-race:"+rr.Key, "race detector report while running the patch computation:\n%s", rr.Text)
		out.NoShrink = true
	}
	if os.Getenv("REMED_TRACE") != "" {
		b, _ := json.Marshal(sc.W)
		fmt.Fprintf(os.Stderr, "REMED_TRACE_WORLD %s\n", b)
	}
	out.HistoryFP = sim.FP([]any{fps, ref})
	out.Count("schedules", int64(len(scheds)))
	out.Count("interleavings_distinct", int64(len(inter)))
	if maxActors-1 >= 2 {
		out.Count("scenarios_with_2plus_patch_goroutines", 1)
	}
	out.Nontrivial = maxActors-1 >= 2 && len(inter) >= 2
	out.Sample = map[string]any{"world": ctx, "schedules": len(scheds), "reps": reps, "patch_goroutines": maxActors - 1, "distinct_interleavings": len(inter), "result": ref}
	return out
}

func sortStrings(s []string) {
	for i := 1; i < len(s); i++ {
		for j := i; j > 0 && s[j] < s[j-1]; j-- {
			s[j], s[j-1] = s[j-1], s[j]
		}
	}
}

var saltSeq int

// nextSalt returns an id suffix that is unique within the process: ids are labels, results do not
// depend on them, but state a (mutated) library keeps per advisory id must not survive a run.
func nextSalt() string {
	saltSeq++
	return fmt.Sprintf("~%d", saltSeq)
}
