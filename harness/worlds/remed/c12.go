package remed

import (
	"encoding/json"
	"fmt"
	"os"
	"path/filepath"
	"sort"
	"strings"
	"testing"

	"pgregory.net/rapid"
	"verif/sim"
)

// C12 - a reported fix is a real fix: re-analysis of the written manifest matches the report.
type C12 struct{}

// C12Scenario is a world plus the simulator's decisions for the first run.
type C12Scenario struct {
	W      *World      `json:"world"`
	Sched  []int       `json:"sched"`
	Faults []Fault     `json:"faults,omitempty"`
	WFault *WriteFault `json:"write_fault,omitempty"`
}

func (C12) ID() string { return "C12" }
func (C12) Rule() string {
	return "worlds as for C11 (npm/relax and Maven/override only) x options: ignore list, explicit list, dev-dependency switch, MaxDepth 1-3, severity threshold with scored/unscored advisories, NoIntroduce, MaxUpgrades mostly 1 (also 0 and 2); run 1 = FixVulns under the scenario's schedule vector with 0-2 transient registry/matcher errors and, in 1 of 8 scenarios, an injected failure of the writer's k-th WriteFile/MkdirAll (build-time redirected os calls); run 2 = a fresh, un-faulted read+resolve+match of a copy of the files run 1 left on disk, same options; checked: (1) exactly one applied patch => ids(run 2) = ids(run 1) - fixed + introduced, (2) no patch reported => requirement set read by the harness's own JSON/XML reader unchanged, (3) no vulnerability in an applied patch's Fixed is marked unactionable; nothing is asserted when FixVulns returns an error; non-trivial = run 1 returned without error and found at least one in-scope vulnerability; distinct = distinct scenario JSON"
}

func (C12) Gen(rt *rapid.T, tier string) any {
	w := genWorld(rt, []string{"npm", "npm", "maven"}, []int{1, 1, 1, 1, 0, 2}, false, false)
	sc := &C12Scenario{W: w, Sched: genSched(rt, "sched"), Faults: genFaults(rt)}
	if chance(rt, "writefault", 1, 8) {
		sc.WFault = &WriteFault{Op: draw(rt, "writefault.op", "WriteFile", "WriteFile", "MkdirAll"), K: draw(rt, "writefault.k", 0, 0, 1)}
	}
	return sc
}

func (C12) Decode(raw json.RawMessage) (any, error) {
	var s C12Scenario
	err := json.Unmarshal(raw, &s)
	if err == nil && s.W == nil {
		err = fmt.Errorf("no world in scenario")
	}
	return &s, err
}

func setString(m map[string]bool) string {
	return "{" + strings.Join(sortedKeys(m), ",") + "}"
}

func (C12) Run(t *testing.T, scn any) *sim.Outcome {
	sc := scn.(*C12Scenario)
	w := sc.W
	out := &sim.Outcome{}
	dir := scratchDir()
	defer os.RemoveAll(dir)
	ctx := w.describe()

	if _, err := w.writeProject(filepath.Join(dir, "orig"), &w.Manifest); err != nil {
		panic("harness: " + err.Error())
	}
	before, err := readReqs(w, filepath.Join(dir, "orig"))
	if err != nil {
		panic("harness: own reader failed on own rendering: " + err.Error())
	}

	run1 := filepath.Join(dir, "run1")
	obs := Execute(t, w, RunSpec{Kind: "fix", Dir: run1, Manifest: &w.Manifest, Sched: sc.Sched, Faults: sc.Faults, WFault: sc.WFault})
	out.Executions++
	r1 := obs.Res
	out.HistoryFP = sim.FP([]any{obs.TraceFP, obs.Err, patchesString(r1.Patches), vulnsString(r1.Vulnerabilities)})
	out.Count("faults_planned", int64(len(sc.Faults)))
	out.Count("faults_fired", int64(obs.Fired))
	if sc.WFault != nil {
		out.Count("write_faults_planned", 1)
		out.Count("write_faults_fired", int64(obs.WFired))
	}
	out.Count("seam_calls", int64(obs.Calls))
	out.Count("sched_choices", int64(obs.Choices))
	wf := ""
	if obs.WFired > 0 {
		wf = ":write-fault"
	}
	switch {
	case obs.Over || obs.Deadlock:
		// termination is C11's clause; a run that did not finish reports nothing to compare
		out.Count("run_did_not_finish", 1)
		dumpUnfinished(sc)
		return out
	case obs.Panic != "":
		out.Violate("panic", "panic:"+w.Sys, "panic in FixVulns: %s; %s", obs.Panic, ctx)
		return out
	}
	if obs.Err != "" {
		out.Count("run_returned_error", 1)
		out.Sample = map[string]any{"world": ctx, "error": obs.Err}
		return out
	}
	out.Nontrivial = len(r1.Vulnerabilities) > 0
	out.Count("patches_applied", int64(len(r1.Patches)))
	var allUps = r1.Patches
	feat := ""
	if len(allUps) > 0 {
		feat = features(w, allUps[0].PackageUpdates, allUps[0].Fixed, allUps[0].Introduced)
	} else {
		feat = features(w, nil)
	}

	// (3) fixed => not unactionable
	unact := map[string]bool{}
	for _, v := range r1.Vulnerabilities {
		if v.Unactionable {
			unact[v.ID] = true
		}
	}
	for _, p := range r1.Patches {
		for _, f := range p.Fixed {
			if unact[f.ID] {
				out.Violate("fixed-unactionable", fmt.Sprintf("fixed-unactionable:%s:%s", w.Sys, features(w, p.PackageUpdates)), "vulnerability %s is fixed by the applied patch %s but marked unactionable in %s; %s", f.ID, patchString(p), vulnsString(r1.Vulnerabilities), ctx)
			}
		}
	}

	// (2) no patch => requirements unchanged
	if len(r1.Patches) == 0 {
		after, err := readReqs(w, run1)
		if err != nil {
			out.Violate("unreadable-manifest", "unreadable-manifest:"+w.Sys+wf, "the written manifest cannot be read back: %v; %s", err, ctx)
		} else if d := diffReqs(before, after); len(d) > 0 {
			out.Violate("changed-without-patch", fmt.Sprintf("changed-without-patch:%s:%s%s", w.Sys, feat, wf), "no patch reported but requirements %v differ on disk: before %v after %v; %s", d, before, after, ctx)
		}
		out.Count("no_patch_checked", 1)
	}

	// (1) exactly one patch applied => fresh analysis = original - fixed + introduced
	if len(r1.Patches) == 1 {
		p := r1.Patches[0]
		run2 := filepath.Join(dir, "run2")
		if err := copyTree(run1, run2); err != nil {
			panic("harness: " + err.Error())
		}
		o2 := Execute(t, w, RunSpec{Kind: "analyse", Dir: run2, Pass: true})
		out.Executions++
		if o2.Err != "" || o2.An == nil {
			out.Violate("reanalysis-failed", fmt.Sprintf("reanalysis-failed:%s:%s%s", w.Sys, feat, wf), "the manifest written by FixVulns cannot be analysed again: %s; applied %s; %s", o2.Err, patchString(p), ctx)
		} else {
			want := map[string]bool{}
			for _, v := range r1.Vulnerabilities {
				want[v.ID] = true
			}
			for _, f := range p.Fixed {
				delete(want, f.ID)
			}
			for _, i := range p.Introduced {
				want[i.ID] = true
			}
			got := map[string]bool{}
			for _, id := range o2.An.VulnIDs {
				got[id] = true
			}
			var missing, extra []string
			for id := range want {
				if !got[id] {
					missing = append(missing, id)
				}
			}
			for id := range got {
				if !want[id] {
					extra = append(extra, id)
				}
			}
			sort.Strings(missing)
			sort.Strings(extra)
			if len(missing)+len(extra) > 0 {
				side := "extra"
				if len(missing) > 0 && len(extra) > 0 {
					side = "both"
				} else if len(missing) > 0 {
					side = "missing"
				}
				// diagnosis for the key: is every reported update on disk (harness reader)?
				diag := "disk-matches-report"
				if after, err := readReqs(w, run1); err == nil {
					eff := map[string]string{} // npm: the effective requirement per key (dev > optional > prod)
					if w.Sys == "npm" {
						var entries []NpmEntry
						for _, k := range sortedKeys(after) {
							sec, key, _ := strings.Cut(k, "/")
							entries = append(entries, NpmEntry{Section: sec, Key: key, Spec: after[k]})
						}
						for _, q := range npmEffective(entries) {
							eff[q.Key] = q.Req
						}
					}
					for _, u := range p.PackageUpdates {
						on := false
						if w.Sys == "npm" {
							on = eff[updKey(u)] == u.VersionTo
						} else {
							for k, v := range after {
								if reqName(w, k, v) == u.Name && reqVersion(w, v) == u.VersionTo {
									on = true
								}
							}
						}
						if !on {
							diag = "update-not-on-disk"
						}
					}
				}
				if len(w.Opts.Explicit) > 0 && len(extra) == 0 {
					outside := true
					for _, id := range missing {
						for _, e := range w.Opts.Explicit {
							if e == id {
								outside = false
							}
						}
					}
					if outside {
						diag = "introduced-outside-explicit-list"
					}
				}
				if aliasedRecordInGraph(t, w, filepath.Join(dir, "aliasdiag"), run1, out) {
					feat = strings.TrimPrefix(feat+"+explicit-alias-record-in-graph", "+")
				}
				out.Violate("reanalysis-mismatch", fmt.Sprintf("reanalysis-mismatch:%s:%s:%s:%s%s", w.Sys, side, diag, feat, wf),
					"applied %s; original %v - fixed %v + introduced %v = %s, but a fresh analysis of the written manifest finds %s (not found again: %v, unexpected: %v); written requirements: %v; %s",
					patchString(p), vulnIDs(r1.Vulnerabilities), vulnIDs(p.Fixed), vulnIDs(p.Introduced), setString(want), setString(got), missing, extra, readBack(w, run1), ctx)
			}
			out.Count("single_patch_reanalysed", 1)
			if len(p.Introduced) > 0 {
				out.Count("single_patch_with_introduced", 1)
			}
			if len(p.PackageUpdates) > 1 {
				out.Count("single_patch_multi_update", 1)
			}
		}
	}
	out.Sample = map[string]any{"world": ctx, "sched": sc.Sched, "faults": sc.Faults, "write_fault": sc.WFault, "vulns": vulnsString(r1.Vulnerabilities), "applied": patchesString(r1.Patches)}
	return out
}

func readBack(w *World, dir string) string {
	m, err := readReqs(w, dir)
	if err != nil {
		return "unreadable: " + err.Error()
	}
	var s []string
	for _, k := range sortedKeys(m) {
		s = append(s, k+"="+m[k])
	}
	return strings.Join(s, " ")
}

// dumpUnfinished writes a scenario whose run did not finish to $REMED_DUMP_UNFINISHED
// (development aid; termination itself is judged by C11).
func dumpUnfinished(sc any) {
	if d := os.Getenv("REMED_DUMP_UNFINISHED"); d != "" {
		b, _ := json.Marshal(sc)
		os.WriteFile(filepath.Join(d, "unfinished-"+sim.FP(sc)+".json"), b, 0o644)
	}
}

// aliasedRecordInGraph: the explicit list is set, some listed record X carries the id of a
// separate non-listed record N as an alias, and N is present in the ORIGINAL graph or in the graph
// of the WRITTEN manifest (both analysed without any list).  The unchanged library ignores X
// whenever N is in the analysed graph (ResolveGraphVulns puts N on the ignore list, which also
// matches aliases), so original, report and fresh analysis disagree about X - a known finding.
// The trait keeps it apart from aliases that only matter in intermediate graphs of patch attempts.
func aliasedRecordInGraph(t *testing.T, w *World, dir, written string, out *sim.Outcome) bool {
	if len(w.Opts.Explicit) == 0 {
		return false
	}
	listed := map[string]bool{}
	for _, e := range w.Opts.Explicit {
		listed[e] = true
	}
	ids := map[string]bool{}
	for _, v := range w.Vulns {
		ids[v.ID] = true
	}
	cand := map[string]bool{}
	for _, v := range w.Vulns {
		if !listed[v.ID] {
			continue
		}
		for _, a := range v.Aliases {
			if ids[a] && !listed[a] {
				cand[a] = true
			}
		}
	}
	if len(cand) == 0 {
		return false
	}
	plain := Opts{Default: "major", DevDeps: true, MaxDepth: -1}
	wdir := filepath.Join(dir, "written")
	if err := copyTree(written, wdir); err != nil {
		return false
	}
	for _, spec := range []RunSpec{
		{Kind: "analyse", Dir: filepath.Join(dir, "orig"), Manifest: &w.Manifest, Opts: &plain, Pass: true},
		{Kind: "analyse", Dir: wdir, Opts: &plain, Pass: true},
	} {
		o := Execute(t, w, spec)
		out.Executions++
		if o.An == nil {
			continue
		}
		for _, id := range o.An.VulnIDs {
			if cand[id] {
				return true
			}
		}
	}
	return false
}

// CrashProne: see C11.
func (C12) CrashProne() bool { return true }
