package remed

import (
	"fmt"
	"strings"

	"pgregory.net/rapid"
)

// Motifs are randomised families of small worlds whose shape random universes reach only
// rarely: (1) two patches that introduce the same new vulnerability, (2) a fix that moves
// another vulnerability across a scope boundary (depth / dev-only), (3) a vulnerable package
// constrained by two direct requirements with differently shaped constraints (patches that
// change two packages at once; installation order matters).  Names, version lines,
// requirement forms, affected sets and all options are still drawn.

func mdep(name, v string) MDep {
	g, a, _ := strings.Cut(name, ":")
	return MDep{G: g, A: a, V: v}
}

func genMotif(rt *rapid.T, w *World, motif int) {
	names := npmNames
	if w.Sys == "maven" {
		names = mvnNames
	}
	nm := rapid.Permutation(names).Draw(rt, "names")
	npm := w.Sys == "npm"
	// req renders a requirement on version v in the form f ("" = exact / Maven soft)
	req := func(f, v string) string {
		if !npm {
			return v
		}
		return f + v
	}
	form := func(l string) string {
		if !npm {
			return ""
		}
		return draw(rt, l, "^", "^", "~", "")
	}
	pkg := func(name string, vers ...Ver) Pkg { return Pkg{Name: name, Vers: vers} }
	ver := func(v string, deps ...Dep) Ver { return Ver{V: v, Deps: deps} }
	direct := func(name, spec string, sec string) {
		if npm {
			w.Manifest.Npm = append(w.Manifest.Npm, NpmEntry{Section: sec, Key: name, Spec: spec})
			return
		}
		if w.Manifest.Pom == nil {
			w.Manifest.Pom = &Pom{}
		}
		d := mdep(name, spec)
		if sec == "devDependencies" {
			d.Scope = "test"
		}
		w.Manifest.Pom.Deps = append(w.Manifest.Pom.Deps, d)
	}
	affect := func(id, p string, vs ...string) VulnSpec {
		return VulnSpec{ID: id, Affected: []Aff{{Pkg: p, Versions: vs}}}
	}

	switch motif {
	case 1: // twin parents introducing the same vulnerability
		pa, pb, ba, bb, sh := nm[0], nm[1], nm[2], nm[3], nm[4]
		f := form("m.form")
		lines := draw(rt, "m.lines", 3, 3, 4)
		shFixed := chance(rt, "m.shfixed", 4, 5)
		shDiffer := chance(rt, "m.shdiffer", 2, 3) // the two parents install different versions of the shared package
		shV := []Ver{ver("1.0.0"), ver("1.1.0")}
		if shFixed {
			shV = append(shV, ver("2.0.0"))
		}
		mk := func(parent, bad string, l string) Pkg {
			p := Pkg{Name: parent}
			late := draw(rt, l+".late", 2, 2, 3) // first line that pulls in the shared package
			for i := 1; i <= lines; i++ {
				v := ver(fmt.Sprintf("%d.0.0", i))
				bv := "1.0.0"
				if i >= 2 {
					bv = "2.0.0"
				}
				if npm {
					v.Deps = append(v.Deps, Dep{Name: bad, Req: req(f, bv)})
				}
				if i >= late {
					sv := "1.0.0"
					if i > late && shFixed {
						sv = "2.0.0"
					}
					r := req(f, sv)
					if i == late && shDiffer {
						r = "1.0.0"
						if parent == pb {
							r = "1.1.0"
						}
					}
					v.Deps = append(v.Deps, Dep{Name: sh, Req: r})
				}
				p.Vers = append(p.Vers, v)
			}
			return p
		}
		w.Universe = []Pkg{mk(pa, ba, "m.a"), mk(pb, bb, "m.b"), pkg(ba, ver("1.0.0"), ver("2.0.0")), pkg(bb, ver("1.0.0"), ver("2.0.0")), pkg(sh, shV...)}
		direct(pa, req(f, "1.0.0"), "dependencies")
		direct(pb, req(f, "1.0.0"), "dependencies")
		if npm {
			w.Vulns = []VulnSpec{affect("V1", ba, "1.0.0"), affect("V2", bb, "1.0.0")}
		} else {
			w.Vulns = []VulnSpec{affect("V1", pa, "1.0.0"), affect("V2", pb, "1.0.0")}
		}
		shAff := []string{"1.0.0", "1.1.0"}
		if chance(rt, "m.shpartial", 1, 3) {
			shAff = shAff[:1]
		}
		w.Vulns = append(w.Vulns, affect("V3", sh, shAff...))
		if len(shAff) == 2 && chance(rt, "m.shpersev", 2, 3) {
			splitSeverity(&w.Vulns[2], 1, chance(rt, "m.shlowfirst", 1, 2))
		}
		if chance(rt, "m.shrange", 2, 3) {
			addRange(w, &w.Vulns[2].Affected[0])
		}
	case 2: // a fix that moves another vulnerability across a scope boundary
		b, m, c, d := nm[0], nm[1], nm[2], nm[3]
		f := form("m.form")
		cAll := chance(rt, "m.call", 1, 2)
		cv := []string{"1.0.0"}
		if cAll {
			cv = append(cv, "1.1.0")
		}
		w.Universe = []Pkg{
			pkg(b, ver("1.0.0", Dep{Name: m, Req: req(f, "1.0.0")}), ver("2.0.0", Dep{Name: c, Req: req(f, "1.0.0")})),
			pkg(m, ver("1.0.0", Dep{Name: c, Req: req(f, "1.0.0")})),
			pkg(c, ver("1.0.0"), ver("1.1.0")),
			pkg(d, ver("1.0.0", Dep{Name: c, Req: req(f, "1.0.0")})),
		}
		if chance(rt, "m.dev", 1, 2) {
			// c is dev-only before the fix (via d), and also a production dependency after it
			w.Universe[0].Vers[0].Deps = nil
			direct(d, req(f, "1.0.0"), "devDependencies")
		}
		direct(b, req(form("m.bform"), "1.0.0"), "dependencies")
		w.Vulns = []VulnSpec{affect("V1", b, "1.0.0"), affect("V2", c, cv...)}
	case 3: // one vulnerable package under two direct requirements
		left, right, bad := nm[0], nm[1], nm[2]
		r := func(l string) string {
			if !npm {
				return draw(rt, l, "1.0.0", "1.0.0", "1.5.0", "[1.0.0,3.0.0)")
			}
			return draw(rt, l, "^1.0.0", "1.0.0", "~1.0.0", "1.5.0", "^1.5.0", "<2.0.0", "<3.0.0", ">=1.0.0 <3.0.0", "*")
		}
		uf := form("m.upform")
		w.Universe = []Pkg{
			pkg(left, ver("1.0.0", Dep{Name: bad, Req: r("m.r1")}), ver("2.0.0", Dep{Name: bad, Req: req(uf, "2.0.0")}), ver("3.0.0", Dep{Name: bad, Req: req(uf, "3.0.0")})),
			pkg(right, ver("1.0.0", Dep{Name: bad, Req: r("m.r2")}), ver("2.0.0", Dep{Name: bad, Req: req(uf, "2.0.0")}), ver("3.0.0", Dep{Name: bad, Req: req(uf, "3.0.0")})),
			pkg(bad, ver("1.0.0"), ver("1.5.0"), ver("2.0.0"), ver("3.0.0")),
		}
		direct(left, req(form("m.lform"), "1.0.0"), "dependencies")
		direct(right, req(form("m.rform"), "1.0.0"), draw(rt, "m.rsec", "dependencies", "dependencies", "devDependencies"))
		badVers := []string{"1.0.0", "1.5.0", "2.0.0"}
		cut := func(l string, not int) (int, []string) {
			c := draw(rt, l, 1, 2, 2, 3)
			if c == not {
				c = c%3 + 1
			}
			return c, badVers[:c]
		}
		c1, bv := cut("m.cut1", 0)
		if chance(rt, "m.hole", 1, 4) && len(bv) > 1 {
			bv = bv[1:] // the oldest version is not affected
		}
		w.Vulns = []VulnSpec{affect("V1", bad, bv...)}
		switch draw(rt, "m.extra", 0, 1, 2, 3, 3) {
		case 1:
			w.Vulns = append(w.Vulns, affect("V2", left, "1.0.0"))
		case 2: // one advisory, two packages
			w.Vulns = append(w.Vulns, VulnSpec{ID: "V2", Affected: []Aff{{Pkg: left, Versions: []string{"1.0.0"}}, {Pkg: right, Versions: []string{"1.0.0"}}}})
		case 3: // a second advisory on the same package with a different fix
			_, bv2 := cut("m.cut2", c1)
			w.Vulns = append(w.Vulns, affect("V2", bad, bv2...))
		}
	case 4: // a parent bump that fixes the child's vulnerability as a side effect, next to the child's own fix
		a, x := nm[0], nm[1]
		f := form("m.form")
		mid := draw(rt, "m.mid", "1.3.0", "1.0.1", "1.1.0")
		xv := []Ver{ver("1.0.0"), ver(mid), ver("2.0.0")}
		top := []string{"2.0.0"}
		if chance(rt, "m.xtop", 1, 2) {
			xv = append(xv, ver("2.1.0"))
			top = append(top, "2.1.0")
		}
		w.Universe = []Pkg{
			pkg(a, ver("1.0.0", Dep{Name: x, Req: req(f, "1.0.0")}), ver("1.1.0", Dep{Name: x, Req: req(f, "2.0.0")})),
			pkg(x, xv...),
		}
		direct(a, req(form("m.aform"), "1.0.0"), "dependencies")
		w.Vulns = []VulnSpec{affect("V1", a, "1.0.0"), affect("V2", x, "1.0.0")}
		// vulnerabilities without a fix in the child's newest line: they rank the parent bump low
		for i, n := 0, draw(rt, "m.unfixable", 0, 1, 2, 2, 3); i < n; i++ {
			w.Vulns = append(w.Vulns, affect(fmt.Sprintf("V%d", 3+i), x, top...))
		}
	case 5: // npm: two different two-package patches that agree on the first package's new range
		a, b, x, y := nm[0], nm[1], nm[2], nm[3]
		if a > b {
			a, b = b, a
		}
		f := form("m.form")
		swap := chance(rt, "m.swap", 1, 2) // which of the two advisories needs the longer relaxation
		p2, p3 := y, x
		if swap {
			p2, p3 = x, y
		}
		w.Universe = []Pkg{
			pkg(a, ver("1.0.0", Dep{Name: x, Req: req(f, "1.0.0")}, Dep{Name: y, Req: req(f, "1.0.0")}), ver("2.0.0")),
			pkg(b, ver("1.0.0", Dep{Name: x, Req: req(f, "1.0.0")}, Dep{Name: y, Req: req(f, "1.0.0")}), ver("2.0.0", Dep{Name: p2, Req: req(f, "1.0.0")}), ver("3.0.0", Dep{Name: p3, Req: req(f, "1.0.0")})),
			pkg(x, ver("1.0.0")),
			pkg(y, ver("1.0.0")),
		}
		direct(a, req(form("m.aform"), "1.0.0"), "dependencies")
		direct(b, req(form("m.bform"), "1.0.0"), "dependencies")
		w.Vulns = []VulnSpec{affect("V1", x, "1.0.0"), affect("V2", y, "1.0.0")}
	case 6: // Maven: one advisory over two direct dependencies, one override made ineffective by a hard requirement
		p, q, r, t := nm[0], nm[1], nm[2], nm[3]
		hard := draw(rt, "m.hard", "[1.0.0]", "[1.0.0]", "[1.0.0,1.1.0)", "1.0.0")
		w.Universe = []Pkg{
			pkg(p, ver("1.0.0"), ver("1.1.0", Dep{Name: t, Req: "1.0.0"})),
			pkg(q, ver("1.0.0"), ver("1.1.0")),
			pkg(r, ver("1.0.0", Dep{Name: q, Req: hard})),
			pkg(t, ver("1.0.0"), ver("1.1.0")),
		}
		direct(p, "1.0.0", "dependencies")
		direct(q, "1.0.0", "dependencies")
		direct(r, "1.0.0", "dependencies")
		w.Vulns = []VulnSpec{{ID: "V1", Affected: []Aff{{Pkg: p, Versions: []string{"1.0.0"}}, {Pkg: q, Versions: []string{"1.0.0"}}}}}
		if chance(rt, "m.tvuln", 3, 4) {
			w.Vulns = append(w.Vulns, affect("V2", t, "1.0.0"))
		}
		if chance(rt, "m.pvuln", 1, 2) {
			w.Vulns = append(w.Vulns, affect("V3", p, "1.0.0"))
		}
	case 7: // npm: introduced vulnerabilities that re-introduce each other (the same set reached twice)
		dd, b0, ba, bb := nm[0], nm[1], nm[2], nm[3]
		f := form("m.form")
		third, fourth := bb, ba
		if chance(rt, "m.swap", 1, 2) {
			third, fourth = ba, bb
		}
		w.Universe = []Pkg{
			pkg(dd,
				ver("1.0.0", Dep{Name: b0, Req: req(f, "1.0.0")}),
				ver("2.0.0", Dep{Name: ba, Req: req(f, "1.0.0")}, Dep{Name: bb, Req: req(f, "1.0.0")}),
				ver("3.0.0", Dep{Name: third, Req: req(f, "1.0.0")}),
				ver("4.0.0", Dep{Name: fourth, Req: req(f, "1.0.0")}),
				ver("5.0.0")),
			pkg(b0, ver("1.0.0")), pkg(ba, ver("1.0.0")), pkg(bb, ver("1.0.0")),
		}
		if chance(rt, "m.noclean", 1, 4) {
			w.Universe[0].Vers = w.Universe[0].Vers[:4]
		}
		direct(dd, req(form("m.dform"), "1.0.0"), "dependencies")
		w.Vulns = []VulnSpec{affect("V1", b0, "1.0.0"), affect("V2", ba, "1.0.0"), affect("V3", bb, "1.0.0")}
	case 8: // one package: an early fix, an unfixable advisory, advisories that hit only a middle version
		a, b := nm[0], nm[1]
		lines := []string{"1.0.0", "1.1.0", "2.0.0"}
		if chance(rt, "m.more", 1, 3) {
			lines = []string{"1.0.0", "1.0.1", "1.1.0", "2.0.0", "3.0.0"}
		}
		pa := Pkg{Name: a}
		for i, v := range lines {
			vv := ver(v)
			if i > 0 && chance(rt, fmt.Sprintf("m.dep%d", i), 1, 3) {
				vv.Deps = []Dep{{Name: b, Req: req(form("m.form"), "1.0.0")}}
			}
			pa.Vers = append(pa.Vers, vv)
		}
		w.Universe = []Pkg{pa, pkg(b, ver("1.0.0"), ver("1.1.0"))}
		direct(a, req(draw(rt, "m.aform", "", "", "~", "^"), "1.0.0"), "dependencies")
		mid := lines[len(lines)/2]
		if len(lines) == 3 {
			mid = "1.1.0"
		}
		w.Vulns = []VulnSpec{affect("V1", a, lines[0]), affect("V2", a, lines...), affect("V3", a, mid)}
		if chance(rt, "m.second", 3, 4) {
			w.Vulns = append(w.Vulns, affect("V4", a, mid))
		}
		if chance(rt, "m.bvuln", 1, 3) {
			w.Vulns = append(w.Vulns, affect(fmt.Sprintf("V%d", len(w.Vulns)+1), b, "1.0.0"))
		}
	}
	for i := range w.Vulns {
		if sv := draw(rt, fmt.Sprintf("m.sev%d", i), "", "", "high", "low"); w.Vulns[i].Affected[0].Severity == "" {
			w.Vulns[i].Severity = sv
		}
		w.Vulns[i].Withdrawn = chance(rt, fmt.Sprintf("m.withdrawn%d", i), 1, 10)
	}
}
