package remed

import (
	"encoding/json"
	"fmt"
	"os"
	"path/filepath"
	"testing"

	"verif/sim"
)

// TestDebug prints what a scenario (REMED_DEBUG=<replay file or bare scenario JSON>) does:
// the world, the interleaving trace and the result of one FixVulns run.  Development aid.
func TestDebug(t *testing.T) {
	p := os.Getenv("REMED_DEBUG")
	if p == "" {
		t.Skip("REMED_DEBUG not set")
	}
	sim.Quiet()
	b, err := os.ReadFile(p)
	if err != nil {
		t.Fatal(err)
	}
	var rf struct {
		Scenario json.RawMessage `json:"scenario"`
	}
	if json.Unmarshal(b, &rf) == nil && rf.Scenario != nil {
		b = rf.Scenario
	}
	var sc struct {
		W      *World  `json:"world"`
		Sched  []int   `json:"sched"`
		Scheds [][]int `json:"scheds"`
		Faults []Fault `json:"faults"`
	}
	if err := json.Unmarshal(b, &sc); err != nil {
		t.Fatal(err)
	}
	if sc.Sched == nil && len(sc.Scheds) > 0 {
		sc.Sched = sc.Scheds[0]
	}
	fmt.Println(sc.W.describe())
	dir := scratchDir()
	defer os.RemoveAll(dir)
	kind := sc.W.Mode
	if k := os.Getenv("REMED_KIND"); k != "" {
		kind = k
	}
	o := Execute(t, sc.W, RunSpec{Kind: kind, Dir: filepath.Join(dir, "r"), Manifest: &sc.W.Manifest, Sched: sc.Sched, Faults: sc.Faults, Pass: sc.W.Mode == "update"})
	for i, l := range o.Trace {
		if i < 400 || i > len(o.Trace)-40 {
			fmt.Println(i, l)
		}
	}
	fmt.Printf("err=%q over=%v deadlock=%v panic=%q calls=%d steps=%d choices=%d maxpar=%d actors=%d fired=%d\n", o.Err, o.Over, o.Deadlock, o.Panic, o.Calls, o.Steps, o.Choices, o.MaxPar, o.Actors, o.Fired)
	fmt.Println("vulns", vulnsString(o.Res.Vulnerabilities))
	fmt.Println("patches", patchesString(o.Res.Patches))
	if o.An != nil {
		fmt.Println("all patches", patchesString(o.An.Patches), "vulns", o.An.VulnIDs)
	}
	after, _ := readReqs(sc.W, filepath.Join(dir, "r"))
	fmt.Println("disk", after)
	if kind == "fix" || kind == "update" {
		a := Execute(t, sc.W, RunSpec{Kind: "analyse", Dir: filepath.Join(dir, "r"), Pass: true})
		if a.An != nil {
			fmt.Println("fresh analysis of the written files: nodes", a.An.Nodes, "vulns", a.An.VulnIDs, "errors", a.An.Errors)
		} else {
			fmt.Println("fresh analysis of the written files failed:", a.Err)
		}
	}
}
