package remed

import (
	"encoding/json"
	"fmt"
	"os"
	"path/filepath"
	"strings"
	"testing"

	"deps.dev/util/semver"
	"github.com/google/osv-scalibr/guidedremediation/result"
	"pgregory.net/rapid"
	"verif/sim"
)

// C11 - guided remediation only upgrades, and only as far as the policy allows.
type C11 struct{}

// C11Scenario is a world plus the simulator's decisions for the run.
type C11Scenario struct {
	W      *World  `json:"world"`
	Sched  []int   `json:"sched"`
	Faults []Fault `json:"faults,omitempty"`
}

func (C11) ID() string { return "C11" }
func (C11) Rule() string {
	return "rapid-generated universes (3-8 packages x 1-12 versions: patch/minor/major lines, pre-releases between release lines, 0.x, npm dist-tag latest also on non-highest versions, Maven 2- and 4-component versions and qualifiers; acyclic edges with exact/caret/tilde/range/*/latest/N.x (npm) and soft/range/hard (Maven) requirements whose targets move with the version, dependencies dropped or added in later versions) served by the real deps.dev LocalClient; manifests with 1-5 direct requirements (npm: dependencies/dev/optional, aliases, dotted/scoped/dashed names, a key in two sections; Maven: dependencies, dependencyManagement, properties incl. shared ones, local parent POM, second declarations of an artifact at another version, profiles for Update); 1-4 vulnerabilities with explicit affected-version lists aimed at installed versions (with/without fix, multi-package advisories); default level in {major,minor,patch,none} and 0-2 per-package levels; plus three motif families (twin patches introducing one vulnerability, scope-shifting fix, diamond with one or two advisories); the registry lists a package's versions to the strategies in ascending, descending or rotated order; one of npm/relax, Maven/override, Maven/Update; FixVulns runs under the scenario's schedule vector with 0-2 transient registry/matcher errors; every update of every applied patch and of every patch the strategy computed (un-faulted re-computation) is checked; non-trivial = at least one update whose base and new version were both resolved and compared; distinct = distinct scenario JSON"
}

func (C11) Gen(rt *rapid.T, tier string) any {
	w := genWorld(rt, []string{"npm", "npm", "maven", "maven", "update"}, []int{0, 0, 1, 2}, true, false)
	sc := &C11Scenario{W: w}
	if w.Mode == "fix" {
		sc.Sched = genSched(rt, "sched")
		sc.Faults = genFaults(rt)
	}
	return sc
}

func (C11) Decode(raw json.RawMessage) (any, error) {
	var s C11Scenario
	err := json.Unmarshal(raw, &s)
	if err == nil && s.W == nil {
		err = fmt.Errorf("no world in scenario")
	}
	return &s, err
}

// semverOf returns the deps.dev version order of the world's ecosystem.
func semverOf(w *World) semver.System {
	if w.Sys == "npm" {
		return semver.NPM
	}
	return semver.Maven
}

// mavenBest is the version a Maven requirement stands for when nothing else constrains it:
// the version itself for a soft requirement, else the greatest available matching version.
func mavenBest(w *World, name, req string) (string, bool) {
	c, err := semver.Maven.ParseConstraint(req)
	if err != nil {
		return "", false
	}
	if c.IsSimple() {
		return req, true
	}
	p := w.pkg(name)
	if p == nil {
		return "", false
	}
	best := ""
	for _, v := range p.Vers {
		if c.Match(v.V) && (best == "" || semver.Maven.Compare(v.V, best) > 0) {
			best = v.V
		}
	}
	return best, best != ""
}

type c11run struct {
	t     *testing.T
	w     *World
	out   *sim.Outcome
	dir   string
	nvar  int
	cache map[string]map[string]string
	ctx   string
}

// resolved returns "direct key or package name" -> resolved version for a variant manifest.
// npm: the harness drives the deps.dev npm resolver itself.  Maven: the library's reader and
// resolver, reached through the overlay export, on a variant POM the harness rendered.
func (r *c11run) resolved(m *Manifest) map[string]string {
	b, _ := json.Marshal(m)
	if v, ok := r.cache[string(b)]; ok {
		return v
	}
	var res map[string]string
	if r.w.Sys == "npm" {
		res, _ = npmResolve(r.w, m.Npm)
	} else {
		r.nvar++
		d := filepath.Join(r.dir, fmt.Sprintf("var%d", r.nvar))
		plain := Opts{Default: "major", DevDeps: true, MaxDepth: -1}
		o := Execute(r.t, r.w, RunSpec{Kind: "analyse", Dir: d, Manifest: m, Opts: &plain, Pass: true})
		r.out.Executions++
		if o.Err == "" && o.An != nil {
			res = map[string]string{}
			for _, n := range o.An.Nodes {
				res[n[0]] = n[1]
			}
			if r.w.Opts.MavenManagement && m.Pom != nil {
				// With MavenManagement the library adds a node for every package that is only
				// managed (project POM, not in the graph).  What such a requirement stands for is
				// computed here, not taken from the library: the version itself (soft) or the
				// greatest available version in the range.
				props := m.props()
				for _, md := range m.Pom.Mgmt {
					if _, in := res[md.Name()]; !in {
						if v, ok := mavenBest(r.w, md.Name(), interpolate(md.V, props)); ok {
							res[md.Name()] = v
						}
					}
				}
			}
		}
	}
	r.cache[string(b)] = res
	return res
}

// checkPatch applies the oracle to one patch of a FixVulns result.
func (r *c11run) checkPatch(p result.Patch, what string) (checked int) {
	w := r.w
	done := map[string]bool{}
	for _, u := range p.PackageUpdates {
		key := u.Name
		if w.Sys == "npm" {
			key = updKey(u)
		}
		feat := features(w, p.PackageUpdates, p.Fixed, p.Introduced)
		if len(p.Fixed) == 0 {
			feat = strings.TrimSuffix("fixes-nothing+"+feat, "+")
		}
		lvl := w.Opts.level(u.Name)
		if lvl == "none" {
			r.out.Violate("touched-none", fmt.Sprintf("touched-none:%s:%s:%s", w.Sys, what, feat), "%s patch %s changes %s although its upgrade level is none; %s", what, patchString(p), u.Name, r.ctx)
			continue
		}
		if done[key] {
			continue
		}
		done[key] = true
		// the patch without the change(s) of this package, and the whole patch
		var rest []result.PackageUpdate
		for _, x := range p.PackageUpdates {
			xk := x.Name
			if w.Sys == "npm" {
				xk = updKey(x)
			}
			if xk != key {
				rest = append(rest, x)
			}
		}
		var ma, mb Manifest
		var okA, okB bool
		if w.Sys == "npm" {
			ma, mb = w.Manifest.clone(), w.Manifest.clone()
			ma.Npm, okA = applyNpm(w.Manifest.Npm, rest)
			mb.Npm, okB = applyNpm(w.Manifest.Npm, p.PackageUpdates)
		} else {
			ma, okA = applyMaven(&w.Manifest, rest)
			mb, okB = applyMaven(&w.Manifest, p.PackageUpdates)
		}
		if !okA || !okB {
			r.out.Count("update_not_applicable_to_model", 1)
			continue
		}
		// Two readings of "the version it would resolve to without that change": without this
		// package's change only (va: the rest of the patch applied), or without the patch (v0).
		// A violation must hold under both.  A change that is a no-op given the rest of the patch
		// (override pins a package another update already moves) is accepted as long as the
		// patch as a whole moves the package upward: what exceeds a level then is the side effect
		// of another update, which no level governs.
		v0, va, vb := r.resolved(&w.Manifest)[key], r.resolved(&ma)[key], r.resolved(&mb)[key]
		if vb == "" || v0 == "" {
			// a package that is not installed without the patch (pulled in by another update of
			// the same patch and pinned at once) has no "version it would resolve to without"
			r.out.Count("base_or_new_version_undefined", 1)
			continue
		}
		judge := func(base string) (upward, within, noop, ok bool) {
			if base == "" {
				return false, false, false, false
			}
			c, diff, err := semverOf(w).Difference(base, vb)
			if err != nil {
				return false, false, false, false
			}
			return c < 0, c < 0 && allows(lvl, diff), c == 0, true
		}
		up1, in1, noop1, ok1 := judge(va)
		up2, in2, _, ok2 := judge(v0)
		if !ok1 && !ok2 {
			r.out.Count("version_unparsable", 1)
			continue
		}
		checked++
		if !ok1 {
			up1, in1, noop1 = up2, in2, false
		}
		if !ok2 {
			up2, in2 = up1, in1
		}
		switch {
		case noop1 && up2:
			r.out.Count("redundant_pin_accepted", 1)
		case !up1 && !up2:
			if targetUpperBounded(w, u.Name) {
				feat = strings.TrimSuffix("target-upper-bounded+"+feat, "+")
			}
			// In the ORIGINAL graph the package does not stand at a version that any vulnerability
			// this patch fixes affects: the requirement change was decided on an intermediate
			// graph of a multi-round override attempt (known finding R-F11) and kept although
			// a later round made it pointless.
			if w.Sys == "maven" && len(p.Fixed) > 0 && len(p.PackageUpdates) > 1 {
				hit := false
				for _, fx := range p.Fixed {
					for i := range w.Vulns {
						if w.Vulns[i].ID == fx.ID && w.Vulns[i].affects(u.Name, v0) {
							hit = true
						}
					}
				}
				if !hit {
					feat = strings.TrimSuffix("decided-on-intermediate-graph+"+feat, "+")
				}
			}
			r.out.Violate("not-upward", fmt.Sprintf("not-upward:%s:%s:%s", w.Sys, what, feat), "%s patch %s: %s resolves to %s without the change (to %s without the patch) and to %s with it: not strictly upward; %s", what, patchString(p), u.Name, va, v0, vb, r.ctx)
		case !in1 && !in2:
			r.out.Violate("level-exceeded", fmt.Sprintf("level-exceeded:%s:%s:%s:%s", w.Sys, what, lvl, feat), "%s patch %s: %s moves from %s (without the change; %s without the patch) to %s, more than its level %s allows; %s", what, patchString(p), u.Name, va, v0, vb, lvl, r.ctx)
		}
	}
	return checked
}

// checkCombined: when several patches are applied together, every applied change is also
// judged against the final manifest with only the patch it belongs to reverted (all other applied
// patches in place): patches are computed independently against the original graph, so one can pin a
// package below what another one brings.
func (r *c11run) checkCombined(patches []result.Patch) {
	w := r.w
	var all []result.PackageUpdate
	for _, p := range patches {
		all = append(all, p.PackageUpdates...)
	}
	apply := func(ups []result.PackageUpdate) (Manifest, bool) {
		if w.Sys == "npm" {
			m := w.Manifest.clone()
			var ok bool
			m.Npm, ok = applyNpm(w.Manifest.Npm, ups)
			return m, ok
		}
		return applyMaven(&w.Manifest, ups)
	}
	keyOf := func(u result.PackageUpdate) string {
		if w.Sys == "npm" {
			return updKey(u)
		}
		return u.Name
	}
	// do the applied patches claim the same fix twice?  (never on the unchanged tree: choosePatches
	// skips a patch one of whose fixes an earlier chosen patch already has)
	overlap := "disjoint-fixes"
	seenFix := map[string]bool{}
	for _, p := range patches {
		for _, f := range p.Fixed {
			if seenFix[f.ID] {
				overlap = "overlapping-fixes"
			}
		}
		for _, f := range p.Fixed {
			seenFix[f.ID] = true
		}
	}
	final, ok := apply(all)
	if !ok {
		r.out.Count("update_not_applicable_to_model", 1)
		return
	}
	for pi, p := range patches {
		done := map[string]bool{}
		for _, u := range p.PackageUpdates {
			key := keyOf(u)
			lvl := w.Opts.level(u.Name)
			if done[key] || lvl == "none" {
				continue
			}
			done[key] = true
			// revert the whole patch: interplay between the updates of ONE patch is judged by
			// checkPatch (two readings); here it is the other applied patches that matter
			var rest []result.PackageUpdate
			for pj, q := range patches {
				if pj != pi {
					rest = append(rest, q.PackageUpdates...)
				}
			}
			without, ok := apply(rest)
			if !ok {
				continue
			}
			v0, va, vb := r.resolved(&w.Manifest)[key], r.resolved(&without)[key], r.resolved(&final)[key]
			if va == "" || vb == "" || v0 == "" {
				r.out.Count("base_or_new_version_undefined", 1)
				continue
			}
			c, diff, err := semverOf(w).Difference(va, vb)
			c0, diff0, err0 := semverOf(w).Difference(v0, vb)
			if err != nil || err0 != nil {
				continue
			}
			r.out.Count("combined_updates_checked", 1)
			feat := features(w, all, p.Fixed, p.Introduced)
			if targetUpperBounded(w, u.Name) {
				feat = strings.TrimSuffix("target-upper-bounded+"+feat, "+")
			}
			switch {
			case c >= 0:
				r.out.Violate("not-upward", fmt.Sprintf("not-upward:%s:combined:%s:%s", w.Sys, overlap, feat), "%d patches applied together %s: with all other applied patches in place %s resolves to %s without patch %s and to %s with it (original manifest: %s): not strictly upward; %s", len(patches), patchesString(patches), u.Name, va, patchString(p), vb, v0, r.ctx)
			case c < 0 && !allows(lvl, diff) && !(c0 < 0 && allows(lvl, diff0)):
				r.out.Violate("level-exceeded", fmt.Sprintf("level-exceeded:%s:combined:%s:%s:%s", w.Sys, overlap, lvl, feat), "%d patches applied together %s: with all other applied patches in place %s moves %s -> %s through patch %s (original manifest: %s), more than its level %s allows; %s", len(patches), patchesString(patches), u.Name, va, vb, patchString(p), v0, lvl, r.ctx)
			}
		}
	}
}

// checkUpdateMode applies the oracle to the single patch of Update: every update stands alone.
func (r *c11run) checkUpdateMode(p result.Patch) (checked int) {
	w := r.w
	for _, u := range p.PackageUpdates {
		feat := features(w, []result.PackageUpdate{u})
		if c, err := semver.Maven.ParseConstraint(u.VersionFrom); err == nil && c.IsSimple() {
			if p := w.pkg(u.Name); p != nil && !hasVersion(p, u.VersionFrom) {
				feat = strings.TrimSuffix("declared-version-not-in-registry+"+feat, "+")
			}
		}
		lvl := w.Opts.level(u.Name)
		if lvl == "none" {
			r.out.Violate("touched-none", "touched-none:update:"+feat, "Update proposes %s although the level of %s is none; %s", updString(u), u.Name, r.ctx)
			continue
		}
		va, okA := mavenBest(w, u.Name, u.VersionFrom)
		vb, okB := mavenBest(w, u.Name, u.VersionTo)
		if !okA || !okB {
			r.out.Count("base_or_new_version_undefined", 1)
			continue
		}
		checked++
		c, diff, err := semver.Maven.Difference(va, vb)
		if err != nil {
			r.out.Count("version_unparsable", 1)
			continue
		}
		if c >= 0 {
			r.out.Violate("not-upward", "not-upward:update:"+feat, "Update proposes %s: %s -> %s is not strictly upward; %s", updString(u), va, vb, r.ctx)
		} else if !allows(lvl, diff) {
			r.out.Violate("level-exceeded", "level-exceeded:update:"+lvl+":"+feat, "Update proposes %s: %s -> %s is a %v change, but the level of %s is %s; %s", updString(u), va, vb, diff, u.Name, lvl, r.ctx)
		}
	}
	return checked
}

// change is one requirement that differs between the original manifest and the file on disk.
type change struct {
	Key, Name      string
	Old, New       string // requirement strings as read by the harness reader ("" = absent)
	HadOld, HasNew bool
	Reported       bool // some reported update says exactly this (name, from, to)
	Related        []result.PackageUpdate
}

// diskChanges compares requirement sets read by the harness's own reader and marks the
// changes that a reported update accounts for.
func diskChanges(w *World, before, after map[string]string, patches []result.Patch) []change {
	var out []change
	for _, k := range diffReqs(before, after) {
		c := change{Key: k}
		c.Old, c.HadOld = before[k]
		c.New, c.HasNew = after[k]
		val := c.New
		if !c.HasNew {
			val = c.Old
		}
		c.Name = reqName(w, k, val)
		from, to := "", ""
		if c.HadOld {
			from = reqVersion(w, c.Old)
		}
		if c.HasNew {
			to = reqVersion(w, c.New)
		}
		for _, p := range patches {
			for _, u := range p.PackageUpdates {
				if u.Name == c.Name {
					c.Related = append(c.Related, u)
					if u.VersionFrom == from && u.VersionTo == to {
						c.Reported = true
					}
				}
			}
		}
		out = append(out, c)
	}
	return out
}

// applyDiskChange renders "original manifest + this one change" at the model level.
func applyDiskChange(w *World, c change) (Manifest, bool) {
	m := w.Manifest.clone()
	if w.Sys == "npm" {
		sec, key, _ := strings.Cut(c.Key, "/")
		for i, e := range m.Npm {
			if e.Section == sec && e.Key == key {
				if !c.HasNew {
					m.Npm = append(m.Npm[:i], m.Npm[i+1:]...)
				} else {
					m.Npm[i].Spec = c.New
				}
				return m, true
			}
		}
		if c.HasNew {
			m.Npm = append(m.Npm, NpmEntry{Section: sec, Key: key, Spec: c.New})
			return m, true
		}
		return m, false
	}
	f := strings.Split(c.Key, "|")
	if len(f) != 3 {
		return m, false
	}
	pom := m.Pom
	if f[0] == "parent" {
		pom = m.Parent
	}
	if pom == nil {
		return m, false
	}
	list := &pom.Deps
	switch {
	case f[1] == "management":
		list = &pom.Mgmt
	case f[1] != "dependencies":
		return m, false
	}
	for i, d := range *list {
		if d.Name() == f[2] {
			if !c.HasNew {
				*list = append((*list)[:i], (*list)[i+1:]...)
			} else {
				(*list)[i].V = c.New
			}
			return m, true
		}
	}
	if c.HasNew {
		*list = append(*list, mdep(f[2], c.New))
		return m, true
	}
	return m, false
}

// checkApplied evaluates the changes found on disk that no reported update accounts for
// (those that one does account for are covered by the patch checks): each must, on its own,
// move its package strictly upward within the level.
func (r *c11run) checkApplied(changes []change) {
	w := r.w
	for _, c := range changes {
		if c.Reported {
			continue
		}
		r.out.Count("disk_changes_not_reported", 1)
		feat := features(w, append([]result.PackageUpdate{{Name: c.Name, VersionFrom: "0"}}, c.Related...))
		if len(c.Related) == 0 {
			// no update was reported for this artifact at all: collateral damage of another
			// artifact's property rewrite (known finding R-F8), named so that its regex covers it;
			// with a reported update that disagrees with the disk the trait keeps its own name
			feat = strings.ReplaceAll(feat, "property-shared-with-profile", "shared-property-with-profile")
		}
		where := fmt.Sprintf("requirement %s changed on disk from %q to %q, which no reported update says (related reported updates: %v)", c.Key, c.Old, c.New, updStrings(c.Related))
		lvl := w.Opts.level(c.Name)
		if lvl == "none" {
			r.out.Violate("applied-touched-none", fmt.Sprintf("applied-touched-none:%s/%s:%s", w.Sys, w.Mode, feat), "%s although the level of %s is none; %s", where, c.Name, r.ctx)
			continue
		}
		var va, vb string
		if w.Mode == "update" {
			if !c.HadOld || !c.HasNew {
				r.out.Count("base_or_new_version_undefined", 1)
				continue
			}
			var okA, okB bool
			va, okA = mavenBest(w, c.Name, c.Old)
			vb, okB = mavenBest(w, c.Name, c.New)
			if !okA || !okB {
				r.out.Count("base_or_new_version_undefined", 1)
				continue
			}
		} else {
			mb, ok := applyDiskChange(w, c)
			if !ok {
				r.out.Count("update_not_applicable_to_model", 1)
				continue
			}
			key := c.Name
			if w.Sys == "npm" {
				key = c.Key[strings.Index(c.Key, "/")+1:]
			}
			va, vb = r.resolved(&w.Manifest)[key], r.resolved(&mb)[key]
			if va == "" || vb == "" {
				r.out.Count("base_or_new_version_undefined", 1)
				continue
			}
		}
		cmp, diff, err := semverOf(w).Difference(va, vb)
		if err != nil {
			r.out.Count("version_unparsable", 1)
			continue
		}
		if cmp >= 0 {
			same := ""
			if cmp == 0 {
				same = ":same-version"
			}
			r.out.Violate("applied-not-upward", fmt.Sprintf("applied-not-upward:%s/%s:%s%s", w.Sys, w.Mode, feat, same), "%s: %s stands at %s before and at %s after: not strictly upward; %s", where, c.Name, va, vb, r.ctx)
		} else if !allows(lvl, diff) {
			r.out.Violate("applied-level-exceeded", fmt.Sprintf("applied-level-exceeded:%s/%s:%s:%s", w.Sys, w.Mode, lvl, feat), "%s: %s moves %s -> %s, a %v change, but its level is %s; %s", where, c.Name, va, vb, diff, lvl, r.ctx)
		}
	}
}

func updStrings(us []result.PackageUpdate) []string {
	var s []string
	for _, u := range us {
		s = append(s, updString(u))
	}
	return s
}

func (C11) Run(t *testing.T, scn any) *sim.Outcome {
	sc := scn.(*C11Scenario)
	w := sc.W
	out := &sim.Outcome{}
	dir := scratchDir()
	defer os.RemoveAll(dir)
	ctx := w.describe()
	r := &c11run{t: t, w: w, out: out, dir: dir, cache: map[string]map[string]string{}, ctx: ctx}

	if _, err := w.writeProject(filepath.Join(dir, "orig"), &w.Manifest); err != nil {
		panic("harness: " + err.Error())
	}
	before, err := readReqs(w, filepath.Join(dir, "orig"))
	if err != nil {
		panic("harness: own reader failed on own rendering: " + err.Error())
	}

	run1 := filepath.Join(dir, "run1")
	obs := Execute(t, w, RunSpec{Kind: w.Mode, Dir: run1, Manifest: &w.Manifest, Sched: sc.Sched, Faults: sc.Faults, Pass: w.Mode == "update"})
	out.Executions++
	out.HistoryFP = sim.FP([]any{obs.TraceFP, obs.Err, patchesString(obs.Res.Patches), vulnsString(obs.Res.Vulnerabilities)})
	out.Count("faults_planned", int64(len(sc.Faults)))
	out.Count("faults_fired", int64(obs.Fired))
	out.Count("seam_calls", int64(obs.Calls))
	out.Count("sched_steps", int64(obs.Steps))
	out.Count("sched_choices", int64(obs.Choices))
	switch {
	case obs.Over:
		out.Violate("nontermination", "nontermination:"+w.Sys+"/"+w.Mode+":"+universeTraits(w), "more than %d registry+matcher calls: the computation does not terminate (last calls: %s); %s", callBudget, strings.Join(tail(obs.Trace, 6), " | "), ctx)
		return out
	case obs.Deadlock:
		out.Violate("deadlock", "deadlock:"+w.Sys+"/"+w.Mode, "no actor is parked at a seam and FixVulns has not returned; %s", ctx)
		return out
	case obs.Panic != "":
		out.Violate("panic", "panic:"+w.Sys+"/"+w.Mode, "panic in FixVulns: %s; %s", obs.Panic, ctx)
		return out
	}
	if obs.Err != "" {
		out.Count("run_returned_error", 1)
	}

	checked := 0
	if w.Mode == "update" {
		for _, p := range obs.Res.Patches {
			checked += r.checkUpdateMode(p)
		}
	} else {
		seen := map[string]bool{}
		for _, p := range obs.Res.Patches {
			seen[patchString(p)] = true
			checked += r.checkPatch(p, "applied")
		}
		if len(obs.Res.Patches) > 1 && len(out.Violations) == 0 {
			r.checkCombined(obs.Res.Patches)
		}
		// every patch the strategy proposes (complete list, fresh un-faulted computation)
		all := Execute(t, w, RunSpec{Kind: "all", Dir: filepath.Join(dir, "all"), Manifest: &w.Manifest, Pass: true})
		out.Executions++
		if all.Over {
			out.Violate("nontermination", "nontermination:"+w.Sys+"/"+w.Mode+":"+universeTraits(w), "more than %d registry+matcher calls in ComputePatches: the computation does not terminate; %s", callBudget, ctx)
			return out
		}
		if all.An != nil {
			out.Count("patches_proposed", int64(len(all.An.Patches)))
			for _, p := range all.An.Patches {
				if !seen[patchString(p)] {
					checked += r.checkPatch(p, "proposed")
				}
			}
		}
	}
	out.Count("patches_applied", int64(len(obs.Res.Patches)))
	out.Count("updates_checked", int64(checked))

	if obs.Err == "" {
		after, err := readReqs(w, run1)
		if err != nil {
			out.Violate("unreadable-manifest", "unreadable-manifest:"+w.Sys, "the written manifest cannot be read back: %v; %s", err, ctx)
		} else {
			// Two reported updates of one artifact with different targets (declared twice, e.g.
			// dependencies 2.0 -> 2.0.0.1 and dependencyManagement 2.1.1 -> 2.1.2): the pom.xml
			// writer files both under the first declaration and applies them in Go map order,
			// so what is on disk for that artifact differs from run to run.  The statement does
			// not fix the outcome there; skipping keeps a run a pure function of its scenario.
			targets := map[string]map[string]bool{}
			for _, p := range obs.Res.Patches {
				for _, u := range p.PackageUpdates {
					if targets[u.Name] == nil {
						targets[u.Name] = map[string]bool{}
					}
					targets[u.Name][u.VersionTo] = true
				}
			}
			var changes []change
			for _, c := range diskChanges(w, before, after, obs.Res.Patches) {
				if len(targets[c.Name]) > 1 {
					out.Count("disk_change_of_ambiguously_targeted_artifact_skipped", 1)
					continue
				}
				changes = append(changes, c)
			}
			r.checkApplied(changes)
		}
	}
	out.Nontrivial = checked > 0
	if os.Getenv("REMED_TRACE") != "" {
		fmt.Fprintf(os.Stderr, "REMED_TRACE %s %v violations=%d\n", sim.FP(sc), out.Counters, len(out.Violations))
		if os.Getenv("REMED_TRACE") == "worlds" {
			b, _ := json.Marshal(sc.W)
			fmt.Fprintf(os.Stderr, "REMED_TRACE_WORLD %s\n", b)
		}
		if os.Getenv("REMED_TRACE") == sim.FP(sc) {
			b, _ := json.Marshal(sc)
			fmt.Fprintf(os.Stderr, "REMED_SCENARIO %s\n", b)
		}
	}
	out.Sample = map[string]any{"world": ctx, "sched": sc.Sched, "faults": sc.Faults, "applied": patchesString(obs.Res.Patches), "updates_checked": checked}
	return out
}

func tail(s []string, n int) []string {
	if len(s) > n {
		return s[len(s)-n:]
	}
	return s
}

// CrashProne: the code under test may take the whole worker down (fatal stack overflow in the
// manifest writer); the coordinator then reports the scenario in progress as a `crash` violation.
func (C11) CrashProne() bool { return true }
