package remed

import (
	"context"
	"encoding/json"
	"encoding/xml"
	"fmt"
	"os"
	"path/filepath"
	"sort"
	"strings"

	"deps.dev/util/resolve"
	"deps.dev/util/resolve/dep"
	npmresolve "deps.dev/util/resolve/npm"
	"deps.dev/util/semver"
	"github.com/google/osv-scalibr/guidedremediation/result"
)

// ---- the upgrade-level rule, stated independently of upgrade.Level.Allows ----

// allows: major permits everything, minor everything but a change of the major number, patch
// neither a major nor a minor change, none nothing.  An unqualifiable difference (DiffOther)
// is not held against the library.
func allows(level string, d semver.Diff) bool {
	switch level {
	case "major":
		return true
	case "minor":
		return d != semver.DiffMajor
	case "patch":
		return d != semver.DiffMajor && d != semver.DiffMinor
	}
	return d == semver.Same
}

// ---- npm: effective requirements and independent resolution ----

type npmReq struct {
	Key, Name, Req string
	Opt            bool
}

func splitAlias(spec string) (name, req string) {
	if r, ok := strings.CutPrefix(spec, "npm:"); ok {
		if i := strings.LastIndex(r, "@"); i > 0 {
			return r[:i], r[i+1:]
		}
		return r, ""
	}
	return "", spec
}

// npmEffective computes the requirement per key as npm does: devDependencies take precedence
// over optionalDependencies over dependencies.
func npmEffective(entries []NpmEntry) []npmReq {
	rank := map[string]int{"dependencies": 0, "optionalDependencies": 1, "devDependencies": 2}
	best := map[string]NpmEntry{}
	for _, e := range entries {
		if b, ok := best[e.Key]; !ok || rank[e.Section] > rank[b.Section] {
			best[e.Key] = e
		}
	}
	keys := make([]string, 0, len(best))
	for k := range best {
		keys = append(keys, k)
	}
	sort.Strings(keys)
	var out []npmReq
	for _, k := range keys {
		e := best[k]
		name, req := splitAlias(e.Spec)
		r := npmReq{Key: k, Name: k, Req: req, Opt: e.Section == "optionalDependencies"}
		if name != "" {
			r.Name = name
		}
		out = append(out, r)
	}
	return out
}

// npmResolve resolves a package.json model with the real deps.dev npm resolver, driven by the
// harness over a fresh, un-faulted LocalClient, and returns key -> resolved version of every
// direct requirement.
func npmResolve(w *World, entries []NpmEntry) (map[string]string, error) {
	lc := w.localClient()
	root := resolve.Version{VersionKey: resolve.VersionKey{PackageKey: resolve.PackageKey{System: resolve.NPM, Name: "verif-root"}, VersionType: resolve.Concrete, Version: "1.0.0"}}
	var imports []resolve.RequirementVersion
	for _, r := range npmEffective(entries) {
		t := dep.NewType()
		if r.Name != r.Key {
			t.AddAttr(dep.KnownAs, r.Key)
		}
		if r.Opt {
			t.AddAttr(dep.Opt, "")
		}
		imports = append(imports, resolve.RequirementVersion{
			VersionKey: resolve.VersionKey{PackageKey: resolve.PackageKey{System: resolve.NPM, Name: r.Name}, VersionType: resolve.Requirement, Version: r.Req},
			Type:       t,
		})
	}
	lc.AddVersion(root, imports)
	g, err := npmresolve.NewResolver(lc).Resolve(context.Background(), root.VersionKey)
	if err != nil {
		return nil, err
	}
	if g.Error != "" {
		return nil, fmt.Errorf("graph error: %s", g.Error)
	}
	out := map[string]string{}
	for _, e := range g.Edges {
		if e.From != 0 {
			continue
		}
		n := g.Nodes[e.To].Version
		k := n.Name
		if a, ok := e.Type.GetAttr(dep.KnownAs); ok {
			k = a
		}
		out[k] = n.Version
	}
	return out, nil
}

// updKey is the package.json key an update is about.
func updKey(u result.PackageUpdate) string {
	if a, ok := u.Type.GetAttr(dep.KnownAs); ok {
		return a
	}
	return u.Name
}

// applyNpm renders "manifest + updates" at the model level: every entry of the update's key
// whose requirement equals VersionFrom gets VersionTo.  ok=false if some update matched nothing.
func applyNpm(entries []NpmEntry, ups []result.PackageUpdate) (out []NpmEntry, ok bool) {
	out = append([]NpmEntry(nil), entries...)
	ok = true
	for _, u := range ups {
		k := updKey(u)
		hit := false
		for i, e := range out {
			if e.Key != k {
				continue
			}
			name, req := splitAlias(e.Spec)
			if req != u.VersionFrom {
				continue
			}
			hit = true
			if name != "" {
				out[i].Spec = "npm:" + name + "@" + u.VersionTo
			} else {
				out[i].Spec = u.VersionTo
			}
		}
		if !hit {
			ok = false
		}
	}
	return out, ok
}

// ---- Maven: model-level interpolation and update application ----

func interpolate(v string, props map[string]string) string {
	for i := 0; i < 5 && strings.Contains(v, "${"); i++ {
		s := strings.Index(v, "${")
		e := strings.Index(v[s:], "}")
		if e < 0 {
			break
		}
		val, ok := props[v[s+2:s+e]]
		if !ok {
			break
		}
		v = v[:s] + val + v[s+e+1:]
	}
	return v
}

func (m *Manifest) props() map[string]string {
	p := map[string]string{}
	if m.Parent != nil {
		for _, x := range m.Parent.Props {
			p[x.K] = x.V
		}
	}
	if m.Pom != nil {
		for _, x := range m.Pom.Props {
			p[x.K] = x.V
		}
	}
	return p
}

// applyMaven renders "manifest + updates" at the model level.
func applyMaven(m *Manifest, ups []result.PackageUpdate) (out Manifest, ok bool) {
	out = m.clone()
	props := out.props()
	ok = true
	for _, u := range ups {
		g, a, _ := strings.Cut(u.Name, ":")
		if u.VersionFrom == "" {
			out.Pom.Mgmt = append(out.Pom.Mgmt, MDep{G: g, A: a, V: u.VersionTo})
			continue
		}
		// An artifact declared twice (dependencies and dependencyManagement) is reported as ONE
		// update whose type is that of the last declaration; a faithful application of the
		// report changes every declaration of the artifact that stands at VersionFrom.
		hit := false
		for _, pom := range []*Pom{out.Pom, out.Parent} {
			if pom == nil {
				continue
			}
			for _, list := range [][]MDep{pom.Deps, pom.Mgmt} {
				for i := range list {
					if list[i].G == g && list[i].A == a && interpolate(list[i].V, props) == u.VersionFrom {
						list[i].V = u.VersionTo
						hit = true
					}
				}
			}
		}
		if !hit {
			ok = false
		}
	}
	return out, ok
}

// ---- the harness's own minimal manifest readers (dependency sections only) ----

// readNpmReqs returns "section/key" -> requirement string.
func readNpmReqs(path string) (map[string]string, error) {
	b, err := os.ReadFile(path)
	if err != nil {
		return nil, err
	}
	var pj struct {
		Dependencies         map[string]string `json:"dependencies"`
		DevDependencies      map[string]string `json:"devDependencies"`
		OptionalDependencies map[string]string `json:"optionalDependencies"`
	}
	if err := json.Unmarshal(b, &pj); err != nil {
		return nil, err
	}
	out := map[string]string{}
	for s, m := range map[string]map[string]string{"dependencies": pj.Dependencies, "devDependencies": pj.DevDependencies, "optionalDependencies": pj.OptionalDependencies} {
		for k, v := range m {
			out[s+"/"+k] = v
		}
	}
	return out, nil
}

type xDep struct {
	G string `xml:"groupId"`
	A string `xml:"artifactId"`
	V string `xml:"version"`
}

type xProp struct {
	XMLName xml.Name
	Value   string `xml:",chardata"`
}

type xProject struct {
	Props struct {
		Entries []xProp `xml:",any"`
	} `xml:"properties"`
	Deps     []xDep `xml:"dependencies>dependency"`
	Mgmt     []xDep `xml:"dependencyManagement>dependencies>dependency"`
	Profiles []struct {
		ID   string `xml:"id"`
		Deps []xDep `xml:"dependencies>dependency"`
		Mgmt []xDep `xml:"dependencyManagement>dependencies>dependency"`
	} `xml:"profiles>profile"`
	ParentVersion string `xml:"parent>version"`
	ParentPath    string `xml:"parent>relativePath"`
}

func readXProject(path string) (*xProject, error) {
	b, err := os.ReadFile(path)
	if err != nil {
		return nil, err
	}
	var p xProject
	if err := xml.Unmarshal(b, &p); err != nil {
		return nil, err
	}
	return &p, nil
}

// readPomReqs returns "file|section|g:a" -> effective (property-interpolated) version for the
// project POM in dir/project and the local parent in dir/parent (if present).
func readPomReqs(dir string) (map[string]string, error) {
	proj, err := readXProject(filepath.Join(dir, "project", "pom.xml"))
	if err != nil {
		return nil, err
	}
	var parent *xProject
	if rp := strings.TrimSpace(proj.ParentPath); rp != "" {
		pp := filepath.Join(dir, "project", rp)
		if _, err := os.Stat(pp); err == nil {
			if parent, err = readXProject(pp); err != nil {
				return nil, err
			}
		}
	}
	pprops := map[string]string{}
	props := map[string]string{}
	if parent != nil {
		for _, e := range parent.Props.Entries {
			pprops[e.XMLName.Local] = strings.TrimSpace(e.Value)
			props[e.XMLName.Local] = strings.TrimSpace(e.Value)
		}
	}
	for _, e := range proj.Props.Entries {
		props[e.XMLName.Local] = strings.TrimSpace(e.Value)
	}
	out := map[string]string{}
	add := func(file string, p *xProject, pr map[string]string) {
		for _, d := range p.Deps {
			out[file+"|dependencies|"+d.G+":"+d.A] = interpolate(strings.TrimSpace(d.V), pr)
		}
		for _, d := range p.Mgmt {
			out[file+"|management|"+d.G+":"+d.A] = interpolate(strings.TrimSpace(d.V), pr)
		}
		for _, pf := range p.Profiles {
			for _, d := range pf.Deps {
				out[file+"|profile "+strings.TrimSpace(pf.ID)+"|"+d.G+":"+d.A] = interpolate(strings.TrimSpace(d.V), pr)
			}
			for _, d := range pf.Mgmt {
				out[file+"|profile-management "+strings.TrimSpace(pf.ID)+"|"+d.G+":"+d.A] = interpolate(strings.TrimSpace(d.V), pr)
			}
		}
		if p.ParentVersion != "" {
			out[file+"|parent|"+parentName] = strings.TrimSpace(p.ParentVersion)
		}
	}
	add("pom", proj, props)
	if parent != nil {
		add("parent", parent, pprops)
	}
	return out, nil
}

// readReqs reads the requirement set of the sandbox with the harness's own reader.
func readReqs(w *World, dir string) (map[string]string, error) {
	if w.Sys == "npm" {
		return readNpmReqs(filepath.Join(dir, "project", "package.json"))
	}
	return readPomReqs(dir)
}

// reqName extracts the package name a requirement key is about.
func reqName(w *World, key, value string) string {
	if w.Sys == "npm" {
		k := key[strings.Index(key, "/")+1:]
		if n, _ := splitAlias(value); n != "" {
			return n
		}
		return k
	}
	return key[strings.LastIndex(key, "|")+1:]
}

// reqVersion strips the alias prefix of an npm requirement.
func reqVersion(w *World, value string) string {
	if w.Sys == "npm" {
		_, r := splitAlias(value)
		return r
	}
	return value
}

func sortedKeys[V any](m map[string]V) []string {
	keys := make([]string, 0, len(m))
	for k := range m {
		keys = append(keys, k)
	}
	sort.Strings(keys)
	return keys
}

// diffReqs lists the keys whose requirement differs (changed, added or removed).
func diffReqs(before, after map[string]string) []string {
	seen := map[string]bool{}
	for k, v := range before {
		if after[k] != v {
			seen[k] = true
		}
	}
	for k, v := range after {
		if b, ok := before[k]; !ok || b != v {
			seen[k] = true
		}
	}
	return sortedKeys(seen)
}

// ---- result canonicalisation ----

func vulnIDs(vs []result.Vuln) []string {
	out := make([]string, 0, len(vs))
	for _, v := range vs {
		out = append(out, v.ID)
	}
	sort.Strings(out)
	return out
}

func updString(u result.PackageUpdate) string {
	return fmt.Sprintf("%s %q->%q transitive=%v type=%v", u.Name, u.VersionFrom, u.VersionTo, u.Transitive, u.Type)
}

func patchString(p result.Patch) string {
	var us []string
	for _, u := range p.PackageUpdates {
		us = append(us, updString(u))
	}
	f := func(vs []result.Vuln) string {
		var s []string
		for _, v := range vs {
			var ps []string
			for _, p := range v.Packages {
				ps = append(ps, p.Name+"@"+p.Version)
			}
			s = append(s, v.ID+"("+strings.Join(ps, ",")+")")
		}
		return strings.Join(s, ",")
	}
	return "{" + strings.Join(us, "; ") + " | fixed " + f(p.Fixed) + " | introduced " + f(p.Introduced) + "}"
}

func patchesString(ps []result.Patch) string {
	var s []string
	for _, p := range ps {
		s = append(s, patchString(p))
	}
	return "[" + strings.Join(s, "\n ") + "]"
}

func vulnsString(vs []result.Vuln) string {
	var s []string
	for _, v := range vs {
		var ps []string
		for _, p := range v.Packages {
			ps = append(ps, p.Name+"@"+p.Version)
		}
		s = append(s, fmt.Sprintf("%s(%s)unactionable=%v", v.ID, strings.Join(ps, ","), v.Unactionable))
	}
	return "[" + strings.Join(s, " ") + "]"
}

// features names the scenario traits a violation key is qualified with, so that a known
// finding about one trait does not mask a different violation of the same class.
func features(w *World, ups []result.PackageUpdate, vulns ...[]result.Vuln) string {
	var f []string
	for _, vs := range vulns {
		for _, v := range vs {
			for _, p := range v.Packages {
				if w.Sys == "maven" {
					f = append(f, mavenTraits(w, p.Name)...)
				}
			}
		}
	}
	for _, u := range ups {
		if strings.Contains(updKey(u), ".") && w.Sys == "npm" {
			f = append(f, "dotted-name")
		}
		if _, ok := u.Type.GetAttr(dep.KnownAs); ok {
			f = append(f, "alias")
		}
		if u.VersionFrom == "" {
			f = append(f, "new-management")
		}
		if w.Sys == "npm" && isPre(u.VersionFrom) {
			f = append(f, "from-prerelease")
		}
		if w.Sys == "npm" && latestBelowHighest(w.pkg(u.Name)) {
			f = append(f, "latest-below-highest")
		}
		if w.Sys == "maven" {
			f = append(f, mavenTraits(w, u.Name)...)
		}
	}
	if len(ups) > 1 {
		f = append(f, "multi-update")
	}
	o := w.Opts
	if o.MaxDepth > 0 {
		f = append(f, "maxdepth")
	}
	if !o.DevDeps {
		f = append(f, "nodev")
	}
	if len(o.Explicit) > 0 {
		f = append(f, "explicit")
	}
	if len(o.Ignore) > 0 {
		f = append(f, "ignore")
	}
	if o.MinSeverity > 0 {
		f = append(f, "minseverity")
	}
	if o.MavenManagement {
		f = append(f, "mavenmanagement")
	}
	if t := universeTraits(w); t != "" {
		f = append(f, t)
	}
	if w.Sys == "maven" {
		if w.Manifest.Parent != nil && strings.Contains(w.Manifest.parentDir(), "@") {
			f = append(f, "at-in-parent-path")
		}
		if p := w.Manifest.Pom; p != nil && p.EmptyMgmt && len(p.Mgmt) == 0 {
			f = append(f, "empty-management-element")
		}
		if p := w.Manifest.Pom; p != nil {
			for _, pf := range p.Profiles {
				if pf.ID == "" {
					f = append(f, "unnamed-profile")
				}
				if len(pf.Mgmt) > 0 && len(p.Mgmt) == 0 {
					f = append(f, "management-only-in-profile")
				}
			}
		}
	}
	sort.Strings(f)
	out := f[:0]
	for i, x := range f {
		if i == 0 || f[i-1] != x {
			out = append(out, x)
		}
	}
	return strings.Join(out, "+")
}

// mavenTraits names what is special about the declarations of an artifact in the manifest.
func mavenTraits(w *World, name string) []string {
	var f []string
	decls := 0
	versions := map[string]bool{}
	inFile := map[int]bool{}
	files := 0
	inProfile, outsideProfile := false, false
	props := w.Manifest.props()
	for i, pom := range []*Pom{w.Manifest.Pom, w.Manifest.Parent} {
		if pom == nil {
			continue
		}
		lists := [][]MDep{pom.Deps, pom.Mgmt}
		for _, pf := range pom.Profiles {
			lists = append(lists, pf.Deps, pf.Mgmt)
		}
		for li, l := range lists {
			for _, d := range l {
				if d.Name() != name {
					continue
				}
				if li >= 2 && strings.Contains(d.V, "${") {
					// a profile declaration taking its version from a property that a
					// declaration of another artifact outside the profile uses as well
					for _, pom2 := range []*Pom{w.Manifest.Pom, w.Manifest.Parent} {
						if pom2 != nil {
							for _, d2 := range append(append([]MDep{}, pom2.Deps...), pom2.Mgmt...) {
								if d2.V == d.V && d2.Name() != name {
									f = append(f, "property-shared-with-profile")
								}
							}
						}
					}
				}
				decls++
				if li >= 2 {
					inProfile = true
				} else {
					outsideProfile = true
				}
				versions[interpolate(d.V, props)] = true
				if !inFile[i] {
					inFile[i] = true
					files++
				}
				if i == 1 {
					f = append(f, "declared-in-parent")
				}
				if strings.Contains(d.V, "${") {
					f = append(f, "via-property")
					k := strings.TrimSuffix(strings.TrimPrefix(d.V, "${"), "}")
					own, other := pom, w.Manifest.Parent
					if i == 1 {
						other = w.Manifest.Pom
					}
					inOwn := false
					for _, pr := range own.Props {
						inOwn = inOwn || pr.K == k
					}
					if !inOwn && other != nil {
						for _, pr := range other.Props {
							if pr.K == k {
								f = append(f, "property-in-other-file")
							}
						}
					}
					users := 0
					for _, pom2 := range []*Pom{w.Manifest.Pom, w.Manifest.Parent} {
						if pom2 != nil {
							for _, d2 := range append(append([]MDep{}, pom2.Deps...), pom2.Mgmt...) {
								if d2.V == d.V {
									users++
								}
							}
						}
					}
					if users > 1 {
						f = append(f, "shared-property")
					}
					for _, pom2 := range []*Pom{w.Manifest.Pom, w.Manifest.Parent} {
						if pom2 != nil {
							for _, pf := range pom2.Profiles {
								for _, d2 := range pf.Deps {
									if d2.V == d.V && d2.Name() != name {
										f = append(f, "property-shared-with-profile")
									}
								}
							}
						}
					}
				}
			}
		}
	}
	if inProfile && !outsideProfile {
		// the only declaration of the artifact sits in a profile: the writer files an override
		// of the (transitive) package under that declaration
		f = append(f, "declared-only-in-profile")
	}
	if inProfile && outsideProfile {
		// Update identifies declarations by groupId:artifactId only (known finding R-F4)
		f = append(f, "declared-in-profile-and-main")
	}
	if decls > 1 {
		// declared more than once: at different versions (the library's RequirementKey collision,
		// a known finding) or at one and the same version (handled correctly by the library)
		switch {
		case len(versions) > 1:
			f = append(f, "dup-declaration")
		case files > 1:
			f = append(f, "twice-declared-across-poms")
		default:
			// same version in one POM.  With a soft version the library is right (the writer
			// updates the <dependencies> declaration, which decides).  With a RANGE the
			// un-updated <dependencyManagement> range keeps constraining the package: the
			// single reported update reaches only the first declaration (R-F3 family).
			rng := false
			for v := range versions {
				rng = strings.HasPrefix(v, "[") || strings.HasPrefix(v, "(")
			}
			if rng {
				f = append(f, "twice-declared-same-range")
			} else {
				f = append(f, "twice-declared-same-version")
			}
		}
	}
	return f
}

// universeTraits names universe features that known library defects hinge on.
func universeTraits(w *World) string {
	for _, p := range w.Universe {
		for _, v := range p.Vers {
			for _, d := range v.Deps {
				if w.Sys == "maven" && strings.HasPrefix(d.Req, "[") && !strings.HasSuffix(d.Req, ",)") {
					return "upper-bounded-requirement"
				}
			}
		}
	}
	return ""
}

// targetUpperBounded reports whether some universe version requires the package through a hard
// or upper-bounded Maven requirement ([v] or [a,b)): such a requirement wins over a soft
// override in the resolver.
func targetUpperBounded(w *World, name string) bool {
	if w.Sys != "maven" {
		return false
	}
	for _, p := range w.Universe {
		for _, v := range p.Vers {
			for _, d := range v.Deps {
				if d.Name == name && strings.HasPrefix(d.Req, "[") && !strings.HasSuffix(d.Req, ",)") {
					return true
				}
			}
		}
	}
	return false
}

// latestBelowHighest: the npm dist-tag latest sits on a version below the highest release
// (the resolver prefers the tagged version when it satisfies the requirement).
func latestBelowHighest(p *Pkg) bool {
	if p == nil {
		return false
	}
	tagged, highest := "", ""
	for _, v := range p.Vers {
		if strings.Contains(v.Tags, "latest") {
			tagged = v.V
		}
		if !isPre(v.V) && (highest == "" || semver.NPM.Compare(v.V, highest) > 0) {
			highest = v.V
		}
	}
	return tagged != "" && highest != "" && semver.NPM.Compare(tagged, highest) < 0
}
