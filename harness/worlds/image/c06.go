package imgworld

import (
	"context"
	"encoding/json"
	"fmt"
	"io/fs"
	"os"
	"path"
	"path/filepath"
	"strings"
	"syscall"
	"testing"

	scalibr "github.com/google/osv-scalibr"
	"github.com/google/osv-scalibr/artifact/image/layerscanning/image"
	"github.com/google/osv-scalibr/artifact/image/unpack"
	"github.com/google/osv-scalibr/extractor"
	"github.com/google/osv-scalibr/extractor/filesystem"
	"github.com/google/osv-scalibr/extractor/filesystem/language/dotnet/dotnetpe"
	"github.com/google/osv-scalibr/inventory"
	"github.com/google/osv-scalibr/plugin"
	"github.com/google/osv-scalibr/purl"
	"github.com/google/osv-scalibr/verifshim"
	"pgregory.net/rapid"
	"verif/sim"
)

// C06 (image half) - loading or unpacking an image has no file-system side effects outside
// the directory designated for it.
type C06 struct{}

// C06Scenario: Op selects the entry point.
//
//	"v1"         image.FromV1Image(SimImage) then CleanUp
//	"tarball"    image.FromTarball(real docker-save tarball of the same layers) then CleanUp
//	"unpack"     Unpacker.UnpackSquashed(target, SimImage)
//	"unpack-tar" Unpacker.UnpackSquashedFromTarball(target, file) with Layers[0] as the squashed archive
//	"scan"       FromV1Image, then Scanner.ScanContainer over the loaded image with the real dotnet/pe
//	             extractor and a harness extractor that uses ScanInput.GetRealPath as documented,
//	             then CleanUp
//
// Entry names and link targets may contain the token $SANDBOX, which is replaced by the absolute
// path of the sandbox root when the archive is rendered (absolute HOST paths of the decoys).
type C06Scenario struct {
	Op    string    `json:"op"`
	Image ImageSpec `json:"image"`
	// Requirer / Paths: the loader's file requirer for "v1", "tarball" and "scan" ("" = all).
	Requirer string   `json:"requirer,omitempty"`
	Paths    []string `json:"paths,omitempty"`
	// OSFaults (tier 2): the K-th call of Op inside image.go / unpack.go fails with Errno; for
	// Op "Copy" N bytes are copied first (a disk that fills up in the middle of a write).
	OSFaults []OSFaultPlan `json:"os_faults,omitempty"`
}

// OSFaultPlan is one planned OS-call failure.
type OSFaultPlan struct {
	Op    string `json:"op"` // MkdirTemp | Mkdir | MkdirAll | OpenFile | Create | WriteFile | Symlink | Copy
	K     int    `json:"k"`  // 1-based occurrence of Op in the run
	Errno string `json:"errno"`
	N     int64  `json:"n,omitempty"`
}

// the OS calls that occur on the two code paths
var osFaultOpsLoad = []string{"MkdirTemp", "Mkdir", "MkdirAll", "OpenFile", "OpenFile", "Copy", "Copy"}
var osFaultOpsUnpack = []string{"MkdirTemp", "MkdirAll", "MkdirAll", "WriteFile", "WriteFile", "Symlink", "Copy"}

func errnoOf(s string) error {
	switch s {
	case "EMFILE":
		return syscall.EMFILE
	case "EACCES":
		return syscall.EACCES
	}
	return syscall.ENOSPC
}

// installOSFaults arms the build-time redirected os.* / io.Copy calls of the loader and the
// unpacker; the returned function disarms them and reports what fired.
// hostJail is the jail of the current run's sandbox (runs are serial in a worker).
var hostJail string

func installOSFaults(plans []OSFaultPlan, out *sim.Outcome, removes *[]string) func() int {
	seen := map[string]int{}
	fired := 0
	hit := func(op string) *OSFaultPlan {
		seen[op]++
		for i := range plans {
			if plans[i].Op == op && plans[i].K == seen[op] {
				fired++
				out.Count("fault_fired_os_"+op, 1)
				return &plans[i]
			}
		}
		return nil
	}
	for _, p := range plans {
		out.Count("fault_planned_os_"+p.Op, 1)
	}
	verifshim.OSFault = func(op, path string) error {
		if op == "Remove" || op == "RemoveAll" {
			// clean-up itself is never made to fail (its failure could not be cleaned up), but what it
			// is pointed at is recorded
			if removes != nil {
				*removes = append(*removes, op+" "+path)
			}
			// never let a (mutated) loader delete anything of the real host: outside the jail the call
			// is refused instead of executed
			if abs, err := filepath.Abs(path); err != nil || !within(hostJail, filepath.Clean(abs)) {
				return &fs.PathError{Op: strings.ToLower(op), Path: path, Err: syscall.EPERM}
			}
			return nil
		}
		if p := hit(op); p != nil {
			return &fs.PathError{Op: strings.ToLower(op), Path: path, Err: errnoOf(p.Errno)}
		}
		return nil
	}
	verifshim.CopyFault = func() (int64, error) {
		if p := hit("Copy"); p != nil {
			return p.N, errnoOf(p.Errno)
		}
		return 0, nil
	}
	return func() int {
		verifshim.OSFault, verifshim.CopyFault = nil, nil
		return fired
	}
}

func (C06) ID() string { return "C06" }
func (C06) Rule() string {
	return "(image) 0-3 layer archives (0 = an image without layers, with or without history entries) whose entry names and link targets are assembled from '..', '.', '', '/', a 300-byte component, names of the sandbox's decoy siblings (target-evil, targetX: string prefix of the target), outside, cwd, tmp, and the names of links declared earlier; regular, directory, symlink and hard-link entries in any order and layer, plus seeded attack sequences (link chain 'up -> .', 'esc -> up/..' then a write 0-2 levels below it; file then entry beneath it; link with empty target; dot-dot names into decoys); faults: layer reader error at byte k, truncated archive, and (tier 2, 1 in 3 scenarios) 1-2 OS-call failures inside image.go / unpack.go through the build-time overlay: the k-th MkdirTemp / Mkdir / MkdirAll / OpenFile / Create / WriteFile / Symlink fails with ENOSPC / EMFILE / EACCES, io.Copy fails after n bytes; names and link targets that are the absolute HOST paths of sandbox files / an empty directory ($SANDBOX/...); loader requirer all / none / path list; entry points FromV1Image, FromTarball (+CleanUp), UnpackSquashed, UnpackSquashedFromTarball into sandbox/target; the WHOLE jail (target, decoys, outside, cwd, TMPDIR, harness inputs, 8 directory levels above) is snapshotted (type, link target, size, mode, hash) before and after every call; every os.Remove / os.RemoveAll issued by image.go / unpack.go is recorded through the overlay and must point into TMPDIR (or the unpack target); 1 in 9 scenarios: a well-formed image holding a PE-named file and a package database is loaded and scanned with Scanner.ScanContainer (real dotnet/pe extractor + a harness extractor using ScanInput.GetRealPath as documented): the scan must leave every view readable with the same content and the whole jail unchanged; evaluation = one call sequence on one scenario; non-trivial = at least one entry name or link target lexically or through a link leaves the root, or a fault (reader or OS call) fired; distinct = distinct scenario JSON"
}

var c06Segs = []string{"..", "..", ".", "", "a", "b", "up", "esc", "sub", "target-evil", "targetX", "outside", "cwd", "tmp", "target", "keep.txt", "victim.txt", "poc.txt", "LONG", "n"}

func genHostilePath(rt *rapid.T, label string, links []string) string {
	n := rapid.IntRange(1, 4).Draw(rt, label+".n")
	var segs []string
	for i := 0; i < n; i++ {
		if len(links) > 0 && rapid.IntRange(0, 3).Draw(rt, label+".uselink") == 0 {
			segs = append(segs, rapid.SampledFrom(links).Draw(rt, label+".link"))
			continue
		}
		s := rapid.SampledFrom(c06Segs).Draw(rt, label+".seg")
		if s == "LONG" {
			s = strings.Repeat("L", 300)
		}
		segs = append(segs, s)
	}
	p := strings.Join(segs, "/")
	switch rapid.IntRange(0, 6).Draw(rt, label+".prefix") {
	case 0:
		p = "/" + p
	case 1:
		p = "./" + p
	case 2: // the absolute host path of something in the sandbox
		p = "$SANDBOX/" + rapid.SampledFrom(sandboxVictims).Draw(rt, label+".victim")
	}
	return p
}

// sandboxVictims: removable things of the sandbox (files, an empty directory, a link-free decoy).
var sandboxVictims = []string{"outside/victim.txt", "victim.txt", "outside/empty", "sub/keep.txt", "cwd/keep.txt", "target-evil/keep.txt", "outside/keep"}

// render replaces $SANDBOX in names and link targets.
func render(spec *ImageSpec, root string) *ImageSpec {
	out := *spec
	out.Layers = nil
	for _, l := range spec.Layers {
		nl := l
		nl.Entries = append([]Entry(nil), l.Entries...)
		for i := range nl.Entries {
			nl.Entries[i].Raw = strings.ReplaceAll(nl.Entries[i].Raw, "$SANDBOX", root)
			nl.Entries[i].Target = strings.ReplaceAll(nl.Entries[i].Target, "$SANDBOX", root)
		}
		out.Layers = append(out.Layers, nl)
	}
	return &out
}

func countDotDot(s string) int {
	n := 0
	for _, seg := range strings.Split(s, "/") {
		if seg == ".." {
			n++
		}
	}
	return n
}

func dotDotTotal(spec *ImageSpec) int {
	n := 0
	for _, l := range spec.Layers {
		for i := range l.Entries {
			n += countDotDot(l.Entries[i].HeaderName()) + countDotDot(l.Entries[i].Target)
		}
	}
	return n
}

func (C06) Gen(rt *rapid.T, tier string) any {
	sc := &C06Scenario{Op: rapid.SampledFrom([]string{"v1", "v1", "v1", "tarball", "unpack", "unpack", "unpack-tar", "unpack-tar", "scan"}).Draw(rt, "op")}
	if sc.Op == "scan" {
		return genC06Scan(rt, sc)
	}
	nl := rapid.SampledFrom([]int{0, 1, 1, 1, 2, 2, 3}).Draw(rt, "layers") // 0: an image without any layer
	if sc.Op == "unpack-tar" {
		nl = 1
	}
	var links []string
	budget := maxDotDot
	add := func(l *LayerSpec, e Entry) {
		c := countDotDot(e.HeaderName()) + countDotDot(e.Target)
		if c > budget {
			return
		}
		budget -= c
		l.Entries = append(l.Entries, e)
		if e.Kind == "l" || e.Kind == "h" {
			links = append(links, path.Base(path.Clean(e.HeaderName())))
		}
	}
	for i := 0; i < nl; i++ {
		var l LayerSpec
		ne := rapid.IntRange(1, 5).Draw(rt, "entries")
		for j := 0; j < ne; j++ {
			switch rapid.IntRange(0, 9).Draw(rt, "what") {
			case 0: // cooperating links, then a write below
				extra := rapid.SampledFrom([]string{"", "", "/target-evil", "/outside", "/sub", "/.."}).Draw(rt, "esc.extra")
				add(&l, Entry{Kind: "l", Raw: "up", Target: "."})
				add(&l, Entry{Kind: "l", Raw: "esc", Target: "up/.." + extra})
				below := rapid.SampledFrom([]string{"", "sub/", "sub/deep/", "outside/", "target-evil/"}).Draw(rt, "esc.below")
				k := rapid.SampledFrom([]string{"f", "f", "f", "d", "l"}).Draw(rt, "esc.kind")
				e := Entry{Kind: k, Raw: "esc/" + below + "poc.txt", Perm: 0o644, Data: "written through a link\n"}
				if k == "l" {
					e.Target = "victim.txt"
				}
				add(&l, e)
			case 1: // file, then an entry beneath it
				add(&l, Entry{Kind: "f", Raw: "a", Perm: 0o644, Data: "x"})
				add(&l, Entry{Kind: rapid.SampledFrom([]string{"f", "d"}).Draw(rt, "under.kind"), Raw: "a/b", Perm: 0o755, Data: "y"})
			case 2: // link without a target
				add(&l, Entry{Kind: rapid.SampledFrom([]string{"l", "h"}).Draw(rt, "empty.kind"), Raw: "lnk"})
			default:
				k := rapid.SampledFrom([]string{"f", "f", "f", "d", "l", "l", "h"}).Draw(rt, "kind")
				e := Entry{Kind: k, Raw: genHostilePath(rt, "name", links), Perm: rapid.SampledFrom([]int{0o644, 0o755, 0o600, 0o444}).Draw(rt, "perm")}
				switch k {
				case "f":
					e.Data = "payload\n"
				case "l", "h":
					e.Target = genHostilePath(rt, "target", links)
				}
				add(&l, e)
			}
		}
		if rapid.Bool().Draw(rt, "shuffle") && len(l.Entries) > 1 {
			perm := rapid.Permutation(l.Entries).Draw(rt, "order")
			l.Entries = perm
		}
		l.Chunk = genChunk(rt, "chunk")
		switch rapid.IntRange(0, 7).Draw(rt, "fault") {
		case 0:
			if sc.Op == "v1" || sc.Op == "unpack" {
				l.FailAt = rapid.IntRange(1, 4096).Draw(rt, "fail_at")
			}
		case 1:
			l.TruncAt = rapid.IntRange(1, 4096).Draw(rt, "trunc_at")
		}
		if len(l.Entries) == 0 {
			l.Entries = append(l.Entries, Entry{Kind: "f", Raw: "a", Perm: 0o644, Data: "x"})
		}
		sc.Image.Layers = append(sc.Image.Layers, l)
	}
	if rapid.IntRange(0, 2).Draw(rt, "os_faults") == 0 {
		for i, n := 0, rapid.IntRange(1, 2).Draw(rt, "n_os_faults"); i < n; i++ {
			ops := osFaultOpsLoad
			if strings.HasPrefix(sc.Op, "unpack") {
				ops = osFaultOpsUnpack
			}
			sc.OSFaults = append(sc.OSFaults, OSFaultPlan{Op: rapid.SampledFrom(ops).Draw(rt, "os.op"), K: rapid.SampledFrom([]int{1, 1, 2, 2, 3, 4}).Draw(rt, "os.k"),
				Errno: rapid.SampledFrom([]string{"ENOSPC", "EMFILE", "EACCES"}).Draw(rt, "os.errno"), N: int64(rapid.IntRange(0, 12).Draw(rt, "os.n"))})
		}
	}
	if sc.Op == "v1" || sc.Op == "tarball" {
		genHistory(rt, &sc.Image, nl, sc.Op == "v1")
		sc.Requirer = rapid.SampledFrom([]string{"all", "all", "none", "paths"}).Draw(rt, "requirer")
		if sc.Requirer == "paths" {
			for _, l := range sc.Image.Layers {
				for i := range l.Entries {
					if rapid.IntRange(0, 2).Draw(rt, "required") == 0 {
						sc.Paths = append(sc.Paths, strings.TrimPrefix(path.Clean(l.Entries[i].HeaderName()), "/"))
					}
				}
			}
		}
	}
	return sc
}

func (C06) Decode(raw json.RawMessage) (any, error) {
	var s C06Scenario
	err := json.Unmarshal(raw, &s)
	return &s, err
}

func within(root, p string) bool { return p == root || strings.HasPrefix(p, root+"/") }

// mechanism tells how a path outside the target can have been reached: "by-name" if it is the
// lexical join of the target and an entry name (or an ancestor of one), else "through-link".
func mechanism(sc *C06Scenario, target, abs string) string {
	for _, l := range sc.Image.Layers {
		for i := range l.Entries {
			lex := path.Join(target, path.Clean(l.Entries[i].HeaderName()))
			if lex == abs || strings.HasPrefix(lex, abs+"/") {
				return "by-name"
			}
		}
	}
	return "through-link"
}

func (C06) Run(t *testing.T, scAny any) *sim.Outcome {
	sc := scAny.(*C06Scenario)
	out := &sim.Outcome{Executions: 1}
	ctxs := fmt.Sprintf("op=%s %s", sc.Op, sc.Image.String())
	if sc.Requirer != "" && sc.Requirer != "all" {
		ctxs = fmt.Sprintf("requirer=%s%v %s", sc.Requirer, sc.Paths, ctxs)
	}
	if len(sc.OSFaults) > 0 {
		ctxs = fmt.Sprintf("os-faults=%v %s", sc.OSFaults, ctxs)
	}
	if len(ctxs) > 1500 {
		ctxs = ctxs[:1500] + "..."
	}
	out.Sample = ctxs
	if (len(sc.Image.Layers) == 0 && (sc.Op == "unpack-tar" || sc.Op == "scan")) || dotDotTotal(&sc.Image) > maxDotDot {
		out.Count("skipped_invalid_scenario", 1)
		return out
	}
	sb, err := NewSandbox()
	if err != nil {
		panic("harness: sandbox: " + err.Error())
	}
	defer sb.Close()
	hostJail = sb.Jail
	if sc.Op == "scan" {
		return runC06Scan(sc, sb, out, ctxs)
	}
	// from here on the scenario with $SANDBOX replaced by this run's sandbox root
	sc = &C06Scenario{Op: sc.Op, Image: *render(&sc.Image, sb.Root), Requirer: sc.Requirer, Paths: append([]string(nil), sc.Paths...), OSFaults: sc.OSFaults}
	for i, p := range sc.Paths {
		sc.Paths[i] = strings.TrimPrefix(strings.ReplaceAll(p, "$SANDBOX", sb.Root), "/")
	}
	var removes []string
	checkRemoves := func() {
		for _, r := range removes {
			op, p, _ := strings.Cut(r, " ")
			if !filepath.IsAbs(p) {
				p = filepath.Join(sb.Cwd, p)
			}
			p = filepath.Clean(p)
			if within(sb.Tmp, p) || (strings.HasPrefix(sc.Op, "unpack") && within(sb.Target, p)) {
				continue
			}
			out.Violate("remove-attempt-outside", "remove-attempt-outside:"+sc.Op+":"+op, "%s(%q) was called: a path outside the designated directory (whether something exists there is the host's business); %s", op, strings.ReplaceAll(p, sb.Jail, "$JAIL"), ctxs)
		}
		removes = nil
	}

	escaping := false
	for _, l := range sc.Image.Layers {
		for i := range l.Entries {
			e := &l.Entries[i]
			if strings.HasPrefix(e.HeaderName(), sb.Root) || strings.HasPrefix(e.Target, sb.Root) {
				escaping = true
			}
			if strings.HasPrefix(path.Clean(e.HeaderName()), "..") || strings.Contains(e.Target, "..") || strings.HasPrefix(e.HeaderName(), "esc/") {
				escaping = true
			}
		}
		if l.FailAt > 0 {
			out.Count("fault_planned_reader_error", 1)
		}
		if l.TruncAt > 0 {
			out.Count("fault_planned_truncated", 1)
		}
	}

	var hist []string
	report := func(op, phase string, changes []Change) {
		for _, c := range changes {
			area := Area(c.Path)
			if area == "tmp" && (strings.HasPrefix(c.Path, "tmp/osv-scalibr-image-scanning-") || strings.HasPrefix(c.Path, "tmp/image-tar-tmp-")) {
				out.Violate("tmp-leak", fmt.Sprintf("tmp-leak:%s:%s", sc.Op, phase), "%s %s: TMPDIR is not as before: %s %s (%s); %s", op, phase, c.Op, c.Path, c.Desc, ctxs)
				continue
			}
			mech := ""
			if strings.HasPrefix(sc.Op, "unpack") {
				mech = ":" + mechanism(sc, sb.Target, sb.Abs(c.Path))
			}
			out.Violate("escape-"+c.Op+"-"+c.Type, fmt.Sprintf("escape:%s:%s-%s:%s%s", sc.Op, c.Op, c.Type, area, mech),
				"%s %s: %s %s outside the designated directory: %s (%s); %s", op, phase, c.Op, c.Type, c.Path, c.Desc, ctxs)
		}
	}

	switch sc.Op {
	case "v1", "tarball":
		tarPath := filepath.Join(sb.Inputs, "image.tar")
		if sc.Op == "tarball" {
			if err := WriteTarball(&sc.Image, tarPath); err != nil {
				panic("harness: cannot write tarball: " + err.Error())
			}
		}
		before := sb.Snapshot()
		var img *image.Image
		var simg *SimImage
		disarm := installOSFaults(sc.OSFaults, out, &removes)
		cfg := LoadOpts{Requirer: sc.Requirer, Paths: sc.Paths}.config()
		if sc.Op == "tarball" {
			img, err = image.FromTarball(tarPath, cfg)
		} else {
			simg = NewSimImage(&sc.Image)
			img, err = image.FromV1Image(simg, cfg)
		}
		if disarm() > 0 {
			escaping = true
		}
		checkRemoves()
		after := sb.Snapshot()
		if simg != nil {
			for _, l := range simg.layers {
				if l.Fired > 0 {
					out.Count("fault_fired_reader_error", 1)
					escaping = true
				}
			}
		}
		if err != nil {
			hist = append(hist, "load: error")
			out.Count("load_failed", 1)
			if img != nil {
				out.Violate("image-with-error", "image-with-error", "loader returned an image together with error %v; %s", err, ctxs)
			}
			report("load", "after-failed-load", Diff(before, after))
			break
		}
		hist = append(hist, "load: ok")
		rel, rerr := filepath.Rel(sb.Root, img.ExtractDir)
		if rerr != nil || !strings.HasPrefix(rel, "tmp/") || strings.Contains(rel[4:], "/") {
			out.Violate("extractdir-outside-tmp", "extractdir-outside-tmp", "ExtractDir %q is not a direct child of TMPDIR %q; %s", img.ExtractDir, sb.Tmp, ctxs)
			rel = "tmp"
		}
		report("load", "after-load", Diff(before, after, rel))
		// the extraction directory itself must not contain links leading out of it
		checkLinks(out, sc.Op, img.ExtractDir, ctxs)
		cerr := img.CleanUp()
		hist = append(hist, fmt.Sprintf("cleanup: %v", cerr == nil))
		report("cleanup", "after-cleanup", Diff(before, sb.Snapshot()))
	case "unpack", "unpack-tar":
		u, uerr := unpack.NewUnpacker(unpack.DefaultUnpackerConfig())
		if uerr != nil {
			panic("harness: unpacker: " + uerr.Error())
		}
		tarPath := filepath.Join(sb.Inputs, "squashed.tar")
		if sc.Op == "unpack-tar" {
			if err := os.WriteFile(tarPath, sc.Image.Layers[0].TarBytes(), 0o644); err != nil {
				panic("harness: " + err.Error())
			}
		}
		before := sb.Snapshot()
		disarm := installOSFaults(sc.OSFaults, out, &removes)
		defer disarm()
		if sc.Op == "unpack" {
			simg := NewSimImage(&sc.Image)
			err = u.UnpackSquashed(sb.Target, simg)
			for _, l := range simg.layers {
				if l.Fired > 0 {
					out.Count("fault_fired_reader_error", 1)
					escaping = true
				}
			}
		} else {
			err = u.UnpackSquashedFromTarball(sb.Target, tarPath)
		}
		if disarm() > 0 {
			escaping = true
		}
		checkRemoves()
		hist = append(hist, fmt.Sprintf("unpack: %v", err == nil))
		if err != nil {
			out.Count("unpack_failed", 1)
		}
		after := sb.Snapshot()
		report("unpack", "after-unpack", Diff(before, after, "target"))
		checkLinks(out, sc.Op, sb.Target, ctxs)
		for _, p := range sortedKeys(after) {
			if within("target", p) {
				// link targets are rewritten to absolute paths below the target: keep the history free of
				// the sandbox's own location
				// (entry names may be the sandbox's own absolute paths, too)
				clean := strings.NewReplacer(sb.Jail, "$JAIL", strings.TrimPrefix(sb.Jail, "/"), "$JAIL")
				if strings.HasPrefix("target"+sb.Jail, p+"/") && p != "target" {
					continue // a directory on the way to such a path
				}
				hist = append(hist, clean.Replace(p)+"="+clean.Replace(after[p].String()))
			}
		}
	default:
		out.Count("skipped_invalid_scenario", 1)
		return out
	}
	out.Nontrivial = escaping
	out.HistoryFP = sim.FP(hist)
	return out
}

// checkLinks: every symlink left below dir resolves inside dir, lexically and on disk.
func checkLinks(out *sim.Outcome, op, dir, ctxs string) {
	snap := SnapshotDir(dir)
	for _, p := range sortedKeys(snap) {
		e := snap[p]
		if e.Type != "link" {
			continue
		}
		abs := filepath.Join(dir, p)
		lex := e.Link
		if !filepath.IsAbs(lex) {
			lex = filepath.Join(filepath.Dir(abs), lex)
		}
		lex = filepath.Clean(lex)
		if !within(dir, lex) {
			out.Violate("link-escape", "link-escape:"+op, "symlink %s -> %q left in the designated directory points (lexically) to %s, outside %s; %s", p, e.Link, lex, dir, ctxs)
			continue
		}
		if res, err := filepath.EvalSymlinks(abs); err == nil && !within(dir, res) {
			out.Violate("link-escape", "link-escape:"+op, "symlink %s -> %q left in the designated directory resolves to %s, outside %s; %s", p, e.Link, res, dir, ctxs)
		}
	}
}

// ---------------------------------------------------------------------------------------
// op "scan": a container scan of a loaded image does not touch the image's files.

// realPathExtractor uses ScanInput.GetRealPath the way its documentation (and os/rpm, dotnet/pe)
// say: on a virtual file system the file is copied to a temporary directory which the caller
// removes when done.
type realPathExtractor struct{ calls *int }

func (realPathExtractor) Name() string                       { return "harness/realpath" }
func (realPathExtractor) Version() int                       { return 1 }
func (realPathExtractor) Requirements() *plugin.Capabilities { return &plugin.Capabilities{} }
func (realPathExtractor) FileRequired(api filesystem.FileAPI) bool {
	return strings.HasSuffix(api.Path(), "Packages.db")
}
func (e realPathExtractor) Extract(_ context.Context, in *filesystem.ScanInput) (inventory.Inventory, error) {
	*e.calls++
	p, err := in.GetRealPath()
	if err != nil {
		return inventory.Inventory{}, err
	}
	if in.Root == "" {
		defer os.RemoveAll(filepath.Dir(p))
	}
	b, err := os.ReadFile(p)
	if err != nil {
		return inventory.Inventory{}, err
	}
	var inv inventory.Inventory
	for _, nv := range parseList(b) {
		inv.Packages = append(inv.Packages, &extractor.Package{Name: nv[0], Version: nv[1], Locations: []string{in.Path}})
	}
	return inv, nil
}
func (realPathExtractor) ToPURL(p *extractor.Package) *purl.PackageURL {
	return &purl.PackageURL{Type: "generic", Name: p.Name, Version: p.Version}
}
func (realPathExtractor) Ecosystem(*extractor.Package) string { return "sim" }

var c06ScanFiles = []string{"app/tool.exe", "app/lib/helper.dll", "app/appsettings.json", "var/lib/pkg/Packages.db", "var/lib/pkg/.lock", "opt/x/Packages.db", "etc/motd"}

func genC06Scan(rt *rapid.T, sc *C06Scenario) *C06Scenario {
	nl := rapid.IntRange(1, 3).Draw(rt, "layers")
	for i := 0; i < nl; i++ {
		var l LayerSpec
		used := map[string]bool{}
		for j, n := 0, rapid.IntRange(1, 5).Draw(rt, "entries"); j < n; j++ {
			p := rapid.SampledFrom(c06ScanFiles).Draw(rt, "path")
			if used[p] {
				continue
			}
			used[p] = true
			data := fmt.Sprintf("pkg%d 1.%d.0\n", j, i)
			if strings.HasSuffix(p, ".exe") || strings.HasSuffix(p, ".dll") {
				data = "MZ" + strings.Repeat("\x00", rapid.IntRange(0, 70).Draw(rt, "pe.pad")) + "PE\x00\x00 not really"
			}
			l.Entries = append(l.Entries, Entry{Kind: "f", Path: p, Perm: 0o644, Data: data})
		}
		l.Chunk = genChunk(rt, "chunk")
		sc.Image.Layers = append(sc.Image.Layers, l)
	}
	genHistory(rt, &sc.Image, nl, true)
	sc.Requirer = rapid.SampledFrom([]string{"all", "all", "paths"}).Draw(rt, "requirer")
	if sc.Requirer == "paths" {
		sc.Paths = []string{"app/tool.exe", "app/lib/helper.dll", "var/lib/pkg/Packages.db", "opt/x/Packages.db"}
	}
	return sc
}

func runC06Scan(sc *C06Scenario, sb *Sandbox, out *sim.Outcome, ctxs string) *sim.Outcome {
	before := sb.Snapshot()
	img, err := image.FromV1Image(NewSimImage(&sc.Image), LoadOpts{Requirer: sc.Requirer, Paths: sc.Paths}.config())
	if err != nil {
		out.Violate("load-failed", "load-failed:scan-op", "loading a well-formed image failed: %v; %s", err, ctxs)
		return out
	}
	defer img.CleanUp()
	viewsBefore, _ := ObserveImage(img, c06ScanFiles)
	loaded := sb.Snapshot()
	calls := 0
	res, err := scalibr.New().ScanContainer(context.Background(), img, &scalibr.ScanConfig{
		FilesystemExtractors: []filesystem.Extractor{dotnetpe.New(dotnetpe.DefaultConfig()), realPathExtractor{calls: &calls}},
		// dotnet/pe asks for a Windows scan environment (the image is a Windows container)
		Capabilities: &plugin.Capabilities{OS: plugin.OSWindows}})
	if err != nil || res == nil {
		out.Violate("scan-failed", "scan-failed:scan-op", "ScanContainer failed: %v; %s", err, ctxs)
		return out
	}
	out.Count("getrealpath_extractions", int64(calls))
	out.Nontrivial = calls > 0
	scanned := sb.Snapshot()
	extractRel, _ := filepath.Rel(sb.Root, img.ExtractDir)
	for _, c := range Diff(loaded, scanned) {
		area := Area(c.Path)
		if within(extractRel, c.Path) {
			area = "extract-dir"
		}
		out.Violate("scan-changed-disk", fmt.Sprintf("scan-changed-disk:%s-%s:%s", c.Op, c.Type, area), "ScanContainer %s %s %s (%s); %s", c.Op, c.Type, c.Path, c.Desc, ctxs)
	}
	viewsAfter, _ := ObserveImage(img, c06ScanFiles)
	if a, b := sim.FP(viewsBefore), sim.FP(viewsAfter); a != b {
		detail := ""
		for i := range viewsBefore {
			for _, p := range sortedKeys(viewsBefore[i].Walk) {
				if i < len(viewsAfter) && viewsBefore[i].Walk[p] != viewsAfter[i].Walk[p] {
					detail = fmt.Sprintf("view %d: %s was %s, after the scan %s", i, p, viewsBefore[i].Walk[p], viewsAfter[i].Walk[p])
					break
				}
			}
			if detail != "" {
				break
			}
		}
		out.Violate("scan-changed-views", "scan-changed-views", "the image's views differ after ScanContainer: %s; %s", detail, ctxs)
	}
	img.CleanUp()
	for _, c := range Diff(before, sb.Snapshot()) {
		out.Violate("tmp-leak", "tmp-leak:scan:after-cleanup", "after scan and CleanUp the sandbox is not as before: %s %s (%s); %s", c.Op, c.Path, c.Desc, ctxs)
	}
	out.HistoryFP = sim.FP(viewsBefore)
	dedupeByKey(out)
	return out
}
