package imgworld

import (
	"context"
	"encoding/json"
	"fmt"
	"io"
	"path"
	"sort"
	"strings"
	"testing"

	scalibr "github.com/google/osv-scalibr"
	"github.com/google/osv-scalibr/artifact/image/layerscanning/image"
	"github.com/google/osv-scalibr/extractor"
	"github.com/google/osv-scalibr/extractor/filesystem"
	scalibrfs "github.com/google/osv-scalibr/fs"
	"github.com/google/osv-scalibr/inventory"
	"github.com/google/osv-scalibr/plugin"
	"github.com/google/osv-scalibr/purl"
	"pgregory.net/rapid"
	"verif/sim"
)

// C05 - packages are attributed to the layer that introduced them.
type C05 struct{}

// ListExtractor is a harness extractor for the trivial line format "name version".
type ListExtSpec struct {
	Name     string   `json:"name"`
	PurlType string   `json:"purl_type"`
	Files    []string `json:"files"` // paths it requires
}

type C05Scenario struct {
	Image      ImageSpec     `json:"image"`
	Extractors []ListExtSpec `json:"extractors"`
	Via        string        `json:"via,omitempty"`
	// CancelAt > 0: the scan context ends inside the CancelAt-th Extract call (counted over all
	// extractors, main scan and tracing); Deadline: it ends the way an expired deadline does.  The
	// harness extractors honour the context at the START of Extract (as apk, dpkg do): they return
	// ctx.Err() when it has ended.  A scan that nevertheless reports SUCCEEDED must carry the right
	// attribution; one that reports failure is not examined.
	CancelAt int  `json:"cancel_at,omitempty"`
	Deadline bool `json:"deadline,omitempty"`
	// ReadSymlinks: the scan follows symlinks; some layer adds the symlink c05Link to a list file
	// and the first extractor requires the link path too.
	ReadSymlinks bool `json:"read_symlinks,omitempty"`
}

// c05Link is the path of the symlink to a package-list file.
const c05Link = "etc/alt/list.link"

func (C05) ID() string { return "C05" }
func (C05) Rule() string {
	return "layer histories of 1-6 real layers plus 0-3 empty history entries in any position (valid, missing or inconsistent histories) over 1-3 package-list files in the line format 'name version'; per layer each file is untouched, created, rewritten (packages added / removed / version-bumped with identical byte size and identical mtime / kept), deleted by a whiteout of the file or of an ancestor directory, or re-created; in 3 of 4 scenarios every layer carries a unique marker file (distinct diff IDs), otherwise layers may be byte-identical repeats of any earlier one (equal diff IDs, e.g. re-adding what a layer in between removed); distinct created_by per history entry; 1-2 harness extractors with different purl types which may require the same file; 1 in 4 scenarios: some layer adds a symlink to a list file, the first extractor requires the link path too and the scan runs with ReadSymlinks; real FromV1Image/FromTarball -> real Scanner.ScanContainer (real trace.PopulateLayerDetails re-running the real filesystem.Run on older views); side check: existence and content of the list files in every view against the OCI overlay model (a departure that no catalogued C04 deviation explains is reported as views-not-overlay); oracle = brute-force recomputation of 'earliest layer L with (purl, location) present in every view L..last' by opening and parsing the file in EVERY actual chain-layer view; 1 in 4 scenarios end the scan context inside the k-th Extract call (k in 1..4, main scan or tracing; 1 in 3 of them as an expired deadline) with extractors that honour the context at the start of Extract: a scan that then still reports SUCCEEDED must carry the right attribution; evaluation = one load + one container scan; non-trivial = at least one reported package whose origin is not chain layer 0 or whose file was touched by >= 2 layers; distinct = distinct scenario JSON"
}

var c05Files = []string{"var/lib/db/status", "var/lib/db/extra", "var/lib/alt/status", "etc/pkgs"}
// "name:arch" entries (wave 8, C05-w8-2) become packages with the same Name and Version as their
// plain sibling but a different PURL (arch qualifier)
var c05Names = []string{"zlib", "curl", "bash", "openssl", "zlib:i386", "curl:arm64"}

type listMeta struct{ Arch string }
var c05Vers = []string{"1.2.3", "1.2.4", "2.0.0", "1.2.5"}

func renderPkgs(pkgs []string) string {
	if len(pkgs) == 0 {
		return ""
	}
	return strings.Join(pkgs, "\n") + "\n"
}

func (C05) Gen(rt *rapid.T, tier string) any {
	sc := &C05Scenario{Via: rapid.SampledFrom([]string{"v1", "v1", "v1", "tarball"}).Draw(rt, "via")}
	nf := rapid.IntRange(1, 3).Draw(rt, "nfiles")
	files := append([]string(nil), c05Files...)
	files = files[:0]
	for _, f := range rapid.Permutation(c05Files).Draw(rt, "files")[:nf] {
		files = append(files, f)
	}
	nl := rapid.IntRange(1, 6).Draw(rt, "layers")
	state := map[string][]string{} // current intended content per existing file
	explicitDirs := rapid.Bool().Draw(rt, "explicit_dirs")
	// without the per-layer marker file two layers can be byte-identical (equal diff IDs)
	marker := rapid.IntRange(0, 3).Draw(rt, "marker") > 0
	for i := 0; i < nl; i++ {
		var l LayerSpec
		if i > 0 && !marker && rapid.IntRange(0, 2).Draw(rt, "repeat_layer") == 0 {
			// a byte-identical copy of ANY earlier layer (e.g. re-adding what a layer in between removed)
			prev := sc.Image.Layers[rapid.IntRange(0, i-1).Draw(rt, "repeat_which")]
			l.Entries = append(l.Entries, prev.Entries...)
			for _, e := range prev.Entries {
				switch e.Kind {
				case "f":
					state[e.Path] = nil
					for _, nv := range parseList([]byte(e.Data)) {
						state[e.Path] = append(state[e.Path], nv[0]+" "+nv[1])
					}
				case "w":
					for _, g := range files {
						if g == e.Path || strings.HasPrefix(g, e.Path+"/") {
							delete(state, g)
						}
					}
				}
			}
			l.Chunk = genChunk(rt, "chunk")
			sc.Image.Layers = append(sc.Image.Layers, l)
			continue
		}
		dirsDone := map[string]bool{}
		addDirs := func(p string) {
			if !explicitDirs {
				return
			}
			var chain []string
			for d := path.Dir(p); d != "." && d != "/"; d = path.Dir(d) {
				chain = append([]string{d}, chain...)
			}
			for _, d := range chain {
				if !dirsDone[d] {
					dirsDone[d] = true
					l.Entries = append(l.Entries, Entry{Kind: "d", Path: d, Perm: 0o755, Slash: true})
				}
			}
		}
		deleted := map[string]bool{}
		for _, f := range files {
			cur, exists := state[f]
			if deleted[f] {
				continue
			}
			act := rapid.SampledFrom([]string{"none", "none", "none", "write", "write", "write", "delete", "deldir"}).Draw(rt, "act")
			if !exists && (act == "delete" || act == "deldir") {
				act = "none"
			}
			switch act {
			case "write":
				next := append([]string(nil), cur...)
				nm := rapid.IntRange(1, 2).Draw(rt, "mutations")
				if !exists {
					next = nil
					nm = rapid.IntRange(1, 3).Draw(rt, "initial")
				}
				for m := 0; m < nm; m++ {
					op := rapid.SampledFrom([]string{"add", "add", "remove", "bump", "keep"}).Draw(rt, "mut")
					if len(next) == 0 {
						op = "add"
					}
					switch op {
					case "add":
						name := rapid.SampledFrom(c05Names).Draw(rt, "pkg")
						dup := false
						for _, p := range next {
							if strings.HasPrefix(p, name+" ") {
								dup = true
							}
						}
						if !dup {
							next = append(next, name+" "+rapid.SampledFrom(c05Vers).Draw(rt, "ver"))
						}
					case "remove":
						k := rapid.IntRange(0, len(next)-1).Draw(rt, "which")
						next = append(next[:k:k], next[k+1:]...)
					case "bump":
						k := rapid.IntRange(0, len(next)-1).Draw(rt, "which")
						name, _, _ := strings.Cut(next[k], " ")
						next[k] = name + " " + rapid.SampledFrom(c05Vers).Draw(rt, "ver")
					}
				}
				addDirs(f)
				l.Entries = append(l.Entries, Entry{Kind: "f", Path: f, Perm: 0o644, Data: renderPkgs(next)})
				state[f] = next
			case "delete":
				addDirs(f)
				l.Entries = append(l.Entries, Entry{Kind: "w", Path: f})
				delete(state, f)
			case "deldir":
				d := path.Dir(f)
				if rapid.Bool().Draw(rt, "higher") && path.Dir(d) != "." {
					d = path.Dir(d)
				}
				addDirs(d)
				l.Entries = append(l.Entries, Entry{Kind: "w", Path: d})
				for _, g := range files {
					if strings.HasPrefix(g, d+"/") {
						delete(state, g)
						deleted[g] = true
					}
				}
			}
		}
		if marker {
			l.Entries = append(l.Entries, Entry{Kind: "f", Path: fmt.Sprintf("layer-%d", i), Perm: 0o644, Data: fmt.Sprintf("%d\n", i)})
		}
		style := rapid.SampledFrom([]string{"", "", "dot"}).Draw(rt, "style")
		if !marker {
			style = ""
		}
		for k := range l.Entries {
			l.Entries[k].Style = style
		}
		l.Chunk = genChunk(rt, "chunk")
		sc.Image.Layers = append(sc.Image.Layers, l)
	}
	genHistory(rt, &sc.Image, nl, sc.Via == "v1")
	if rapid.IntRange(0, 3).Draw(rt, "cancel") == 0 {
		sc.CancelAt = rapid.IntRange(1, 4).Draw(rt, "cancel_at")
		sc.Deadline = rapid.IntRange(0, 2).Draw(rt, "deadline") == 0
	}
	ne := rapid.IntRange(1, 2).Draw(rt, "nextractors")
	for e := 0; e < ne; e++ {
		x := ListExtSpec{Name: fmt.Sprintf("list/%c", 'a'+e), PurlType: []string{"generic", "simb"}[e]}
		for _, f := range files {
			if e == 0 || rapid.Bool().Draw(rt, "also") {
				x.Files = append(x.Files, f)
			}
		}
		if e == 1 && len(x.Files) == 0 {
			x.Files = []string{files[0]}
		}
		sc.Extractors = append(sc.Extractors, x)
	}
	if rapid.IntRange(0, 3).Draw(rt, "symlinked_list") == 0 {
		// a list file is also reachable through a symlink that some layer adds
		sc.ReadSymlinks = true
		li := rapid.IntRange(0, nl-1).Draw(rt, "link.layer")
		t := rapid.SampledFrom(files).Draw(rt, "link.target")
		e := Entry{Kind: "l", Path: c05Link, Perm: 0o777, Target: "/" + t}
		if len(sc.Image.Layers[li].Entries) > 0 {
			e.Style = sc.Image.Layers[li].Entries[0].Style
		}
		sc.Image.Layers[li].Entries = append(sc.Image.Layers[li].Entries, e)
		sc.Extractors[0].Files = append(sc.Extractors[0].Files, c05Link)
	}
	return sc
}

func (C05) Decode(raw json.RawMessage) (any, error) {
	var s C05Scenario
	err := json.Unmarshal(raw, &s)
	return &s, err
}

type listExtractor struct {
	spec *ListExtSpec
	rec  *[]extractRec // every Extract call (main scan and layer tracing), if recording
	// honourCtx: Extract returns ctx.Err() right away when the context has ended
	honourCtx bool
	// onExtract, if set, is called at the start of the n-th Extract call (1-based)
	onExtract func(n int)
}

// extractRec is one file handed to a harness extractor.
type extractRec struct {
	Path     string
	InfoSize int64
	Bytes    int
	CtxErr   bool // the context handed to Extract was already cancelled when the call started
}

func (e *listExtractor) Name() string                       { return e.spec.Name }
func (e *listExtractor) Version() int                       { return 1 }
func (e *listExtractor) Requirements() *plugin.Capabilities { return &plugin.Capabilities{} }
func (e *listExtractor) FileRequired(api filesystem.FileAPI) bool {
	for _, f := range e.spec.Files {
		if api.Path() == f {
			return true
		}
	}
	return false
}
func parseList(b []byte) [][2]string {
	var out [][2]string
	for _, line := range strings.Split(string(b), "\n") {
		n, v, ok := strings.Cut(line, " ")
		if ok && n != "" {
			out = append(out, [2]string{n, v})
		}
	}
	return out
}
func (e *listExtractor) Extract(ctx context.Context, in *filesystem.ScanInput) (inventory.Inventory, error) {
	ctxErr := ctx.Err() != nil
	if e.onExtract != nil && e.rec != nil {
		e.onExtract(len(*e.rec) + 1)
	}
	if e.honourCtx && ctxErr {
		if e.rec != nil {
			*e.rec = append(*e.rec, extractRec{Path: in.Path, InfoSize: -1, CtxErr: true})
		}
		return inventory.Inventory{}, ctx.Err()
	}
	b, err := io.ReadAll(in.Reader)
	if e.rec != nil {
		r := extractRec{Path: in.Path, InfoSize: -1, Bytes: len(b), CtxErr: ctxErr}
		if in.Info != nil {
			r.InfoSize = in.Info.Size()
		}
		*e.rec = append(*e.rec, r)
	}
	if err != nil {
		return inventory.Inventory{}, err
	}
	var inv inventory.Inventory
	for _, nv := range parseList(b) {
		p := &extractor.Package{Name: nv[0], Version: nv[1], Locations: []string{in.Path}}
		if base, arch, ok := strings.Cut(nv[0], ":"); ok {
			p.Name, p.Metadata = base, &listMeta{Arch: arch}
		}
		inv.Packages = append(inv.Packages, p)
	}
	return inv, nil
}
func (e *listExtractor) purlOf(name, ver string) string {
	pu := &purl.PackageURL{Type: e.spec.PurlType, Name: name, Version: ver}
	if base, arch, ok := strings.Cut(name, ":"); ok {
		pu.Name, pu.Qualifiers = base, purl.QualifiersFromMap(map[string]string{"arch": arch})
	}
	return pu.String()
}
func (e *listExtractor) ToPURL(p *extractor.Package) *purl.PackageURL {
	pu := &purl.PackageURL{Type: e.spec.PurlType, Name: p.Name, Version: p.Version}
	if m, ok := p.Metadata.(*listMeta); ok {
		pu.Qualifiers = purl.QualifiersFromMap(map[string]string{"arch": m.Arch})
	}
	return pu
}
func (e *listExtractor) Ecosystem(p *extractor.Package) string { return "sim" }

// presentIn parses the file at loc in the view by plain Open + parse (no tracing code).
func (e *listExtractor) presentIn(fsys scalibrfs.FS, loc string) map[string]bool {
	out := map[string]bool{}
	f, err := fsys.Open(loc)
	if err != nil {
		return out
	}
	defer f.Close()
	if st, err := f.Stat(); err != nil || !st.Mode().IsRegular() {
		return out
	}
	b, err := io.ReadAll(f)
	if err != nil {
		return out
	}
	for _, nv := range parseList(b) {
		out[e.purlOf(nv[0], nv[1])] = true
	}
	return out
}

func trimAlgo(d string) string {
	if i := strings.Index(d, ":"); i >= 0 {
		return d[i+1:]
	}
	return d
}

func (C05) Run(t *testing.T, scAny any) *sim.Outcome {
	sc := scAny.(*C05Scenario)
	out := &sim.Outcome{Executions: 1}
	var exts []string
	for _, e := range sc.Extractors {
		exts = append(exts, fmt.Sprintf("%s(%s)%v", e.Name, e.PurlType, e.Files))
	}
	ctxs := fmt.Sprintf("via=%s extractors=%v %s", sc.Via, exts, sc.Image.String())
	if sc.ReadSymlinks {
		ctxs = "ReadSymlinks " + ctxs
	}
	if sc.CancelAt > 0 {
		ctxs = fmt.Sprintf("context ends in Extract call %d (deadline=%v) %s", sc.CancelAt, sc.Deadline, ctxs)
	}
	out.Sample = ctxs
	if len(sc.Image.Layers) == 0 || len(sc.Extractors) == 0 {
		return out
	}
	sb, err := NewSandbox()
	if err != nil {
		panic("harness: sandbox: " + err.Error())
	}
	defer sb.Close()
	c05Probes(sc, out)

	img, simg, err := Load(sb, &sc.Image, LoadOpts{Via: sc.Via})
	if err != nil {
		if strings.HasPrefix(err.Error(), "harness:") {
			panic(err.Error())
		}
		out.Violate("load-failed", "load-failed", "loading a well-formed image failed: %v; %s", err, ctxs)
		return out
	}
	defer img.CleanUp()
	chain, _ := img.ChainLayers()
	plan := ChainPlan(&sc.Image)
	diffIDs := simg.DiffIDs()

	// history / layer alignment, checked on the side
	type details struct {
		Index   int
		DiffID  string
		Command string
	}
	var want []details
	for i, p := range plan {
		d := details{Index: i, Command: p.Command}
		if p.Layer >= 0 {
			d.DiffID = diffIDs[p.Layer]
		}
		want = append(want, d)
	}
	if len(chain) != len(plan) {
		out.Violate("chain-alignment", "chain-alignment:count", "%d chain layers, the history/layer alignment gives %d; %s", len(chain), len(plan), ctxs)
		return out
	}
	for i, cl := range chain {
		l := cl.Layer()
		if l.IsEmpty() != (plan[i].Layer < 0) || trimAlgo(l.DiffID().String()) != want[i].DiffID || l.Command() != want[i].Command || cl.Index() != i {
			out.Violate("chain-alignment", "chain-alignment:metadata", "chain layer %d reports index=%d empty=%v diffID=%q command=%q, expected empty=%v diffID=%q command=%q; %s",
				i, cl.Index(), l.IsEmpty(), l.DiffID(), l.Command(), plan[i].Layer < 0, want[i].DiffID, want[i].Command, ctxs)
		}
	}

	// "Present in the image-up-to-layer view" only means what the statement says if the views are
	// the overlay of the layers - at least for the package-list files.
	checkListFilesAgainstOverlay(out, sc, img, plan, ctxs)

	var fsExts []filesystem.Extractor
	byName := map[string]*listExtractor{}
	required := map[string]int{}
	var calls []extractRec
	ctx, endCtx := cancellable(sc.Deadline)
	defer endCtx()
	for i := range sc.Extractors {
		x := &listExtractor{spec: &sc.Extractors[i], rec: &calls, honourCtx: true}
		if sc.CancelAt > 0 {
			x.onExtract = func(n int) {
				if n == sc.CancelAt {
					endCtx()
				}
			}
		}
		fsExts = append(fsExts, x)
		byName[x.Name()] = x
		for _, f := range x.spec.Files {
			required[f]++
		}
	}
	res, err := scalibr.New().ScanContainer(ctx, img, &scalibr.ScanConfig{FilesystemExtractors: fsExts, ReadSymlinks: sc.ReadSymlinks})
	if sc.CancelAt > 0 && len(calls) >= sc.CancelAt {
		out.Count("fault_fired_cancel_in_extract", 1)
		if sc.Deadline {
			out.Count("fault_fired_as_expired_deadline", 1)
		}
		if err != nil || res == nil || res.Status == nil || res.Status.Status != plugin.ScanStatusSucceeded {
			// the scan says it was cut short: nothing is claimed about its attribution
			out.Count("cancelled_scan_reported_failure", 1)
			out.HistoryFP = sim.FP("cancelled")
			return out
		}
		out.Count("cancelled_scan_reported_success", 1)
	}
	if err != nil {
		out.Violate("scan-failed", "scan-failed", "ScanContainer failed: %v; %s", err, ctxs)
		return out
	}
	if res.Status == nil || res.Status.Status != plugin.ScanStatusSucceeded {
		out.Violate("scan-failed", "scan-failed:status", "ScanContainer status %v; %s", res.Status, ctxs)
		return out
	}

	// brute force: what is present where, in every actual view
	last := len(chain) - 1
	present := func(x *listExtractor, i int, loc string) map[string]bool { return x.presentIn(chain[i].FS(), loc) }
	var hist []string
	for _, p := range res.Inventory.Packages {
		x, ok := p.Extractor.(*listExtractor)
		if !ok || len(p.Locations) == 0 {
			out.Violate("foreign-package", "foreign-package", "package %s has no harness extractor / location; %s", p.Name, ctxs)
			continue
		}
		loc := p.Locations[0]
		pu := x.ToPURL(p).String()
		if !present(x, last, loc)[pu] {
			panic(fmt.Sprintf("harness: reported package %s at %s is not in the final view by direct parse; %s", pu, loc, ctxs))
		}
		L := last
		for L > 0 && present(x, L-1, loc)[pu] {
			L--
		}
		ld := p.LayerDetails
		hist = append(hist, fmt.Sprintf("%s|%s|%s -> %+v", x.Name(), pu, loc, ld))
		touched := 0
		for _, l := range sc.Image.Layers {
			for k := range l.Entries {
				if l.Entries[k].Kind == "f" && l.Entries[k].Path == loc {
					touched++
				}
			}
		}
		if L > 0 || touched >= 2 {
			out.Nontrivial = true
		}
		feat := "single-extractor-file"
		if required[loc] > 1 {
			feat = "file-shared-by-extractors"
		}
		// The package appears in view L although layer L's own archive does not write the file:
		// the views themselves break the overlay rules there (C04's findings).
		if L > 0 && !layerWrites(&sc.Image, plan[L].Layer, loc) {
			feat = "origin-layer-does-not-write-file"
		}
		if loc == c05Link {
			feat = "file-reached-through-symlink"
		}
		if ld == nil {
			out.Violate("no-layer-details", "no-layer-details:"+feat, "%s at %s (extractor %s) has no layer details, expected layer %d; %s", pu, loc, x.Name(), L, ctxs)
			continue
		}
		if ld.Index != L {
			dir := "too-early"
			if ld.Index > L {
				dir = "too-late"
			}
			var where []string
			for j := 0; j <= last; j++ {
				where = append(where, fmt.Sprintf("%d:%v", j, present(x, j, loc)[pu]))
			}
			out.Violate("wrong-layer", "wrong-layer:"+dir+":"+feat, "%s at %s (extractor %s) attributed to layer %d (diffID %q, cmd %q); brute force over the actual views %v gives layer %d (diffID %q, cmd %q); %s",
				pu, loc, x.Name(), ld.Index, ld.DiffID, ld.Command, where, L, want[L].DiffID, want[L].Command, ctxs)
			continue
		}
		if trimAlgo(ld.DiffID) != want[L].DiffID || ld.Command != want[L].Command {
			out.Violate("wrong-layer-metadata", "wrong-layer-metadata:"+feat, "%s at %s: layer %d reported with diffID %q cmd %q, expected %q %q; %s", pu, loc, L, ld.DiffID, ld.Command, want[L].DiffID, want[L].Command, ctxs)
		}
	}
	sort.Strings(hist)
	out.HistoryFP = sim.FP(hist)
	out.Count("packages_checked", int64(len(hist)))
	return out
}

// checkListFilesAgainstOverlay compares existence and content of the package-list files in
// every chain-layer view with the OCI overlay model.  Agreement: nothing to say.  A difference
// that a catalogued deviation set of C04 explains (for all views at once): left to C04, the
// attribution oracle keeps working from the actual views.  A difference that nothing in the
// catalogue explains is reported here.
func checkListFilesAgainstOverlay(out *sim.Outcome, sc *C05Scenario, img *image.Image, plan []ChainElem, ctxs string) {
	if Ambiguous(&sc.Image) != "" {
		out.Count("list_files_vs_overlay_skipped", 1)
		return
	}
	set := map[string]bool{}
	for _, e := range sc.Extractors {
		for _, f := range e.Files {
			set[f] = true
		}
	}
	files := sortedKeys(set)
	views, _ := ObserveImage(img, files)
	if len(views) != len(plan) {
		return // reported as chain-alignment
	}
	var upto [][]int
	var cur []int
	for _, p := range plan {
		if p.Layer >= 0 {
			cur = append(cur, p.Layer)
		}
		upto = append(upto, append([]int(nil), cur...))
	}
	diff := func(dev DevSet) []string {
		var out []string
		for i := range views {
			mv := RefOverlay(&sc.Image, upto[i], dev, i == len(plan)-1)
			for _, f := range files {
				o := views[i].Look[f]
				m, found, ok := mv.Resolve(f)
				switch {
				case !ok:
				case !found || m.Kind != "f":
					if o.Type == "f" {
						out = append(out, fmt.Sprintf("view %d: %s holds %q, the overlay has no such file", i, f, o.Data))
					}
				case o.Type != "f":
					out = append(out, fmt.Sprintf("view %d: %s is missing (%s), the overlay has %q", i, f, o.Err, m.Data))
				case o.Data != m.Data && !m.Unreadable:
					out = append(out, fmt.Sprintf("view %d: %s holds %q, the overlay has %q", i, f, o.Data, m.Data))
				}
			}
		}
		return out
	}
	strict := diff(nil)
	if len(strict) == 0 {
		return
	}
	out.Count("list_files_depart_from_overlay", 1)
	for _, d := range allDevSubsets {
		if len(diff(d)) == 0 {
			out.Count("list_files_departure_explained_by_catalogued_deviation", 1)
			return
		}
	}
	what := map[string]bool{}
	for _, d := range strict {
		switch {
		case strings.Contains(d, "is missing"):
			what["file-missing"] = true
		case strings.Contains(d, "no such file"):
			what["file-not-deleted"] = true
		default:
			what["wrong-content"] = true
		}
	}
	if len(strict) > 4 {
		strict = strict[:4]
	}
	out.Violate("views-not-overlay", "views-not-overlay:"+strings.Join(sortedKeys(what), "+"), "the package-list files in the chain-layer views are neither those of the OCI overlay of the layers nor explained by a catalogued view deviation, so 'present in the view up to layer i' does not mean what the statement says: %s; %s", strings.Join(strict, " | "), ctxs)
}

// layerWrites: does real layer li carry a regular-file entry for loc?  Under the overlay rules
// only such a layer can make a package appear at loc.
func layerWrites(spec *ImageSpec, li int, loc string) bool {
	if li < 0 || li >= len(spec.Layers) {
		return false
	}
	for k := range spec.Layers[li].Entries {
		e := &spec.Layers[li].Entries[k]
		if e.Kind == "f" && e.Path == loc {
			return true
		}
	}
	return false
}

// c05Probes counts the rare conditions the generator is meant to reach.
func c05Probes(sc *C05Scenario, out *sim.Outcome) {
	plan := ChainPlan(&sc.Image)
	if len(plan) > 0 && plan[0].Layer < 0 {
		out.Count("probe_history_starts_with_empty_layer", 1)
	}
	files := map[string]bool{}
	for _, e := range sc.Extractors {
		for _, f := range e.Files {
			files[f] = true
		}
	}
	ids := map[string]int{}
	for i := range sc.Image.Layers {
		ids[sim.FP(sc.Image.Layers[i].Entries)]++
	}
	for _, k := range sortedKeys(ids) {
		if ids[k] > 1 {
			out.Count("probe_byte_identical_layers", 1)
			break
		}
	}
	shared := map[string]int{}
	for _, e := range sc.Extractors {
		for _, f := range e.Files {
			shared[f]++
		}
	}
	for _, f := range sortedKeys(shared) {
		if shared[f] > 1 {
			out.Count("probe_two_extractors_one_file", 1)
			break
		}
	}
	for _, f := range sortedKeys(files) {
		// per real layer: content written ("" = untouched)
		var writes []string
		var touched []bool
		for _, l := range sc.Image.Layers {
			w, tch := "", false
			for k := range l.Entries {
				e := &l.Entries[k]
				if e.Kind == "f" && e.Path == f {
					w, tch = e.Data, true
					if e.Data == "" {
						out.Count("probe_file_emptied_not_deleted", 1)
					}
				}
				if e.Kind == "w" && (e.Path == f || strings.HasPrefix(f, e.Path+"/")) {
					tch = true
				}
			}
			writes = append(writes, w)
			touched = append(touched, tch)
		}
		prev := ""
		prevIdx := -1
		for i, w := range writes {
			if !touched[i] || w == "" {
				if touched[i] {
					prev, prevIdx = "", -1
				}
				continue
			}
			if prevIdx >= 0 {
				if len(w) == len(prev) && w != prev {
					out.Count("probe_same_size_rewrite", 1)
				}
				// rewrite adding a package after >= 1 untouched layer, followed by >= 1 more layer
				added := false
				old := map[string]bool{}
				for _, nv := range parseList([]byte(prev)) {
					old[nv[0]+" "+nv[1]] = true
				}
				for _, nv := range parseList([]byte(w)) {
					if !old[nv[0]+" "+nv[1]] {
						added = true
					}
				}
				if added && i-prevIdx >= 2 && i < len(writes)-1 {
					out.Count("probe_untouched_layers_below_adding_rewrite", 1)
				}
			}
			prev, prevIdx = w, i
		}
	}
}
