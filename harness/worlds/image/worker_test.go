package imgworld

import (
	"testing"

	"verif/sim"
)

// TestWorker is the entry point verifctl spawns (one OS process per worker).
func TestWorker(t *testing.T) {
	sim.Quiet()
	sim.RunWorker(t, []sim.Check{C10{}, C06{}, C05{}, C04{}})
}
