package imgworld

import (
	"encoding/json"
	"fmt"
	"os"
	"path"
	"path/filepath"
	"reflect"
	"sort"
	"strings"
	"testing"

	"github.com/google/osv-scalibr/artifact/image/unpack"
	"pgregory.net/rapid"
	"verif/sim"
)

// C04 - each image-up-to-layer view equals the OCI overlay of its layers.
type C04 struct{}

type C04Scenario struct {
	Image    ImageSpec `json:"image"`
	Universe []string  `json:"universe"`
	Load     LoadOpts  `json:"load"`
}

func (C04) ID() string { return "C04" }
func (C04) Rule() string {
	return "layer histories as operation batches on a stateful store: 1-5 real layers + 0-3 empty history entries in any arrangement (valid, missing or inconsistent histories) over a universe of <=10 paths of depth <=4 on the alphabet {a,b,c,x,y}; per layer 0-6 operations: regular file (content tagged with layer and path), directory, symlink (absolute or relative target inside the root, including the root itself as '/' or as exactly as many '..' as the link is deep), whiteout of a file or of a directory at any height above existing files, opaque marker, non-directory replacing a directory and vice versa, whiteout + re-create in one layer, a second regular-file entry for a path of the same layer under another spelling ('app/x' and './app/x', different length; either may win, but size, readable bytes and content must be those of ONE of them); explicit parent-directory entries for all / some / no entries; names bare, './'-prefixed or absolute, directories with or without trailing slash; stream order parent-first or a seeded permutation; stream chunking seeded; requirer all / explicit path list / none; 1 in 8 scenarios with MaxFileBytes in {8,10,12} so that some files are skipped by the loader, 1 in 12 symlinks with a target outside the root (also skipped): skipped entries are modelled as absent from their layer; names that are string prefixes of sibling names (a / ab / a-) and names starting with the characters of the whiteout prefix (hosts, h, w, .w); loaded through FromV1Image (simulated v1.Image) or FromTarball (real docker-save tarball). Oracle: RefOverlay(D) - OCI overlay reference model with named deviations; every chain-layer view is compared by recursive ReadDir walk AND by direct Stat/Open of every universe path and every whiteout spelling of it; UnpackSquashed into the sandbox vs the final view; requirer law against the fully loaded views. evaluation = one scenario (1-2 image loads + 1 squashed unpack, all views); non-trivial = at least one deletion (whiteout, opaque marker, or type change of an existing path) takes effect on an existing entry; distinct = distinct scenario JSON"
}

// names include string prefixes of each other (a / ab / a-) - siblings are told apart by path
// component, not by string prefix
// ... and names that start with the characters of the whiteout prefix (".", "w", "h"): a whiteout
// must strip the literal prefix ".wh.", not a character set
var c04Segs = []string{"a", "b", "c", "a", "b", "ab", "h", "..d", ".e"}
var c04Leaf = []string{"a", "b", "c", "x", "y", "ab", "a-", "hosts", "h", ".w", "w", "..v"}

func genUniverse(rt *rapid.T) []string {
	n := rapid.IntRange(3, 10).Draw(rt, "universe")
	set := map[string]bool{}
	for i := 0; i < n; i++ {
		d := rapid.IntRange(1, 4).Draw(rt, "depth")
		var segs []string
		for j := 0; j < d-1; j++ {
			segs = append(segs, rapid.SampledFrom(c04Segs).Draw(rt, "seg"))
		}
		segs = append(segs, rapid.SampledFrom(c04Leaf).Draw(rt, "leaf"))
		set[strings.Join(segs, "/")] = true
	}
	return sortedKeys(set)
}

// relTarget spells target relative to the directory of link.
func relTarget(link, target string) string {
	r, err := filepath.Rel("/"+path.Dir(link), "/"+target)
	if err != nil {
		return "/" + target
	}
	return r
}

func (C04) Gen(rt *rapid.T, tier string) any {
	sc := &C04Scenario{Universe: genUniverse(rt)}
	// every ancestor of a universe path is a candidate too
	cand := map[string]bool{}
	for _, p := range sc.Universe {
		cand[p] = true
		for _, a := range ancestors(p) {
			cand[a] = true
		}
	}
	cands := sortedKeys(cand)
	nl := rapid.IntRange(1, 5).Draw(rt, "layers")
	for li := 0; li < nl; li++ {
		state := OCIApply(&sc.Image, li-1)
		existing := sortedKeys(state)
		var l LayerSpec
		explicit := rapid.SampledFrom([]string{"none", "none", "all", "some"}).Draw(rt, "explicit_parents")
		style := rapid.SampledFrom([]string{"", "", "", "dot", "dot", "abs", "mixed"}).Draw(rt, "style")
		ne := rapid.IntRange(0, 6).Draw(rt, "entries")
		kindOf := map[string]string{} // accepted non-whiteout entries of this layer
		white := map[string]bool{}
		accept := func(e Entry) bool {
			switch e.Kind {
			case "f", "l", "d":
				if _, dup := kindOf[e.Path]; dup {
					return false
				}
			}
			// nothing below a non-directory of the same layer, no non-directory above existing entries
			for _, a := range ancestors(e.Path) {
				if k := kindOf[a]; k == "f" || k == "l" {
					return false
				}
			}
			if e.Kind == "o" {
				if k := kindOf[e.Path]; k == "f" || k == "l" {
					return false
				}
			}
			if e.Kind == "f" || e.Kind == "l" {
				for q := range kindOf {
					if isUnder(q, e.Path) {
						return false
					}
				}
				for i := range l.Entries {
					if x := &l.Entries[i]; (x.Kind == "w" && isUnder(x.Path, e.Path)) || (x.Kind == "o" && (x.Path == e.Path || isUnder(x.Path, e.Path))) {
						return false
					}
				}
			}
			return true
		}
		add := func(e Entry) {
			if !accept(e) {
				return
			}
			// directories that must be spelled out: ancestors that are non-directories below
			need := ancestors(e.Path)
			if e.Kind == "o" {
				need = append(need, e.Path)
			}
			for _, a := range need {
				n, ok := state[a]
				forced := ok && n.Kind != "d"
				if forced {
					for w := range white {
						if a == w || isUnder(a, w) {
							forced = false
						}
					}
				}
				want := forced || explicit == "all" || (explicit == "some" && rapid.Bool().Draw(rt, "spell_parent"))
				if _, have := kindOf[a]; want && !have {
					d := Entry{Kind: "d", Path: a, Perm: rapid.SampledFrom([]int{0o755, 0o755, 0o700, 0o750}).Draw(rt, "dirperm"), Slash: rapid.Bool().Draw(rt, "slash")}
					if accept(d) {
						kindOf[a] = "d"
						l.Entries = append(l.Entries, d)
					} else if forced {
						return
					}
				}
			}
			if e.Kind == "w" {
				white[e.Path] = true
			} else if e.Kind != "o" {
				kindOf[e.Path] = e.Kind
			}
			l.Entries = append(l.Entries, e)
		}
		pick := func(label string) string {
			if len(existing) > 0 && rapid.IntRange(0, 2).Draw(rt, label+".existing") > 0 {
				p := rapid.SampledFrom(existing).Draw(rt, label+".ex")
				if rapid.IntRange(0, 3).Draw(rt, label+".up") == 0 && path.Dir(p) != "." {
					p = path.Dir(p)
				}
				return p
			}
			return rapid.SampledFrom(cands).Draw(rt, label+".cand")
		}
		for j := 0; j < ne; j++ {
			k := rapid.SampledFrom([]string{"f", "f", "f", "f", "d", "d", "l", "w", "w", "w", "o", "wr", "dup"}).Draw(rt, "kind")
			p := pick("path")
			switch k {
			case "f":
				add(Entry{Kind: "f", Path: p, Perm: rapid.SampledFrom([]int{0o644, 0o600, 0o755, 0o444, 0o4755, 0o2755, 0o1644}).Draw(rt, "perm"), Data: fmt.Sprintf("L%d:%s\n", li, p)})
			case "d":
				add(Entry{Kind: "d", Path: p, Perm: rapid.SampledFrom([]int{0o755, 0o700, 0o711}).Draw(rt, "perm"), Slash: rapid.Bool().Draw(rt, "slash")})
			case "l":
				t := rapid.SampledFrom(cands).Draw(rt, "target")
				if t == p {
					continue
				}
				e := Entry{Kind: "l", Path: p, Perm: 0o777, Target: "/" + t}
				if rapid.Bool().Draw(rt, "relative") {
					e.Target = relTarget(p, t)
				}
				switch rapid.IntRange(0, 9).Draw(rt, "to_root") {
				case 0: // the root itself, absolute
					e.Target = "/"
				case 1: // the root itself, exactly as many ".." as the link is deep
					e.Target = relTarget(p, "")
				}
				if rapid.IntRange(0, 11).Draw(rt, "escaping") == 0 {
					// leaves the root: the loader skips such an entry
					e.Target = strings.Repeat("../", depth(p)) + "x"
				}
				add(e)
			case "w":
				add(Entry{Kind: "w", Path: p})
			case "o":
				add(Entry{Kind: "o", Path: p})
			case "dup": // a second regular-file entry for a path of this layer, spelled differently
				var fs []int
				for i := range l.Entries {
					if l.Entries[i].Kind == "f" {
						fs = append(fs, i)
					}
				}
				if len(fs) == 0 {
					continue
				}
				first := l.Entries[rapid.SampledFrom(fs).Draw(rt, "dup.of")]
				dupCount := 0
				for i := range l.Entries {
					if l.Entries[i].Kind == "f" && l.Entries[i].Path == first.Path {
						dupCount++
					}
				}
				if dupCount > 1 {
					continue
				}
				l.Entries = append(l.Entries, Entry{Kind: "f", Path: first.Path, Perm: first.Perm, Dup: true,
					Data: fmt.Sprintf("L%d:second entry for %s\n", li, first.Path)[:rapid.IntRange(6, 12+len(first.Path)).Draw(rt, "dup.len")]})
			case "wr": // whiteout and re-creation in one layer
				add(Entry{Kind: "w", Path: p})
				if rapid.Bool().Draw(rt, "recreate_as_dir") {
					add(Entry{Kind: "d", Path: p, Perm: 0o755})
					add(Entry{Kind: "f", Path: p + "/" + rapid.SampledFrom(c04Leaf).Draw(rt, "child"), Perm: 0o644, Data: fmt.Sprintf("L%d:re\n", li)})
				} else {
					add(Entry{Kind: "f", Path: p, Perm: 0o644, Data: fmt.Sprintf("L%d:re:%s\n", li, p)})
				}
			}
		}
		for i := range l.Entries {
			s := style
			if style == "mixed" {
				s = rapid.SampledFrom([]string{"", "dot", "abs"}).Draw(rt, "entrystyle")
			}
			if l.Entries[i].Dup {
				s = map[string]string{"": "dot", "dot": "", "abs": "dot", "mixed": "dot"}[style]
			}
			l.Entries[i].Style = s
		}
		if rapid.IntRange(0, 2).Draw(rt, "shuffle") == 0 && len(l.Entries) > 1 {
			l.Entries = rapid.Permutation(l.Entries).Draw(rt, "order")
		}
		l.Chunk = genChunk(rt, "chunk")
		sc.Image.Layers = append(sc.Image.Layers, l)
	}
	sc.Load.Via = rapid.SampledFrom([]string{"v1", "v1", "v1", "v1", "tarball"}).Draw(rt, "via")
	genHistory(rt, &sc.Image, nl, sc.Load.Via == "v1")
	if rapid.IntRange(0, 7).Draw(rt, "sizelimit") == 0 {
		// some files are at or above the per-file limit: the loader skips them
		sc.Load.MaxFileBytes = int64(rapid.SampledFrom([]int{8, 10, 12}).Draw(rt, "max_file_bytes"))
	}
	sc.Load.Requirer = rapid.SampledFrom([]string{"all", "all", "all", "paths", "paths", "none"}).Draw(rt, "requirer")
	if sc.Load.Requirer == "paths" {
		for _, p := range cands {
			if rapid.IntRange(0, 2).Draw(rt, "required") == 0 {
				sc.Load.Paths = append(sc.Load.Paths, p)
			}
		}
	}
	return sc
}

func (C04) Decode(raw json.RawMessage) (any, error) {
	var s C04Scenario
	err := json.Unmarshal(raw, &s)
	return &s, err
}

// dedupeByKey keeps one violation per key (the first): how MANY entries show a finding is not
// part of the verdict.
func dedupeByKey(out *sim.Outcome) {
	seen := map[string]bool{}
	var vs []sim.Violation
	for _, v := range out.Violations {
		if !seen[v.Key] {
			seen[v.Key] = true
			vs = append(vs, v)
		}
	}
	out.Violations = vs
}

func countEntries(s *ImageSpec) int {
	n := 0
	for _, l := range s.Layers {
		n += len(l.Entries)
	}
	return n
}

// effectiveSpec drops the entries the loader ignores by design.
func effectiveSpec(s *ImageSpec, maxFileBytes int64) *ImageSpec {
	out := *s
	out.Layers = nil
	for _, l := range s.Layers {
		nl := l
		nl.Entries = nil
		skippedDup := map[string]bool{}
		for i := range l.Entries {
			e := l.Entries[i]
			if e.Kind == "f" && maxFileBytes > 0 && int64(len(e.Content())) >= maxFileBytes {
				for j := range l.Entries {
					if o := &l.Entries[j]; j != i && o.Kind == "f" && o.Path == e.Path {
						for k := range nl.Entries {
							if nl.Entries[k].Kind == "f" && nl.Entries[k].Path == e.Path {
								nl.Entries[k].overDup = true
							}
						}
						skippedDup[e.Path] = true
					}
				}
				continue
			}
			if e.Kind == "f" && skippedDup[e.Path] {
				e.overDup = true
			}
			if e.Kind == "l" && e.Target != "" && !strings.HasPrefix(e.Target, "/") {
				if _, ok := linkTarget(e.Path, e.Target); !ok {
					continue
				}
			}
			nl.Entries = append(nl.Entries, e)
		}
		out.Layers = append(out.Layers, nl)
	}
	return &out
}

func whiteoutSpelling(p string) string {
	d := path.Dir(p)
	if d == "." {
		return ".wh." + path.Base(p)
	}
	return d + "/.wh." + path.Base(p)
}

// c04Probes: every universe path, every entry path, their ancestors, and the whiteout
// spellings of all of them.
func c04Probes(sc *C04Scenario) []string {
	set := map[string]bool{}
	addP := func(p string) {
		set[p] = true
		for _, a := range ancestors(p) {
			set[a] = true
		}
	}
	for _, p := range sc.Universe {
		if p != "" && path.Clean(p) == p && !strings.HasPrefix(p, "/") && p != ".." && !strings.HasPrefix(p, "../") {
			addP(p)
		}
	}
	for _, l := range sc.Image.Layers {
		for i := range l.Entries {
			addP(l.Entries[i].Path)
		}
	}
	for _, p := range sortedKeys(set) {
		set[whiteoutSpelling(p)] = true
		set[p+"/.wh..wh..opq"] = true
		set[p+"/.wh..opq"] = true
	}
	set[".wh..wh..opq"] = true
	return sortedKeys(set)
}

func sameModel(a, b map[string]MNode) string {
	for _, p := range sortedKeys(a) {
		x, y := a[p], b[p]
		x.Layer, y.Layer = 0, 0
		x.AltMixed, y.AltMixed = false, false
		x.MaybeUnreadable, y.MaybeUnreadable = false, false
		if _, ok := b[p]; !ok || !reflect.DeepEqual(x, y) {
			return fmt.Sprintf("%s: %v vs %v", p, a[p], b[p])
		}
	}
	for _, p := range sortedKeys(b) {
		if _, ok := a[p]; !ok {
			return fmt.Sprintf("%s: missing vs %v", p, b[p])
		}
	}
	return ""
}

func (C04) Run(t *testing.T, scAny any) *sim.Outcome {
	sc := scAny.(*C04Scenario)
	out := &sim.Outcome{Executions: 1}
	ctxs := fmt.Sprintf("via=%s requirer=%s%v maxbytes=%d %s", sc.Load.Via, sc.Load.Requirer, sc.Load.Paths, sc.Load.MaxFileBytes, sc.Image.String())
	out.Sample = ctxs
	if len(sc.Image.Layers) == 0 {
		return out
	}
	// Entries the loader is documented to ignore (size at or above MaxFileBytes, symlink target
	// outside the root) are not part of the loaded image: the model sees the layers without them.
	loaded := sc
	sc = &C04Scenario{Image: *effectiveSpec(&loaded.Image, loaded.Load.MaxFileBytes), Universe: loaded.Universe, Load: loaded.Load}
	if n := countEntries(&loaded.Image) - countEntries(&sc.Image); n > 0 {
		out.Count("entries_ignored_by_the_loader", int64(n))
	}
	if why := Ambiguous(&sc.Image); why != "" {
		out.Count("skipped_outside_statement", 1)
		return out
	}
	plan := ChainPlan(&sc.Image)
	probes := c04Probes(loaded)

	// model self-check and non-triviality
	var upto [][]int
	var cur []int
	for _, p := range plan {
		if p.Layer >= 0 {
			cur = append(cur, p.Layer)
		}
		upto = append(upto, append([]int(nil), cur...))
	}
	strict := make([]*ModelView, len(plan))
	for i := range plan {
		strict[i] = RefOverlay(&sc.Image, upto[i], nil, i == len(plan)-1)
		last := -1
		if len(upto[i]) > 0 {
			last = upto[i][len(upto[i])-1]
		}
		fw := OCIApply(&sc.Image, last)
		if d := sameModel(strict[i].Look, fw); d != "" {
			panic(fmt.Sprintf("harness: RefOverlay(nil) and the forward OCI model disagree in view %d: %s; %s", i, d, ctxs))
		}
		if d := sameModel(strict[i].Walk, fw); d != "" {
			panic(fmt.Sprintf("harness: RefOverlay(nil).Walk and the forward OCI model disagree in view %d: %s; %s", i, d, ctxs))
		}
	}
	for li := 1; li < len(sc.Image.Layers); li++ {
		before := OCIApply(&sc.Image, li-1)
		after := OCIApply(&sc.Image, li)
		for _, p := range sortedKeys(before) {
			if a, ok := after[p]; !ok || a.Kind != before[p].Kind {
				out.Nontrivial = true
			}
		}
	}

	sb, err := NewSandbox()
	if err != nil {
		panic("harness: sandbox: " + err.Error())
	}
	defer sb.Close()

	full := sc.Load
	full.Requirer, full.Paths = "all", nil
	img, _, err := Load(sb, &loaded.Image, full)
	if err != nil {
		if strings.HasPrefix(err.Error(), "harness:") {
			panic(err.Error())
		}
		out.Violate("load-failed", "load-failed", "loading a well-formed image failed: %v; %s", err, ctxs)
		return out
	}
	views, _ := ObserveImage(img, probes)
	img.CleanUp()
	out.HistoryFP = sim.FP(views)
	if len(views) != len(plan) {
		out.Violate("chain-alignment", "chain-alignment:count", "%d chain layers, the history/layer alignment gives %d; %s", len(views), len(plan), ctxs)
		return out
	}

	// (1)-(3): every view against RefOverlay
	var firstDiff []string
	clean := true
	for i := range views {
		if ms := CompareView(views[i], strict[i], probes); len(ms) > 0 {
			clean = false
			for _, m := range ms {
				if len(firstDiff) < 4 {
					firstDiff = append(firstDiff, fmt.Sprintf("view %d: %s", i, m.Text))
				}
			}
		}
	}
	if !clean {
		out.Count("scenarios_departing_from_strict_overlay", 1)
		var found DevSet
		for _, d := range allDevSubsets {
			ok := true
			for i := range views {
				if len(CompareView(views[i], RefOverlay(&sc.Image, upto[i], d, i == len(plan)-1), probes)) > 0 {
					ok = false
					break
				}
			}
			if ok {
				found = d
				break
			}
		}
		if found == nil && os.Getenv("VERIF_DEBUG") != "" {
			all := DevSet{}
			for _, k := range AllDeviations {
				if k != DevAbs {
					all[k] = true
				}
			}
			for i := range views {
				for _, m := range CompareView(views[i], RefOverlay(&sc.Image, upto[i], all, i == len(plan)-1), probes) {
					fmt.Printf("DEBUG vs all deviations: view %d: %s\n", i, m.Text)
				}
			}
		}
		if found != nil {
			key := "overlay-deviation:" + found.Key()
			out.Violate(key, key, "the views are not the OCI overlay of the layers; they are what the reference model gives with the deviation(s) [%s] switched on. First differences from the OCI overlay: %s; %s", found.Key(), strings.Join(firstDiff, " | "), ctxs)
		} else {
			var kinds []Mismatch
			for i := range views {
				kinds = append(kinds, CompareView(views[i], strict[i], probes)...)
			}
			key := "overlay-mismatch:" + mismatchKinds(kinds)
			out.Violate("overlay-mismatch", key, "the views are neither the OCI overlay of the layers nor explained by any combination of the catalogued deviations. Differences from the OCI overlay: %s; %s", strings.Join(firstDiff, " | "), ctxs)
		}
	}

	// (5) requirer law, against the actual fully loaded views
	if sc.Load.Requirer == "paths" || sc.Load.Requirer == "none" {
		out.Executions++
		rimg, _, err := Load(sb, &loaded.Image, sc.Load)
		if err != nil {
			out.Violate("load-failed", "load-failed:requirer", "loading with requirer %s failed: %v; %s", sc.Load.Requirer, err, ctxs)
		} else {
			rviews, _ := ObserveImage(rimg, probes)
			rimg.CleanUp()
			// the model views that explain the full load (for entries no lookup can see: dangling links
			// below a non-directory)
			explained := make([]*ModelView, len(views))
			allDev := DevSet{}
			for _, k := range AllDeviations {
				allDev[k] = k != DevAbs
			}
			for i := range views {
				explained[i] = RefOverlay(&sc.Image, upto[i], allDev, i == len(plan)-1)
			}
			// Entries of the final tree that no walk reaches (below a whiteout node or a non-directory),
			// and everything above them: whether the pruning deletes THEIR backing files depends on the
			// order in which Go iterates a map inside the loader (a node removed together with its
			// parent's subtree keeps its file).  Their readability in earlier views is not asserted.
			noPrune := DevSet{}
			for k, v := range allDev {
				noPrune[k] = v && k != DevPrune
			}
			pre := RefOverlay(&sc.Image, upto[len(upto)-1], noPrune, false)
			unstable := map[string]bool{}
			for q := range pre.Look {
				if _, listed := pre.Walk[q]; !listed {
					unstable[q] = true
					for _, a := range ancestors(q) {
						unstable[a] = true
					}
				}
			}
			for q := range pre.Tombs { // removing a whiteout node can take a valued parent along
				for _, a := range ancestors(q) {
					unstable[a] = true
				}
			}
			if len(unstable) > 0 {
				out.Count("probe_backing_file_removal_depends_on_map_order", 1)
			}
			checkRequirerLaw(out, sc, views, rviews, explained, unstable, ctxs)
		}
	}

	// (4) squashed unpack vs final view (the unpacker has no per-file limit configured, so only
	// without a size limit on the load)
	if sc.Load.MaxFileBytes == 0 {
		out.Executions++
		checkSquashed(out, sc, sb, views[len(views)-1], strict[len(strict)-1], ctxs)
	}
	dedupeByKey(out)
	return out
}

func checkRequirerLaw(out *sim.Outcome, sc *C04Scenario, full, restr []*ViewObs, explained []*ModelView, unstable map[string]bool, ctxs string) {
	if len(full) != len(restr) {
		out.Violate("requirer-law", "requirer-law:chain-count", "restricted load has %d views, full load %d; %s", len(restr), len(full), ctxs)
		return
	}
	required := map[string]bool{}
	if sc.Load.Requirer == "paths" {
		for _, p := range sc.Load.Paths {
			required[p] = true
		}
	}
	// Targets of required symlinks.  mayKeep over-approximates them from every symlink entry of the
	// history (nothing in it is ever reported as wrongly present); mustKeep is certain: the newest
	// entry for the path is a symlink and the fully loaded final view lists it as one.
	newest := map[string]*Entry{}
	for li := len(sc.Image.Layers) - 1; li >= 0; li-- {
		l := &sc.Image.Layers[li]
		for i := range l.Entries {
			if e := &l.Entries[i]; e.Kind != "w" && e.Kind != "o" && newest[e.Path] == nil {
				newest[e.Path] = e
			}
		}
	}
	finalFull := full[len(full)-1]
	protected, mustKeep := map[string]bool{}, map[string]bool{}
	for changed := true; changed; {
		changed = false
		for _, l := range sc.Image.Layers {
			for i := range l.Entries {
				e := &l.Entries[i]
				if e.Kind != "l" {
					continue
				}
				t, ok := linkTarget(e.Path, e.Target)
				if !ok {
					continue
				}
				if (required[e.Path] || protected[e.Path]) && !protected[t] {
					protected[t] = true
					changed = true
				}
				if (required[e.Path] || mustKeep[e.Path]) && !mustKeep[t] && newest[e.Path] == e && finalFull.Walk[e.Path].Type == "l" {
					mustKeep[t] = true
					changed = true
				}
			}
		}
	}
	last := len(full) - 1
	for i := range full {
		f, r := full[i], restr[i]
		ownType := func(p string) string {
			if n, ok := f.Walk[p]; ok {
				return n.Type
			}
			return f.Look[p].Type
		}
		mayDrop := func(p string) bool { return !required[p] && !mustKeep[p] && ownType(p) != "d" }
		mustDrop := func(p string) bool { return !required[p] && !protected[p] && ownType(p) != "d" }
		hasKid := func(p string) bool {
			for q := range r.Walk {
				if isUnder(q, p) {
					return true
				}
			}
			return false
		}
		unreadable := func(fn, rn NodeObs) bool {
			return fn.Type == "f" && rn.Type == "f" && rn.Data == "" && rn.Err == "read:notexist" && rn.Size == fn.Size && rn.Perm == fn.Perm
		}
		for _, p := range sortedKeys(r.Walk) {
			if fn, ok := f.Walk[p]; ok && i != last && unstable[p] && fn.Type == "f" && r.Walk[p].Type == "f" {
				continue // readable or not: depends on map iteration order inside the loader
			}
			if fn, ok := f.Walk[p]; ok && fn != r.Walk[p] && i != last && mayDrop(p) && unreadable(fn, r.Walk[p]) {
				out.Violate("requirer-law:non-required-listed-but-unreadable", "requirer-law:non-required-listed-but-unreadable", "view %d (not the final one): the non-required file %s is still listed with the requirer, but its content can no longer be read (%s); fully loaded it is %s; %s", i, p, r.Walk[p], fn, ctxs)
			} else if !ok || fn != r.Walk[p] {
				out.Violate("requirer-law", "requirer-law:added-or-changed", "view %d: with the requirer the walk shows %s = %s, fully loaded it is %v; %s", i, p, r.Walk[p], f.Walk[p], ctxs)
			}
		}
		for _, p := range sortedKeys(f.Walk) {
			_, kept := r.Walk[p]
			switch {
			case kept:
				if i == last && mustDrop(p) {
					out.Violate("requirer-law", "requirer-law:non-required-present", "final view: %s is not required (nor the target of a required symlink) but is still listed; %s", p, ctxs)
				}
			case mayDrop(p):
			case ownType(p) == "d" && i == last && depth(p) >= 2 && !hasKid(p):
				out.Violate("requirer-law:empty-dir-pruned", "requirer-law:empty-dir-pruned", "final view: directory %s is absent once the requirer dropped its non-required contents (only non-required FILES may be absent); %s", p, ctxs)
			case !orphanBelow(f, explained[i], p) && tombBelow(explained[i], p):
				out.Violate("requirer-law:required-lost-with-whiteout-child", "requirer-law:required-lost-with-whiteout-child", "view %d: %s (%s) is required (or the target of a required symlink) but is gone with the requirer; the tree keeps a whiteout node below it (it sits under a non-directory that replaced a directory, and fully loaded a symlink pointing at it protects it); with the requirer that node is removed and takes %s along; %s", i, p, f.Walk[p], p, ctxs)
			case orphanBelow(f, explained[i], p):
				out.Violate("requirer-law:required-lost-with-lookup-only-child", "requirer-law:required-lost-with-lookup-only-child", "view %d: %s (%s) is required (or the target of a required symlink) but is gone with the requirer; fully loaded, entries that the overlay should have hidden are still found by direct lookup below it, and dropping those took %s along; %s", i, p, f.Walk[p], p, ctxs)
			default:
				out.Violate("requirer-law", "requirer-law:required-missing", "view %d: %s (%s) is required, a directory, or the target of a required symlink, but is not listed with the requirer; %s", i, p, f.Walk[p], ctxs)
			}
		}
		for _, p := range sortedKeys(f.Look) {
			fn, rn := f.Look[p], r.Look[p]
			if rn == fn {
				if i == last && fn.Type != "" && mustDrop(p) {
					out.Violate("requirer-law", "requirer-law:non-required-present", "final view: %s is not required but is still found by direct lookup; %s", p, ctxs)
				}
				continue
			}
			_, listed := f.Walk[p]
			if i != last && unreadable(fn, rn) {
				// through a symlink the file reached may be one of the order-dependent ones
				viaUnstable := unstable[p]
				if e := newest[p]; e != nil && e.Kind == "l" {
					if t, ok := linkTarget(e.Path, e.Target); ok && unstable[t] {
						viaUnstable = true
					}
				}
				if viaUnstable || ownType(p) == "l" || !listed {
					continue
				}
			}
			if i != last && unstable[p] && fn.Type == "f" && rn.Type == "f" {
				continue
			}
			if i != last && unreadable(fn, rn) && !(required[p] && listed && ownType(p) == "f") {
				// a file whose backing file the final view's pruning deleted, seen directly, through a
				// symlink, or as a lookup-only entry
				out.Violate("requirer-law:non-required-listed-but-unreadable", "requirer-law:non-required-listed-but-unreadable", "view %d (not the final one): lookup of %s finds a file whose content can no longer be read with the requirer (%s); fully loaded it is %s; %s", i, p, rn, fn, ctxs)
				continue
			}
			if rn.Type != "" {
				out.Violate("requirer-law", "requirer-law:added-or-changed", "view %d: with the requirer lookup of %s gives %s, fully loaded %s; %s", i, p, rn, fn, ctxs)
				continue
			}
			if mayDrop(p) {
				continue
			}
			if !listed {
				continue // found only by lookup in the full load (already a finding of the view check)
			}
			if e := newest[p]; ownType(p) == "l" && e != nil && e.Kind == "l" {
				if t, ok := linkTarget(e.Path, e.Target); ok {
					tn, tl := f.Walk[t]
					if !tl {
						continue // a link to something found only by lookup in the full load
					}
					if _, kept := r.Walk[t]; !kept && tn.Type == "d" && i == last && depth(t) >= 2 && !hasKid(t) {
						continue // a link to a directory that was pruned when it became empty (reported from the walk)
					}
					if _, kept := r.Walk[t]; !kept && (orphanBelow(f, explained[i], t) || tombBelow(explained[i], t)) {
						continue // a link to an entry lost together with its lookup-only child (reported from the walk)
					}
				}
			}
			if ownType(p) == "d" && i == last && depth(p) >= 2 && !hasKid(p) {
				continue // reported from the walk
			}
			if orphanBelow(f, explained[i], p) || tombBelow(explained[i], p) {
				continue // reported from the walk
			}
			out.Violate("requirer-law", "requirer-law:required-missing", "view %d: lookup of %s fails with the requirer, fully loaded it is %s; %s", i, p, fn, ctxs)
		}
	}
}

// orphanBelow: in the fully loaded view something below p is found by direct lookup although the
// walk does not list it.
func orphanBelow(f *ViewObs, mv *ModelView, p string) bool {
	for q, n := range f.Look {
		if _, listed := f.Walk[q]; isUnder(q, p) && n.Type != "" && !listed {
			return true
		}
	}
	for q := range mv.Look { // e.g. a dangling symlink, which no lookup can see
		if _, listed := mv.Walk[q]; isUnder(q, p) && !listed {
			return true
		}
	}
	return false
}

// tombBelow: the model's tree for the view keeps a whiteout node below p.
func tombBelow(mv *ModelView, p string) bool {
	for t := range mv.Tombs {
		if isUnder(t, p) {
			return true
		}
	}
	return false
}

// checkSquashed: the squashed on-disk unpacking holds the same regular files with the same
// content as the final view.
func checkSquashed(out *sim.Outcome, sc *C04Scenario, sb *Sandbox, final *ViewObs, strict *ModelView, ctxs string) {
	u, err := unpack.NewUnpacker(unpack.DefaultUnpackerConfig())
	if err != nil {
		panic("harness: unpacker: " + err.Error())
	}
	model := map[string]string{}
	for p, n := range strict.Walk {
		if n.Kind == "f" {
			model[p] = n.Data
		}
	}
	if m0, fails, ok := SquashModel(&sc.Image, nil); ok && (fails || !reflect.DeepEqual(m0, model)) {
		panic(fmt.Sprintf("harness: SquashModel(nil) %v (fails=%v) differs from the OCI overlay %v; %s", m0, fails, model, ctxs))
	}
	if err := u.UnpackSquashed(sb.Target, NewSimImage(&sc.Image)); err != nil {
		for _, d := range allSquashSubsets {
			if _, fails, ok := SquashModel(&sc.Image, d); ok && fails {
				key := "squash-deviation:" + squashKey(d) + ":unpack-fails"
				out.Violate(key, key, "UnpackSquashed of a well-formed image failed (%v); that is what the squashing model gives with the deviation(s) [%s]: an entry survives below a non-directory; %s", err, squashKey(d), ctxs)
				return
			}
		}
		out.Violate("unpack-failed", "unpack-failed", "UnpackSquashed of a well-formed image failed: %v; %s", err, ctxs)
		return
	}
	disk := map[string]string{}
	snap := SnapshotDir(sb.Target)
	for _, p := range sortedKeys(snap) {
		if snap[p].Type == "file" {
			b, _ := os.ReadFile(filepath.Join(sb.Target, p))
			disk[p] = string(b)
		}
	}
	view := map[string]string{}
	for p, n := range final.Walk {
		if n.Type == "f" {
			view[p] = n.Data
		}
	}
	if reflect.DeepEqual(disk, view) {
		return
	}
	if reflect.DeepEqual(disk, model) {
		// the unpacking is the OCI overlay; the final view is not, which the view check reports
		out.Count("squashed_differs_only_because_view_deviates", 1)
		return
	}
	var diffs []string
	set := map[string]bool{}
	for p := range disk {
		set[p] = true
	}
	for p := range view {
		set[p] = true
	}
	kinds := map[string]bool{}
	for _, p := range sortedKeys(set) {
		d, inD := disk[p]
		v, inV := view[p]
		switch {
		case !inD:
			kinds["missing-on-disk"] = true
			diffs = append(diffs, "only in the view: "+p)
		case !inV:
			kinds["extra-on-disk"] = true
			diffs = append(diffs, "only on disk: "+p)
		case d != v:
			kinds["content"] = true
			diffs = append(diffs, fmt.Sprintf("%s: disk %q view %q", p, d, v))
		}
	}
	for _, d := range allSquashSubsets {
		if m, fails, ok := SquashModel(&sc.Image, d); ok && !fails && reflect.DeepEqual(m, disk) {
			key := "squash-deviation:" + squashKey(d)
			out.Violate(key, key, "UnpackSquashed and the final view hold different regular files, and the unpacking is not the OCI overlay: it is what the squashing model gives with the deviation(s) [%s]: %s; %s", squashKey(d), strings.Join(diffs, "; "), ctxs)
			return
		}
	}
	ks := sortedKeys(kinds)
	sort.Strings(ks)
	out.Violate("squash-mismatch", "squash-mismatch:"+strings.Join(ks, "+"), "UnpackSquashed and the final view hold different regular files (the unpacking is neither the OCI overlay nor explained by the catalogued squashing deviations): %s; %s", strings.Join(diffs, "; "), ctxs)
}
