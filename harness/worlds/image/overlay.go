package imgworld

import (
	"fmt"
	"path"
	"sort"
	"strings"
)

// ---------------------------------------------------------------------------------------
// Reference model of the OCI overlay ("RefOverlay").
//
// OCIApply is the plain forward model: a map path -> entry, layers applied in order by the
// image-spec rules.  RefOverlay(D) is a second, independently written evaluation of the same
// rules (newest layer first, with explicit "cut" records for deletions) that takes a set D
// of named deviations, each switching ONE wrong-but-observed rule on.  RefOverlay(nil) must
// equal OCIApply on every scenario (checked at run time: a difference is a harness bug).

// MNode is one entry of a model view.
type MNode struct {
	Kind    string // "f" | "d" | "l"
	Perm    int
	PermDef bool // false: directory only implied by a child's path, mode undefined
	Data    string
	Target  string // symlink: cleaned target as a universe path ("" = root)
	Layer   int
	// Unreadable (deviations only): the entry is listed but its backing file is gone.
	Unreadable bool
	// Alt: the layer that supplies this regular file carries several entries for the path (same
	// cleaned name, e.g. "app/config" and "./app/config").  Which of them wins is not fixed by the
	// statement; the view has to show ONE of them consistently (size, content).  "\x00"-joined.
	Alt string
	// AltMixed (deviation duplicate-entry-rewrites-backing-file): size of one of the entries with
	// the bytes of another is what the view shows.
	AltMixed bool
	// MaybeUnreadable (same deviation): the further entry was at or over the size limit; unpacking
	// and discarding it removed the backing file.
	MaybeUnreadable bool
}

// whiteoutAboveBefore: the layer has a whiteout of a proper ancestor of p earlier in the stream
// than its first regular-file entry for p (that entry's node is then missing from the layer's
// own view).
func whiteoutAboveBefore(l *LayerSpec, p string) bool {
	first := -1
	for i := range l.Entries {
		if e := &l.Entries[i]; e.Kind == "f" && e.Path == p {
			first = i
			break
		}
	}
	for i := 0; i < first; i++ {
		if e := &l.Entries[i]; e.Kind == "w" && isUnder(p, e.Path) {
			return true
		}
	}
	return false
}

// altContents lists the contents of all regular-file entries of the layer for path p if there
// are several, else "".
func altContents(l *LayerSpec, p string) string {
	var cs []string
	for i := range l.Entries {
		if e := &l.Entries[i]; e.Kind == "f" && e.Path == p {
			cs = append(cs, string(e.Content()))
		}
	}
	if len(cs) < 2 {
		return ""
	}
	return strings.Join(cs, "\x00")
}

func (n MNode) String() string {
	switch n.Kind {
	case "f":
		return fmt.Sprintf("file o%o %q", n.Perm, n.Data)
	case "l":
		return fmt.Sprintf("link->/%s", n.Target)
	}
	if !n.PermDef {
		return "dir(implied)"
	}
	return fmt.Sprintf("dir o%o", n.Perm)
}

func ancestors(p string) []string { // top-down, proper ancestors
	var out []string
	for d := path.Dir(p); d != "." && d != "/" && d != ""; d = path.Dir(d) {
		out = append([]string{d}, out...)
	}
	return out
}

func depth(p string) int {
	if p == "" {
		return 0
	}
	return strings.Count(p, "/") + 1
}

func isUnder(p, anc string) bool { return strings.HasPrefix(p, anc+"/") }

// linkTarget cleans a symlink target the way a root-confined resolver must: relative targets
// are relative to the link's directory; the result is a universe path ("" = the root).  ok is
// false if the target leaves the root.
func linkTarget(linkPath, target string) (string, bool) {
	var j string
	if strings.HasPrefix(target, "/") {
		if path.Clean(target) != target {
			return "", false // not generated: what an unclean absolute target means is C17's business
		}
		j = path.Join("/m", target)
	} else {
		d := path.Dir(linkPath)
		if d == "." {
			d = ""
		}
		j = path.Join("/m", d, target)
	}
	if j != "/m" && !strings.HasPrefix(j, "/m/") {
		return "", false
	}
	return strings.TrimPrefix(strings.TrimPrefix(j, "/m"), "/"), true
}

// Ambiguous reports why a layer history lies outside what the statement fixes (inputs the
// generator avoids; Run re-checks so that shrunk or hand-made scenarios cannot false-alarm).
func Ambiguous(spec *ImageSpec) string {
	state := map[string]MNode{}
	for li, l := range spec.Layers {
		seen := map[string]string{}
		for i := range l.Entries {
			e := &l.Entries[i]
			if e.Raw != "" || e.Path == "" || path.Clean(e.Path) != e.Path || strings.HasPrefix(e.Path, "/") || e.Path == ".." || strings.HasPrefix(e.Path, "../") {
				return "entry without a clean relative path"
			}
			for _, seg := range strings.Split(e.Path, "/") {
				if strings.HasPrefix(seg, ".wh.") {
					return "path segment spelled like a whiteout"
				}
			}
			switch e.Kind {
			case "f", "d", "l":
				if k, dup := seen[e.Path]; dup && k != "w" && !(k == "f" && e.Kind == "f") {
					return fmt.Sprintf("layer %d: %s appears twice", li, e.Path)
				}
				if _, dup := seen[e.Path]; !dup || seen[e.Path] == "w" {
					seen[e.Path] = e.Kind
				}
				if e.Kind == "l" {
					if _, ok := linkTarget(e.Path, e.Target); !ok || e.Target == "" {
						return "symlink target leaves the root or is empty"
					}
				}
			case "w", "o":
			default:
				return "entry kind outside the statement (" + e.Kind + ")"
			}
		}
		for i := range l.Entries {
			e := &l.Entries[i]
			below := e.Path
			if e.Kind == "w" {
				below = path.Dir(e.Path) + "/.wh"
				if path.Dir(e.Path) == "." {
					below = ".wh"
				}
			} else if e.Kind == "o" {
				below = e.Path + "/.wh"
			}
			for _, a := range ancestors(below) {
				if k := seen[a]; k == "f" || k == "l" {
					return fmt.Sprintf("layer %d: %s lies below the non-directory %s of the same layer", li, e.HeaderName(), a)
				}
			}
		}
		// an implied parent directory over a lower-layer non-directory: a well-formed layer spells
		// the directory out
		white := map[string]bool{}
		for i := range l.Entries {
			if l.Entries[i].Kind == "w" {
				white[l.Entries[i].Path] = true
			}
		}
		for i := range l.Entries {
			e := &l.Entries[i]
			anc := ancestors(e.Path)
			if e.Kind == "o" {
				anc = append(anc, e.Path)
			}
			for _, a := range anc {
				n, ok := state[a]
				if !ok || n.Kind == "d" || seen[a] == "d" {
					continue
				}
				gone := false
				for w := range white {
					if a == w || isUnder(a, w) {
						gone = true
					}
				}
				if !gone {
					return fmt.Sprintf("layer %d: %s needs the directory %s, which is a non-directory below and is not spelled out", li, e.HeaderName(), a)
				}
			}
		}
		applyLayer(state, &l, li)
	}
	return ""
}

// applyLayer applies one layer to the forward model.
func applyLayer(state map[string]MNode, l *LayerSpec, li int) {
	del := func(p string, self bool) {
		for q := range state {
			if (self && q == p) || isUnder(q, p) {
				delete(state, q)
			}
		}
	}
	// deletions apply to the lower layers only
	for i := range l.Entries {
		switch e := &l.Entries[i]; e.Kind {
		case "w":
			del(e.Path, true)
		case "o":
			del(e.Path, false)
		}
	}
	mkdirs := func(ps []string) {
		for _, a := range ps {
			if n, ok := state[a]; !ok || n.Kind != "d" {
				del(a, true)
				state[a] = MNode{Kind: "d", Layer: li}
			}
		}
	}
	for i := range l.Entries { // explicit directories
		e := &l.Entries[i]
		if e.Kind != "d" {
			continue
		}
		mkdirs(ancestors(e.Path))
		if n, ok := state[e.Path]; !ok || n.Kind != "d" {
			del(e.Path, true)
		}
		state[e.Path] = MNode{Kind: "d", Perm: e.Perm, PermDef: true, Layer: li}
	}
	for i := range l.Entries {
		e := &l.Entries[i]
		switch e.Kind {
		case "w":
			mkdirs(ancestors(e.Path))
		case "o":
			mkdirs(append(ancestors(e.Path), e.Path))
		case "f":
			if n, ok := state[e.Path]; ok && n.Kind == "f" && n.Layer == li && n.Alt != "" {
				continue // a further entry for the same path: see MNode.Alt
			}
			mkdirs(ancestors(e.Path))
			del(e.Path, true)
			state[e.Path] = MNode{Kind: "f", Perm: e.Perm, PermDef: true, Data: string(e.Content()), Layer: li, Alt: altContents(l, e.Path)}
		case "l":
			mkdirs(ancestors(e.Path))
			del(e.Path, true)
			t, _ := linkTarget(e.Path, e.Target)
			state[e.Path] = MNode{Kind: "l", Perm: e.Perm, PermDef: true, Target: t, Layer: li}
		}
	}
}

// OCIApply returns the overlay of layers 0..upto (indices of real layers).
func OCIApply(spec *ImageSpec, upto int) map[string]MNode {
	state := map[string]MNode{}
	for li := 0; li <= upto && li < len(spec.Layers); li++ {
		applyLayer(state, &spec.Layers[li], li)
	}
	return state
}

// ---------------------------------------------------------------------------------------
// Named deviations.

const (
	DevOpaque  = "opaque-ignored"            // an opaque marker hides nothing
	DevShallow = "whiteout-one-level"        // a whiteout of p removes p and the entries directly in p; deeper entries stay reachable by direct lookup (not by walking)
	DevTop     = "recreate-cancels-delete"   // a whiteout / non-directory at p has no effect in views where a newer layer has any entry at p (or implies p as a parent): the old contents reappear
	DevOrder   = "same-layer-stream-order"   // whiteout of p and entries at/below p in ONE layer: entries after the whiteout are deleted by it, an entry before it cancels it
	DevNondir  = "nondir-keeps-children"     // a non-directory replacing directory p leaves p's old contents reachable by direct lookup
	DevPrune   = "final-view-pruning"        // final view only: removing a whiteout node drops its whole subtree (below the top level) and every ancestor below the top level left without children
	DevAbs     = "absolute-name-dropped"     // an entry with an absolute name vanishes (only its parent directories appear)
	DevDirMode = "dir-mode-from-placeholder" // a directory's mode is that of the first/newest node created for it, which is the mode-less placeholder when a child came first
	// a layer has two regular-file entries for one path AND an earlier whiteout of a directory above
	// it: the first entry's node is missing from the layer's own view, so the second entry is
	// unpacked too and overwrites the backing file, while later views keep the FIRST entry's node:
	// size of one entry, bytes of the other
	DevDupRewrite = "duplicate-entry-rewrites-backing-file"
)

// AllDeviations in the order used for keys.
var AllDeviations = []string{DevAbs, DevDirMode, DevDupRewrite, DevPrune, DevNondir, DevOpaque, DevTop, DevOrder, DevShallow}

// DevSet is a set of deviation names.
type DevSet map[string]bool

func (d DevSet) Key() string {
	var ks []string
	for _, k := range AllDeviations {
		if d[k] {
			ks = append(ks, k)
		}
	}
	return strings.Join(ks, "+")
}

// ModelView is what a view must look like: Walk = reachable from the root through
// directories; Look = found by direct lookup of the path.  Under the strict rules both agree.
type ModelView struct {
	Look map[string]MNode
	Walk map[string]MNode
	// Tombs (deviations only): paths where the loader keeps a whiteout node in the view's tree.
	Tombs map[string]bool
}

type cutRec struct {
	layer, pos int
	kind       string // "w" | "n" (non-directory) | "o"
}

type viewBuilder struct {
	dev   DevSet
	nodes map[string]*MNode // occupied paths (newest first: first come, first served)
	occ   map[string][2]int // path -> (layer, pos) of the occupant
	cuts  map[string][]cutRec
	tombs map[string]bool // whiteout nodes that the pruning of the final view removes
}

func (b *viewBuilder) applicable(c cutRec, layer, pos int) bool {
	return c.layer > layer || (b.dev[DevOrder] && c.layer == layer && c.pos < pos)
}

// hidden decides whether an item of (layer, pos) at path q is removed by a deletion record.
func (b *viewBuilder) hidden(q string, layer, pos int) bool {
	for _, c := range b.cuts[q] { // at q itself: a whiteout or non-directory replaces older entries
		if c.kind != "o" && b.applicable(c, layer, pos) {
			return true
		}
	}
	anc := ancestors(q)
	for _, a := range anc {
		for _, c := range b.cuts[a] {
			if !b.applicable(c, layer, pos) {
				continue
			}
			switch c.kind {
			case "o":
				return true
			case "n":
				if !b.dev[DevNondir] {
					return true
				}
			case "w":
				if !b.dev[DevShallow] {
					return true
				}
			}
		}
	}
	if b.dev[DevShallow] {
		// only what sits directly in a whited-out directory goes; the search stops at the first
		// level that has no node
		for i := len(anc) - 1; i >= 0; i-- {
			a := anc[i]
			for _, c := range b.cuts[a] {
				if c.kind == "w" && b.applicable(c, layer, pos) {
					return true
				}
			}
			if _, ok := b.nodes[a]; !ok {
				break
			}
		}
	}
	return false
}

func (b *viewBuilder) place(q string, n MNode, layer, pos int) bool {
	if b.hidden(q, layer, pos) {
		return false
	}
	if cur, ok := b.nodes[q]; ok {
		// a newer (or earlier) directory without a mode of its own keeps the mode of the
		// directory entry below it
		if !b.dev[DevDirMode] && cur.Kind == "d" && !cur.PermDef && n.Kind == "d" && n.PermDef {
			cur.Perm, cur.PermDef = n.Perm, true
		}
		return false
	}
	nn := n
	b.nodes[q] = &nn
	b.occ[q] = [2]int{layer, pos}
	return true
}

// RefOverlay builds the view after the given real layers (newest last) under deviations dev.
func RefOverlay(spec *ImageSpec, layers []int, dev DevSet, final bool) *ModelView {
	b := &viewBuilder{dev: dev, nodes: map[string]*MNode{}, occ: map[string][2]int{}, cuts: map[string][]cutRec{}, tombs: map[string]bool{}}
	for x := len(layers) - 1; x >= 0; x-- {
		li := layers[x]
		l := &spec.Layers[li]
		inLayer := map[string]bool{}
		for pos := range l.Entries {
			e := &l.Entries[pos]
			item := e.Path
			if e.Kind == "o" {
				item = e.Path + "/.wh..opq"
			}
			parents := ancestors(item)
			if dev[DevAbs] && e.Style == "abs" {
				for _, a := range parents {
					b.place(a, MNode{Kind: "d", Layer: li}, li, pos)
					inLayer[a] = true
				}
				continue
			}
			if dev[DevOrder] && inLayer[item] {
				continue // a second node for a path of the same layer is skipped with everything it implies
			}
			for _, a := range parents {
				b.place(a, MNode{Kind: "d", Layer: li}, li, pos)
				inLayer[a] = true
			}
			inLayer[item] = true
			switch e.Kind {
			case "d":
				b.place(e.Path, MNode{Kind: "d", Perm: e.Perm, PermDef: true, Layer: li}, li, pos)
			case "f", "l":
				n := MNode{Kind: e.Kind, Perm: e.Perm, PermDef: true, Layer: li}
				if e.Kind == "f" {
					n.Data = string(e.Content())
					n.Alt = altContents(l, e.Path)
					n.AltMixed = n.Alt != "" && dev[DevDupRewrite] && whiteoutAboveBefore(l, e.Path)
					n.MaybeUnreadable = e.overDup && dev[DevDupRewrite] && whiteoutAboveBefore(l, e.Path)
				} else {
					n.Target, _ = linkTarget(e.Path, e.Target)
				}
				placed := b.place(e.Path, n, li, pos)
				if placed || (!dev[DevTop] && !b.hidden(e.Path, li, pos)) {
					b.cuts[e.Path] = append(b.cuts[e.Path], cutRec{li, pos, "n"})
				}
			case "w":
				if o, taken := b.occ[e.Path]; taken && dev[DevTop] && o[0] > li {
					continue
				}
				if dev[DevShallow] && b.hidden(e.Path, li, pos) {
					continue
				}
				b.cuts[e.Path] = append(b.cuts[e.Path], cutRec{li, pos, "w"})
				if _, taken := b.occ[e.Path]; !taken {
					b.tombs[e.Path] = true
				}
			case "o":
				if !dev[DevOpaque] {
					b.cuts[e.Path] = append(b.cuts[e.Path], cutRec{li, pos, "o"})
				}
				if !b.hidden(item, li, pos) {
					b.tombs[item] = true
				}
			}
		}
	}
	if final && dev[DevPrune] {
		b.prune()
	}
	if dev[DevPrune] && dev[DevAbs] {
		// The final view's pruning also deletes the backing file "<layer dir>/<path>" of every
		// whiteout node it removes.  A whiteout spelled with an absolute name sits at an
		// unreachable node but names the same backing file as a regular file of the same layer at
		// that path - which then is listed in every view that shows it, and cannot be read.
		for p, li := range absWhiteouts(spec) {
			if n, ok := b.nodes[p]; ok && n.Kind == "f" && n.Layer == li {
				n.Unreadable = true
			}
		}
	}
	mv := &ModelView{Look: map[string]MNode{}, Walk: map[string]MNode{}, Tombs: map[string]bool{}}
	for p, n := range b.nodes {
		mv.Look[p] = *n
	}
	for t := range b.tombs {
		if _, occupied := b.nodes[t]; !occupied {
			mv.Tombs[t] = true
		}
	}
	for _, p := range sortedKeys(mv.Look) {
		ok := true
		for _, a := range ancestors(p) {
			if an, has := mv.Look[a]; !has || an.Kind != "d" {
				ok = false
				break
			}
		}
		if ok {
			mv.Walk[p] = mv.Look[p]
		}
	}
	return mv
}

// absWhiteouts: path -> layer of the whiteouts spelled with an absolute name that end up as
// nodes of the final view (newest layer first, first node for a name wins).
func absWhiteouts(spec *ImageSpec) map[string]int {
	out := map[string]int{}
	taken := map[string]bool{}
	for li := len(spec.Layers) - 1; li >= 0; li-- {
		for i := range spec.Layers[li].Entries {
			e := &spec.Layers[li].Entries[i]
			if e.Style != "abs" || e.Kind == "o" || taken[e.Path] {
				continue
			}
			taken[e.Path] = true
			if e.Kind == "w" {
				out[e.Path] = li
			}
		}
	}
	return out
}

// prune mimics the removal of whiteout nodes from the final view's path tree.
func (b *viewBuilder) prune() {
	tree := map[string]bool{} // every tree node, with or without a value
	add := func(p string) {
		tree[p] = true
		for _, a := range ancestors(p) {
			tree[a] = true
		}
	}
	for p := range b.nodes {
		add(p)
	}
	for t := range b.tombs {
		if _, occupied := b.nodes[t]; !occupied {
			add(t)
		}
	}
	hasChild := func(p string) bool {
		for q := range tree {
			if path.Dir(q) == p {
				return true
			}
		}
		return false
	}
	// a whiteout node that a symlink of the view points at (directly or through further links)
	// counts as the target of a required symlink and stays
	kept := map[string]bool{}
	for _, p := range sortedKeys(b.nodes) {
		if b.nodes[p].Kind != "l" {
			continue
		}
		t := b.nodes[p].Target
		for hops := 0; hops < 6; hops++ {
			if _, occupied := b.nodes[t]; !occupied && b.tombs[t] {
				kept[t] = true
				break
			}
			n, ok := b.nodes[t]
			if !ok || n.Kind != "l" {
				break
			}
			t = n.Target
		}
	}
	for _, t := range sortedKeys(b.tombs) {
		if _, occupied := b.nodes[t]; occupied || !tree[t] || kept[t] {
			continue
		}
		if depth(t) < 2 {
			continue // top level: only the value is cleared
		}
		for q := range tree {
			if q == t || isUnder(q, t) {
				delete(tree, q)
				delete(b.nodes, q)
			}
		}
		for a := path.Dir(t); depth(a) >= 2 && !hasChild(a); a = path.Dir(a) {
			delete(tree, a)
			delete(b.nodes, a)
		}
	}
}

// Resolve follows symlinks for a direct lookup of p the way a root-confined resolver does
// (final component only).  ok=false: too long a chain / cycle, nothing is asserted.
func (mv *ModelView) Resolve(p string) (n MNode, found bool, ok bool) {
	cur := p
	for hops := 0; hops < 4; hops++ {
		if cur == "" {
			return MNode{Kind: "d"}, true, true
		}
		x, has := mv.Look[cur]
		if !has {
			return MNode{}, false, true
		}
		if x.Kind != "l" {
			return x, true, true
		}
		cur = x.Target
	}
	return MNode{}, false, false
}

// ---------------------------------------------------------------------------------------
// Comparison of an observed view with a model view.

// Mismatch is one difference; Kind is a short stable tag.
type Mismatch struct {
	Kind string
	Text string
}

func compareNode(where, p string, o NodeObs, m MNode, perm bool) *Mismatch {
	if o.Type != m.Kind {
		return &Mismatch{where + "-type", fmt.Sprintf("%s %s: is %s, expected %s", where, p, o, m)}
	}
	if m.Kind == "f" && m.Alt != "" && !m.Unreadable {
		sizeOK, dataOK := false, false
		for _, c := range strings.Split(m.Alt, "\x00") {
			if o.Data == c && o.Size == int64(len(c)) && o.Err == "" {
				return nil
			}
			sizeOK = sizeOK || o.Size == int64(len(c))
			dataOK = dataOK || o.Data == c
		}
		if m.AltMixed && sizeOK && dataOK && o.Err == "" {
			return nil
		}
		return &Mismatch{where + "-content", fmt.Sprintf("%s %s: size %d, %d readable bytes %q %s: none of the layer's entries for that path (%q)", where, p, o.Size, len(o.Data), o.Data, o.Err, strings.Split(m.Alt, "\x00"))}
	}
	if perm && m.PermDef && int(o.Perm) != m.Perm {
		return &Mismatch{where + "-mode", fmt.Sprintf("%s %s: mode o%o, expected o%o", where, p, o.Perm, m.Perm)}
	}
	if m.Kind == "f" && m.MaybeUnreadable && o.Data == "" && o.Err == "read:notexist" && o.Size == int64(len(m.Data)) {
		return nil
	}
	if m.Kind == "f" && m.Unreadable {
		if o.Data != "" || o.Err != "read:notexist" {
			return &Mismatch{where + "-content", fmt.Sprintf("%s %s: content %q %s, expected an unreadable file", where, p, o.Data, o.Err)}
		}
		return nil
	}
	if m.Kind == "f" && (o.Data != m.Data || o.Size != int64(len(m.Data)) || o.Err != "") {
		return &Mismatch{where + "-content", fmt.Sprintf("%s %s: size %d content %q %s, expected %q", where, p, o.Size, o.Data, o.Err, m.Data)}
	}
	return nil
}

// CompareView lists the differences between an observed view and the model.
func CompareView(obs *ViewObs, mv *ModelView, probes []string) []Mismatch {
	var out []Mismatch
	for _, e := range obs.Errs {
		out = append(out, Mismatch{"walk-error", e})
	}
	for _, p := range sortedKeys(mv.Walk) {
		o, ok := obs.Walk[p]
		if !ok {
			out = append(out, Mismatch{"walk-missing", fmt.Sprintf("walk does not reach %s (%s)", p, mv.Walk[p])})
			continue
		}
		if mm := compareNode("walk", p, o, mv.Walk[p], true); mm != nil {
			out = append(out, *mm)
		}
	}
	for _, p := range sortedKeys(obs.Walk) {
		if _, ok := mv.Walk[p]; !ok {
			out = append(out, Mismatch{"walk-extra", fmt.Sprintf("walk reaches %s (%s), which the overlay does not contain", p, obs.Walk[p])})
		}
	}
	for _, p := range probes {
		o := obs.Look[p]
		m, found, ok := mv.Resolve(p)
		if !ok {
			continue
		}
		if !found {
			if o.Type != "" || strings.Contains(o.Err, "open-ok") {
				out = append(out, Mismatch{"lookup-extra", fmt.Sprintf("lookup of %s finds %s %s, the overlay has nothing there", p, o, o.Err)})
			}
			continue
		}
		if o.Type == "" {
			out = append(out, Mismatch{"lookup-missing", fmt.Sprintf("lookup of %s fails (%s), the overlay has %s", p, o.Err, m)})
			continue
		}
		if mm := compareNode("lookup", p, o, m, true); mm != nil {
			out = append(out, *mm)
		}
	}
	return out
}

func mismatchKinds(ms []Mismatch) string {
	set := map[string]bool{}
	for _, m := range ms {
		set[m.Kind] = true
	}
	ks := sortedKeys(set)
	sort.Strings(ks)
	return strings.Join(ks, "+")
}

// subsets of AllDeviations in search order: by size, then position; subsets that need
// absolute-name-dropped (fixed in the repository) only after all others.
func devSubsets() []DevSet {
	n := len(AllDeviations)
	type ms struct {
		mask, bits int
		abs        bool
	}
	var all []ms
	for m := 1; m < 1<<n; m++ {
		c := 0
		x := ms{mask: m}
		for i := 0; i < n; i++ {
			if m&(1<<i) != 0 {
				c++
				if AllDeviations[i] == DevAbs {
					x.abs = true
				}
			}
		}
		x.bits = c
		all = append(all, x)
	}
	sort.SliceStable(all, func(i, j int) bool {
		if all[i].abs != all[j].abs {
			return !all[i].abs
		}
		return all[i].bits < all[j].bits
	})
	var out []DevSet
	for _, x := range all {
		d := DevSet{}
		for i := 0; i < n; i++ {
			if x.mask&(1<<i) != 0 {
				d[AllDeviations[i]] = true
			}
		}
		out = append(out, d)
	}
	return out
}

var allDevSubsets = devSubsets()
