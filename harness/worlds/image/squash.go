package imgworld

import (
	"path"
	"strings"
)

// Reference model of the squashed unpacking (mutate.Extract of go-containerregistry followed
// by unpack.Unpacker): the regular files on disk must be those of the OCI overlay.  Like
// RefOverlay it takes named deviations, each one wrong-but-observed rule of the squashing.

const (
	SqNames  = "names-not-normalised"    // '/a' and 'a' are different names: a whiteout / replacement spelled one way does not apply to an entry spelled the other way
	SqOpaque = "opaque-ignored"          // an opaque marker hides nothing
	SqTop    = "recreate-cancels-delete" // a whiteout / non-directory at p is ignored when a newer layer has an entry named p
	SqOrder  = "same-layer-stream-order" // whiteout of p and entries at/below p in one layer interact by stream order
)

var AllSquashDeviations = []string{SqNames, SqOpaque, SqTop, SqOrder}

func squashKey(d DevSet) string {
	var ks []string
	for _, k := range AllSquashDeviations {
		if d[k] {
			ks = append(ks, k)
		}
	}
	return strings.Join(ks, "+")
}

type sqItem struct {
	path, kind, data string
}

// SquashModel returns the regular files the unpacking leaves on disk; fails=true if the
// unpacker must fail (an entry below a non-directory); ok=false if the on-disk effect is not
// modelled (writes through links).
func SquashModel(spec *ImageSpec, dev DevSet) (files map[string]string, fails bool, ok bool) {
	type occ struct{ layer, pos int }
	seen := map[string]occ{}
	kill := map[string]cutRec{}
	opq := map[string]cutRec{}
	applicable := func(c cutRec, layer, pos int) bool {
		return c.layer > layer || (dev[SqOrder] && c.layer == layer && c.pos < pos)
	}
	key := func(e *Entry, p string) string {
		if dev[SqNames] && e.Style == "abs" {
			return "/" + p
		}
		return p
	}
	up := func(n string) []string { // proper ancestors of a name key, nearest first
		var out []string
		for d := path.Dir(n); d != "." && d != "/"; d = path.Dir(d) {
			out = append(out, d)
		}
		return out
	}
	dead := func(n string, layer, pos int) bool {
		if c, has := kill[n]; has && applicable(c, layer, pos) {
			return true
		}
		for _, a := range up(n) {
			if c, has := kill[a]; has && applicable(c, layer, pos) {
				return true
			}
			if c, has := opq[a]; has && applicable(c, layer, pos) {
				return true
			}
		}
		return false
	}
	var emitted []sqItem
	for li := len(spec.Layers) - 1; li >= 0; li-- {
		l := &spec.Layers[li]
		for pos := range l.Entries {
			e := &l.Entries[pos]
			n := key(e, e.Path)
			switch e.Kind {
			case "w":
				if o, taken := seen[n]; taken && ((dev[SqTop] && o.layer > li) || (dev[SqOrder] && o.layer == li)) {
					continue
				}
				if _, has := kill[n]; !has {
					kill[n] = cutRec{li, pos, "w"}
				}
			case "o":
				if !dev[SqOpaque] {
					if _, has := opq[n]; !has {
						opq[n] = cutRec{li, pos, "o"}
					}
				}
			case "f", "l", "d":
				if dead(n, li, pos) {
					continue
				}
				if _, taken := seen[n]; taken {
					if e.Kind != "d" && !dev[SqTop] {
						if _, has := kill[n]; !has {
							kill[n] = cutRec{li, pos, "n"}
						}
					}
					continue
				}
				seen[n] = occ{li, pos}
				if e.Kind != "d" {
					if _, has := kill[n]; !has {
						kill[n] = cutRec{li, pos, "n"}
					}
				}
				emitted = append(emitted, sqItem{e.Path, e.Kind, string(e.Content())})
			}
		}
	}
	// the unpacker: first entry for a path wins, parents are created on demand
	disk := map[string]string{} // path -> "f" | "l" | "d"
	files = map[string]string{}
	for _, it := range emitted {
		if it.kind == "d" {
			continue
		}
		if _, exists := disk[it.path]; exists {
			continue
		}
		for _, a := range ancestors(it.path) {
			switch disk[a] {
			case "f":
				return nil, true, true
			case "l":
				return nil, false, false
			}
			disk[a] = "d"
		}
		disk[it.path] = it.kind
		if it.kind == "f" {
			files[it.path] = it.data
		}
	}
	return files, false, true
}

func squashSubsets() []DevSet {
	var out []DevSet
	n := len(AllSquashDeviations)
	for bits := 1; bits <= n; bits++ {
		for m := 1; m < 1<<n; m++ {
			c := 0
			d := DevSet{}
			for i := 0; i < n; i++ {
				if m&(1<<i) != 0 {
					c++
					d[AllSquashDeviations[i]] = true
				}
			}
			if c == bits {
				out = append(out, d)
			}
		}
	}
	return out
}

var allSquashSubsets = squashSubsets()
