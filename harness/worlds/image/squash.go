package imgworld

import (
	"path"
	"strings"
)

// Reference model of the squashed unpacking (mutate.Extract of go-containerregistry followed
// by unpack.Unpacker): the regular files on disk must be those of the OCI overlay.  Like
// RefOverlay it takes named deviations, each one wrong-but-observed rule of the squashing.

const (
	SqNames  = "names-not-normalised"    // '/a' and 'a' are different names: a whiteout / replacement spelled one way does not apply to an entry spelled the other way
	SqOpaque = "opaque-ignored"          // an opaque marker hides nothing
	SqTop    = "recreate-cancels-delete" // a whiteout / non-directory at p is ignored when a newer layer has an entry named p
	SqOrder  = "same-layer-stream-order" // whiteout of p and entries at/below p in one layer interact by stream order
)

var AllSquashDeviations = []string{SqNames, SqOpaque, SqTop, SqOrder}

func squashKey(d DevSet) string {
	var ks []string
	for _, k := range AllSquashDeviations {
		if d[k] {
			ks = append(ks, k)
		}
	}
	return strings.Join(ks, "+")
}

type sqItem struct {
	path, kind, data, target string
}

// SquashModel returns the regular files the unpacking leaves on disk; fails=true if the
// unpacker must fail (an entry below a non-directory); ok=false if the on-disk effect is not
// modelled (writes through links).
func SquashModel(spec *ImageSpec, dev DevSet) (files map[string]string, fails bool, ok bool) {
	type occ struct{ layer, pos int }
	seen := map[string]occ{}
	kill := map[string]cutRec{}
	opq := map[string]cutRec{}
	applicable := func(c cutRec, layer, pos int) bool {
		return c.layer > layer || (dev[SqOrder] && c.layer == layer && c.pos < pos)
	}
	key := func(e *Entry, p string) string {
		if dev[SqNames] && e.Style == "abs" {
			return "/" + p
		}
		return p
	}
	up := func(n string) []string { // proper ancestors of a name key, nearest first
		var out []string
		for d := path.Dir(n); d != "." && d != "/"; d = path.Dir(d) {
			out = append(out, d)
		}
		return out
	}
	dead := func(n string, layer, pos int) bool {
		if c, has := kill[n]; has && applicable(c, layer, pos) {
			return true
		}
		for _, a := range up(n) {
			if c, has := kill[a]; has && applicable(c, layer, pos) {
				return true
			}
			if c, has := opq[a]; has && applicable(c, layer, pos) {
				return true
			}
		}
		return false
	}
	var emitted []sqItem
	for li := len(spec.Layers) - 1; li >= 0; li-- {
		l := &spec.Layers[li]
		for pos := range l.Entries {
			e := &l.Entries[pos]
			n := key(e, e.Path)
			switch e.Kind {
			case "w":
				if o, taken := seen[n]; taken && ((dev[SqTop] && o.layer > li) || (dev[SqOrder] && o.layer == li)) {
					continue
				}
				if _, has := kill[n]; !has {
					kill[n] = cutRec{li, pos, "w"}
				}
			case "o":
				if !dev[SqOpaque] {
					if _, has := opq[n]; !has {
						opq[n] = cutRec{li, pos, "o"}
					}
				}
			case "f", "l", "d":
				if dead(n, li, pos) {
					continue
				}
				if _, taken := seen[n]; taken {
					if e.Kind != "d" && !dev[SqTop] {
						if _, has := kill[n]; !has {
							kill[n] = cutRec{li, pos, "n"}
						}
					}
					continue
				}
				seen[n] = occ{li, pos}
				if e.Kind != "d" {
					if _, has := kill[n]; !has {
						kill[n] = cutRec{li, pos, "n"}
					}
				}
				it := sqItem{path: e.Path, kind: e.Kind, data: string(e.Content())}
				if e.Kind == "l" {
					it.target, _ = linkTarget(e.Path, e.Target)
				}
				emitted = append(emitted, it)
			}
		}
	}
	// the unpacker: entries in stream order; a path that exists is skipped; parents are created
	// on demand THROUGH links already on disk; directories are never created for their own sake
	disk := map[string]string{} // canonical path -> "f" | "l" | "d"
	dest := map[string]string{} // link -> cleaned target
	files = map[string]string{}
	// resolve follows p on the model disk (every component, links included): the canonical path
	// and its kind ("" = does not exist); st: "" ok, "notdir" (a regular file on the way),
	// "dangling" (a link that leads nowhere or in circles)
	var resolve func(p string, hops int) (string, string, string)
	resolve = func(p string, hops int) (string, string, string) {
		if p == "" || p == "." {
			return "", "d", ""
		}
		if hops > 8 {
			return "", "", "dangling"
		}
		cur := ""
		segs := strings.Split(p, "/")
		for i, seg := range segs {
			next := seg
			if cur != "" {
				next = cur + "/" + seg
			}
			k := disk[next]
			if k == "l" {
				t, tk, st := resolve(dest[next], hops+1)
				if st != "" {
					return "", "", "dangling" // whatever goes wrong behind a link makes the entry be skipped
				}
				if tk == "" {
					return "", "", "dangling"
				}
				next, k = t, tk
			}
			if i < len(segs)-1 {
				switch k {
				case "f":
					return "", "", "notdir"
				case "":
					// the rest does not exist
					rest := strings.Join(segs[i+1:], "/")
					if next == "" {
						return rest, "", ""
					}
					return next + "/" + rest, "", ""
				}
			}
			cur = next
			if i == len(segs)-1 {
				return cur, k, ""
			}
		}
		return cur, "d", ""
	}
	// canon resolves the directory dir, creating it (MkdirAll) if mk
	canon := func(dir string, mk bool, _ int) (string, string) {
		if dir == "." || dir == "" {
			return "", ""
		}
		c, k, st := resolve(dir, 0)
		if st != "" {
			return "", st
		}
		switch k {
		case "f":
			return "", "notdir"
		case "":
			if !mk {
				return "", "dangling"
			}
			for _, a := range append(ancestors(c), c) {
				if disk[a] == "" {
					disk[a] = "d"
				}
			}
		}
		return c, ""
	}
	for pass := 0; pass < 3; pass++ { // unpack.DefaultMaxPass: entries skipped earlier get another chance
		for _, it := range emitted {
			if it.kind == "d" {
				continue
			}
			// "already unpacked?" is an lstat of the lexical path, which the OS resolves through links
			if d, st := canon(path.Dir(it.path), false, 0); st == "" {
				full := path.Base(it.path)
				if d != "" {
					full = d + "/" + full
				}
				if _, exists := disk[full]; exists {
					continue
				}
			}
			d, st := canon(path.Dir(it.path), true, 0)
			if st == "dangling" {
				continue // the containment check cannot resolve the parent: the entry is skipped
			}
			if st != "" {
				if it.kind == "f" {
					return nil, true, true // MkdirAll fails: the whole unpacking fails
				}
				continue // link entries: the error is only logged
			}
			full := path.Base(it.path)
			if d != "" {
				full = d + "/" + full
			}
			disk[full] = it.kind
			if it.kind == "f" {
				files[full] = it.data
			} else {
				dest[full] = it.target
			}
		}
	}
	return files, false, true
}

func squashSubsets() []DevSet {
	var out []DevSet
	n := len(AllSquashDeviations)
	for bits := 1; bits <= n; bits++ {
		for m := 1; m < 1<<n; m++ {
			c := 0
			d := DevSet{}
			for i := 0; i < n; i++ {
				if m&(1<<i) != 0 {
					c++
					d[AllSquashDeviations[i]] = true
				}
			}
			if c == bits {
				out = append(out, d)
			}
		}
	}
	return out
}

var allSquashSubsets = squashSubsets()
