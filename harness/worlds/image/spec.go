// Package imgworld is world I: a layer-history model (SimImage/SimLayer implementing
// go-containerregistry's v1.Image/v1.Layer, tar streams generated from the model) driving the
// real image loader (image.FromV1Image / FromTarball), the real chain-layer FS, the real
// unpack.Unpacker and the real Scanner.ScanContainer + trace.PopulateLayerDetails, confined to
// a per-scenario sandbox directory on the real disk.
package imgworld

import (
	"archive/tar"
	"bytes"
	"crypto/sha256"
	"encoding/hex"
	"errors"
	"fmt"
	"io"
	"path"
	"strings"
	"time"

	v1 "github.com/google/go-containerregistry/pkg/v1"
	"github.com/google/go-containerregistry/pkg/v1/empty"
	"github.com/google/go-containerregistry/pkg/v1/mutate"
	"github.com/google/go-containerregistry/pkg/v1/tarball"
	"github.com/google/go-containerregistry/pkg/v1/types"
)

// Entry is one archive member of a layer.
//
// Kind: "f" regular file, "d" directory, "l" symlink, "h" hard link, "w" whiteout of Path
// (emitted as <dir>/.wh.<base>), "o" opaque marker inside directory Path (emitted as
// <Path>/.wh..wh..opq).  Path is a clean relative path ("a/b").  Style spells it in the
// header: "" bare, "dot" ./a/b, "abs" /a/b; "slash" appends a trailing slash (directories).
// Raw, if set, is the literal header name (hostile names of C06) and overrides Path/Style.
type Entry struct {
	Kind   string `json:"k"`
	Path   string `json:"p,omitempty"`
	Style  string `json:"s,omitempty"`
	Slash  bool   `json:"sl,omitempty"`
	Raw    string `json:"raw,omitempty"`
	Target string `json:"t,omitempty"` // literal link target
	Perm   int    `json:"m,omitempty"`
	Dup    bool   `json:"dup,omitempty"` // generator note: a further entry for a path already in the layer
	Data   string `json:"c,omitempty"`   // content; if empty and Size > 0 a filler of Size bytes is generated
	Size   int    `json:"n,omitempty"`
	// overDup (set by effectiveSpec, not part of the scenario): the layer had a further entry for
	// this path which the loader skipped because of the size limit.
	overDup bool
}

// Content returns the bytes of a regular file entry.
func (e *Entry) Content() []byte {
	if e.Data != "" || e.Size == 0 {
		return []byte(e.Data)
	}
	b := make([]byte, e.Size)
	for i := range b {
		b[i] = byte('a' + i%23)
	}
	return b
}

// HeaderName is the name written into the tar header.
func (e *Entry) HeaderName() string {
	if e.Raw != "" {
		return e.Raw
	}
	p := e.Path
	switch e.Kind {
	case "w":
		p = path.Join(path.Dir(p), ".wh."+path.Base(p))
	case "o":
		p = path.Join(p, ".wh..wh..opq")
	}
	switch e.Style {
	case "dot":
		p = "./" + p
	case "abs":
		p = "/" + p
	}
	if e.Slash && e.Kind == "d" {
		p += "/"
	}
	return p
}

func (e *Entry) String() string {
	n := e.HeaderName()
	switch e.Kind {
	case "f":
		return fmt.Sprintf("f %q %do%o", n, len(e.Content()), e.Perm)
	case "d":
		return fmt.Sprintf("d %q o%o", n, e.Perm)
	case "l", "h":
		return fmt.Sprintf("%s %q->%q", e.Kind, n, e.Target)
	}
	return fmt.Sprintf("%s %q", e.Kind, n)
}

// LayerSpec is one non-empty layer: its archive members in stream order and the simulator's
// decisions for the stream (chunking, failure).
type LayerSpec struct {
	Entries []Entry `json:"entries"`
	Chunk   int     `json:"chunk,omitempty"`   // Read returns at most Chunk bytes (0 = as asked)
	FailAt  int     `json:"fail_at,omitempty"` // >0: reader returns an error once FailAt bytes were delivered (v1 path only)
	TruncAt int     `json:"trunc_at,omitempty"`
	// >0: the archive ends after TruncAt bytes
}

// HistEntry is one history entry of the image config.
type HistEntry struct {
	Empty     bool   `json:"empty,omitempty"`
	CreatedBy string `json:"by,omitempty"`
}

// ImageSpec is a layer history.
type ImageSpec struct {
	Layers   []LayerSpec `json:"layers"`
	History  []HistEntry `json:"history,omitempty"`
	NoConfig bool        `json:"no_config,omitempty"` // ConfigFile() fails (v1 path only)
}

func (s *ImageSpec) String() string {
	var sb strings.Builder
	for i, l := range s.Layers {
		fmt.Fprintf(&sb, "L%d[", i)
		for j := range l.Entries {
			if j > 0 {
				sb.WriteString("; ")
			}
			sb.WriteString(l.Entries[j].String())
		}
		sb.WriteString("] ")
	}
	sb.WriteString("hist[")
	for i, h := range s.History {
		if i > 0 {
			sb.WriteString(" ")
		}
		if h.Empty {
			sb.WriteString("E")
		} else {
			sb.WriteString("L")
		}
	}
	sb.WriteString("]")
	if s.NoConfig {
		sb.WriteString(" noconfig")
	}
	return sb.String()
}

// fixedTime is the mtime of every generated archive member (no real clock anywhere).
var fixedTime = time.Unix(1_600_000_000, 0).UTC()

// TarBytes renders the layer as a tar stream.
func (l *LayerSpec) TarBytes() []byte {
	var buf bytes.Buffer
	w := tar.NewWriter(&buf)
	for i := range l.Entries {
		e := &l.Entries[i]
		h := &tar.Header{Name: e.HeaderName(), ModTime: fixedTime, Mode: int64(e.Perm)}
		var body []byte
		switch e.Kind {
		case "f":
			body = e.Content()
			h.Typeflag, h.Size = tar.TypeReg, int64(len(body))
		case "d":
			h.Typeflag = tar.TypeDir
		case "l":
			h.Typeflag, h.Linkname = tar.TypeSymlink, e.Target
		case "h":
			h.Typeflag, h.Linkname = tar.TypeLink, e.Target
		case "w", "o":
			h.Typeflag = tar.TypeReg
			if h.Mode == 0 {
				h.Mode = 0o600
			}
		default:
			continue
		}
		if err := w.WriteHeader(h); err != nil {
			// archive/tar refuses the header (e.g. NUL in a name): the member cannot exist in a tar.
			continue
		}
		w.Write(body)
	}
	w.Close()
	b := buf.Bytes()
	if l.TruncAt > 0 && l.TruncAt < len(b) {
		b = b[:l.TruncAt]
	}
	return b
}

// ---------------------------------------------------------------------------------------
// SimLayer / SimImage

var errInjected = errors.New("sim: injected layer read error")

// SimLayer implements v1.Layer over a generated tar stream.
type SimLayer struct {
	raw    []byte
	chunk  int
	failAt int
	diffID v1.Hash
	Opened int // number of Uncompressed() calls
	Fired  int // number of injected errors delivered
}

func newSimLayer(l *LayerSpec) *SimLayer {
	raw := l.TarBytes()
	sum := sha256.Sum256(raw)
	return &SimLayer{raw: raw, chunk: l.Chunk, failAt: l.FailAt, diffID: v1.Hash{Algorithm: "sha256", Hex: hex.EncodeToString(sum[:])}}
}

type simReader struct {
	l   *SimLayer
	off int
}

func (r *simReader) Read(p []byte) (int, error) {
	if len(p) == 0 {
		return 0, nil
	}
	if r.l.failAt > 0 && r.off >= r.l.failAt {
		r.l.Fired++
		return 0, errInjected
	}
	if r.off >= len(r.l.raw) {
		return 0, io.EOF
	}
	n := len(p)
	if r.l.chunk > 0 && n > r.l.chunk {
		n = r.l.chunk
	}
	if rem := len(r.l.raw) - r.off; n > rem {
		n = rem
	}
	if r.l.failAt > 0 && r.off+n > r.l.failAt {
		n = r.l.failAt - r.off
	}
	copy(p, r.l.raw[r.off:r.off+n])
	r.off += n
	return n, nil
}
func (r *simReader) Close() error { return nil }

func (l *SimLayer) Digest() (v1.Hash, error) { return l.diffID, nil }
func (l *SimLayer) DiffID() (v1.Hash, error) { return l.diffID, nil }
func (l *SimLayer) Compressed() (io.ReadCloser, error) {
	return nil, errors.New("sim: compressed stream not available")
}
func (l *SimLayer) Uncompressed() (io.ReadCloser, error) {
	l.Opened++
	return &simReader{l: l}, nil
}
func (l *SimLayer) Size() (int64, error)                { return int64(len(l.raw)), nil }
func (l *SimLayer) MediaType() (types.MediaType, error) { return types.DockerUncompressedLayer, nil }

// SimImage implements v1.Image: Layers() and ConfigFile() are what the loader and
// mutate.Extract use; the registry-facing methods are not available.
type SimImage struct {
	layers  []*SimLayer
	history []v1.History
	noCfg   bool
}

var errNA = errors.New("sim: not available on a simulated image")

func NewSimImage(s *ImageSpec) *SimImage {
	img := &SimImage{noCfg: s.NoConfig}
	for i := range s.Layers {
		img.layers = append(img.layers, newSimLayer(&s.Layers[i]))
	}
	for _, h := range s.History {
		img.history = append(img.history, v1.History{CreatedBy: h.CreatedBy, EmptyLayer: h.Empty})
	}
	return img
}

func (i *SimImage) Layers() ([]v1.Layer, error) {
	out := make([]v1.Layer, len(i.layers))
	for k, l := range i.layers {
		out[k] = l
	}
	return out, nil
}
func (i *SimImage) MediaType() (types.MediaType, error) { return types.DockerManifestSchema2, nil }
func (i *SimImage) Size() (int64, error)                { return 0, errNA }
func (i *SimImage) ConfigName() (v1.Hash, error)        { return v1.Hash{}, errNA }
func (i *SimImage) ConfigFile() (*v1.ConfigFile, error) {
	if i.noCfg {
		return nil, errNA
	}
	cf := &v1.ConfigFile{History: i.history}
	for _, l := range i.layers {
		cf.RootFS.DiffIDs = append(cf.RootFS.DiffIDs, l.diffID)
	}
	return cf, nil
}
func (i *SimImage) RawConfigFile() ([]byte, error)          { return nil, errNA }
func (i *SimImage) Digest() (v1.Hash, error)                { return v1.Hash{}, errNA }
func (i *SimImage) Manifest() (*v1.Manifest, error)         { return nil, errNA }
func (i *SimImage) RawManifest() ([]byte, error)            { return nil, errNA }
func (i *SimImage) LayerByDigest(v1.Hash) (v1.Layer, error) { return nil, errNA }
func (i *SimImage) LayerByDiffID(h v1.Hash) (v1.Layer, error) {
	for _, l := range i.layers {
		if l.diffID == h {
			return l, nil
		}
	}
	return nil, errNA
}

// DiffIDs returns the hex diff IDs of the layers.
func (i *SimImage) DiffIDs() []string {
	var out []string
	for _, l := range i.layers {
		out = append(out, l.diffID.Hex)
	}
	return out
}

// WriteTarball writes the image as a docker-save tarball with go-containerregistry's real
// mutate/tarball code (used for image.FromTarball).
func WriteTarball(s *ImageSpec, file string) error {
	var adds []mutate.Addendum
	for i := range s.Layers {
		raw := s.Layers[i].TarBytes()
		l, err := tarball.LayerFromOpener(func() (io.ReadCloser, error) { return io.NopCloser(bytes.NewReader(raw)), nil })
		if err != nil {
			return err
		}
		adds = append(adds, mutate.Addendum{Layer: l})
	}
	img, err := mutate.Append(empty.Image, adds...)
	if err != nil {
		return err
	}
	cf, err := img.ConfigFile()
	if err != nil {
		return err
	}
	cf = cf.DeepCopy()
	cf.History = nil
	for _, h := range s.History {
		cf.History = append(cf.History, v1.History{CreatedBy: h.CreatedBy, EmptyLayer: h.Empty})
	}
	img, err = mutate.ConfigFile(img, cf)
	if err != nil {
		return err
	}
	return tarball.WriteToFile(file, simTag, img)
}

// ChainPlan is the statement's history/layer alignment: one element per chain layer; Layer is
// the index of the real layer it adds, or -1 for an empty history entry.
type ChainElem struct {
	Layer   int
	Command string
}

func ChainPlan(s *ImageSpec) []ChainElem {
	nonEmpty := 0
	for _, h := range s.History {
		if !h.Empty {
			nonEmpty++
		}
	}
	var out []ChainElem
	if s.NoConfig || nonEmpty != len(s.Layers) {
		for i := range s.Layers {
			out = append(out, ChainElem{Layer: i})
		}
		return out
	}
	k := 0
	for _, h := range s.History {
		if h.Empty {
			out = append(out, ChainElem{Layer: -1, Command: h.CreatedBy})
		} else {
			out = append(out, ChainElem{Layer: k, Command: h.CreatedBy})
			k++
		}
	}
	return out
}
