package imgworld

import (
	"errors"
	"fmt"
	"io"
	"io/fs"
	"path/filepath"
	"sort"
	"strings"

	"github.com/google/go-containerregistry/pkg/name"
	scalibrimage "github.com/google/osv-scalibr/artifact/image"
	"github.com/google/osv-scalibr/artifact/image/layerscanning/image"
	"github.com/google/osv-scalibr/artifact/image/require"
	scalibrfs "github.com/google/osv-scalibr/fs"
)

var simTag, _ = name.NewTag("sim.invalid/img:latest")

// LoadOpts are the loader's configuration choices.
type LoadOpts struct {
	MaxFileBytes int64    `json:"max_file_bytes,omitempty"` // 0 = far above all sizes
	Requirer     string   `json:"requirer,omitempty"`       // "" / "all" | "none" | "paths"
	Paths        []string `json:"paths,omitempty"`
	Via          string   `json:"via,omitempty"` // "" / "v1" = FromV1Image(SimImage) | "tarball" = FromTarball(real docker-save tarball)
}

func (o LoadOpts) config() *image.Config {
	c := image.DefaultConfig()
	if o.MaxFileBytes > 0 {
		c.MaxFileBytes = o.MaxFileBytes
	}
	switch o.Requirer {
	case "none":
		c.Requirer = &require.FileRequirerNone{}
	case "paths":
		c.Requirer = require.NewFileRequirerPaths(o.Paths)
	}
	return c
}

// Load runs the real loader on the simulated image.
func Load(sb *Sandbox, spec *ImageSpec, o LoadOpts) (*image.Image, *SimImage, error) {
	sim := NewSimImage(spec)
	if o.Via == "tarball" {
		p := filepath.Join(sb.Inputs, "image.tar")
		if err := WriteTarball(spec, p); err != nil {
			return nil, sim, fmt.Errorf("harness: cannot write tarball: %w", err)
		}
		img, err := image.FromTarball(p, o.config())
		return img, sim, err
	}
	img, err := image.FromV1Image(sim, o.config())
	return img, sim, err
}

// NodeObs is what one path looks like in one view.
type NodeObs struct {
	Type string `json:"t"` // "f" | "d" | "l" | "?" | "" (absent)
	Perm uint32 `json:"m,omitempty"`
	Size int64  `json:"n,omitempty"`
	Data string `json:"c,omitempty"` // content of a regular file
	Err  string `json:"e,omitempty"` // "notexist" | other error text class
}

func (n NodeObs) String() string {
	switch n.Type {
	case "":
		return "absent(" + n.Err + ")"
	case "f":
		return fmt.Sprintf("file o%o %dB %q", n.Perm, n.Size, n.Data)
	}
	return fmt.Sprintf("%s o%o", n.Type, n.Perm)
}

func typeOf(m fs.FileMode) string {
	switch {
	case m&fs.ModeSymlink != 0:
		return "l"
	case m.IsDir():
		return "d"
	case m&fs.ModeType == 0:
		return "f"
	}
	return "?"
}

// ViewObs is everything observed of one chain-layer view.
type ViewObs struct {
	Walk map[string]NodeObs `json:"walk"` // recursive ReadDir from "." (entries themselves, links not followed)
	Look map[string]NodeObs `json:"look"` // direct Stat / Open+ReadAll of every probe path (final link followed)
	Errs []string           `json:"errs,omitempty"`
}

func readAll(fsys scalibrfs.FS, p string) (string, error) {
	f, err := fsys.Open(p)
	if err != nil {
		return "", err
	}
	defer f.Close()
	b, err := io.ReadAll(io.LimitReader(f, 1<<20))
	return string(b), err
}

func errClass(err error) string {
	if errors.Is(err, fs.ErrNotExist) {
		return "notexist"
	}
	s := err.Error()
	if i := strings.LastIndex(s, ": "); i >= 0 {
		s = s[i+2:]
	}
	return "error:" + s
}

// ObserveView walks the view and probes every path by direct lookup.
func ObserveView(fsys scalibrfs.FS, probes []string) *ViewObs {
	v := &ViewObs{Walk: map[string]NodeObs{}, Look: map[string]NodeObs{}}
	var walk func(dir string, depth int)
	walk = func(dir string, depth int) {
		ents, err := fsys.ReadDir(dir)
		if err != nil {
			v.Errs = append(v.Errs, "readdir "+dir+": "+errClass(err))
			return
		}
		for _, d := range ents {
			p := d.Name()
			if dir != "." {
				p = dir + "/" + d.Name()
			}
			n := NodeObs{Type: typeOf(d.Type())}
			if info, err := d.Info(); err == nil {
				n.Perm = tarModeBits(info.Mode())
				if n.Type == "f" {
					n.Size = info.Size()
				}
			} else {
				n.Err = "info:" + errClass(err)
			}
			if n.Type == "f" {
				data, err := readAll(fsys, p)
				n.Data = data
				if err != nil {
					n.Err = "read:" + errClass(err)
				}
			}
			if _, dup := v.Walk[p]; dup {
				v.Errs = append(v.Errs, "listed twice: "+p)
			}
			v.Walk[p] = n
			if n.Type == "d" && depth < 12 {
				walk(p, depth+1)
			}
		}
	}
	walk(".", 0)
	for _, p := range probes {
		info, err := fsys.Stat(p)
		if err != nil {
			n := NodeObs{Err: errClass(err)}
			if f, oerr := fsys.Open(p); oerr == nil {
				// Open hands out the node; whether it is usable shows on Stat of the handle
				if _, serr := f.Stat(); serr == nil {
					n.Err += "+open-ok"
				}
				f.Close()
			}
			v.Look[p] = n
			continue
		}
		n := NodeObs{Type: typeOf(info.Mode()), Perm: tarModeBits(info.Mode())}
		if n.Type == "f" {
			n.Size = info.Size()
			data, err := readAll(fsys, p)
			n.Data = data
			if err != nil {
				n.Err = "read:" + errClass(err)
			}
		}
		v.Look[p] = n
	}
	sort.Strings(v.Errs)
	return v
}

// ObserveImage observes every chain-layer view.
func ObserveImage(img *image.Image, probes []string) ([]*ViewObs, []scalibrimage.ChainLayer) {
	cls, _ := img.ChainLayers()
	var out []*ViewObs
	for _, cl := range cls {
		out = append(out, ObserveView(cl.FS(), probes))
	}
	return out, cls
}

// tarModeBits renders the permission and setuid/setgid/sticky bits of m the way a tar header
// spells them (0o4000 / 0o2000 / 0o1000 above the nine permission bits).
func tarModeBits(m fs.FileMode) uint32 {
	b := uint32(m.Perm())
	if m&fs.ModeSetuid != 0 {
		b |= 0o4000
	}
	if m&fs.ModeSetgid != 0 {
		b |= 0o2000
	}
	if m&fs.ModeSticky != 0 {
		b |= 0o1000
	}
	return b
}
