package imgworld

import (
	"context"
	"encoding/json"
	"fmt"
	"path/filepath"
	"strings"
	"testing"

	scalibr "github.com/google/osv-scalibr"
	"github.com/google/osv-scalibr/extractor/filesystem"
	scalibrfs "github.com/google/osv-scalibr/fs"
	"github.com/google/osv-scalibr/plugin"
	"github.com/google/osv-scalibr/stats"
	"pgregory.net/rapid"
	"verif/sim"
)

// C10 (image half) - the per-file byte limit of an image load is a hard bound.
type C10 struct{}

// C10Scenario is one image plus the limit.
//
// Mode "" / "load": MaxFileBytes = L for the image load.  Mode "scan": the image is loaded with
// the default byte limit and scanned with Scanner.ScanContainer and MaxFileSize = L; a harness
// extractor records every file it is handed, during the main scan and during layer tracing.
type C10Scenario struct {
	Mode         string `json:"mode,omitempty"`
	ReadSymlinks bool   `json:"read_symlinks,omitempty"`
	// Deadline: the cancellations arrive the way an expired deadline does (context.DeadlineExceeded)
	Deadline bool `json:"deadline,omitempty"`
	// Inodes: "" | "V-1" | "V" | "V+1" | "2V": MaxInodes for one more container scan, relative to the
	// number V of inodes a scan of the final view visits.
	Inodes string `json:"inodes,omitempty"`
	// Cancels (replay narrowing): only these cancellation instants; empty = every Extract call.
	Cancels []int     `json:"cancels,omitempty"`
	L       int64     `json:"limit"`
	Image   ImageSpec `json:"image"`
	Via     string    `json:"via,omitempty"`
}

func (C10) ID() string { return "C10" }
func (C10) Rule() string {
	return "(image) MaxFileBytes = L in {1,7,512}; 1-4 layers (empty history entries interleaved, broken histories included) whose archives hold regular files of size L-1, L, L+1, 2L (and a few unrelated sizes) over <=6 paths, rewritten across layers and now and then twice within one archive, seeded stream chunking; loaded with the real FromV1Image (simulated v1.Image) or FromTarball (real docker-save tarball); evaluation = one image load + observation of every chain-layer view (recursive walk and direct Stat/Open of every path) + snapshot of ExtractDir while the image is alive; non-trivial = the image holds at least one file of size >= L and one below. Container-scan configuration (1 in 3 scenarios): 2-5 layers rewriting 1-2 package-list files with 0-7 nine-byte lines each (deleted / re-created in between) so that the size of a path crosses MaxFileSize = L in {15, 30, 45} between layers; real Scanner.ScanContainer (main scan + trace.PopulateLayerDetails re-running filesystem.Run on older views) optionally a symlink to a list file that the extractor requires too and ReadSymlinks (3 in 4); a harness extractor records Info.Size() and the bytes it could read for EVERY file it is handed; then cancel() is delivered from inside the k-th Extract call for EVERY k of the fault-free run (main scan and tracing phase; in 1 of 3 scenarios the context ends the way an expired deadline does): no Extract call may start afterwards, and the scan must not report success when extractions of the fault-free run remained; 5 in 6 scenarios add a container scan with MaxInodes in {V-1, V, V+1, 2V} (V = inodes a scan of the final view visits) and a stats collector counting AfterInodeVisited over the whole ScanContainer (main scan + every tracing re-extraction): the count stays within MaxInodes and a final view with more inodes than the limit gives FAILED; non-trivial = a path is within the limit in the final view and above it in an earlier view, or work remained after a cancellation instant; distinct = distinct scenario JSON"
}

var c10Paths = []string{"a", "b", "d/a", "d/b", "d/e/a", "x"}

var c10ScanFiles = []string{"var/lib/db/status", "etc/pkgs"}

// c10ScanLink is a symlink to one of the list files which the extractor requires too.
const c10ScanLink = "etc/alt/pkgs.link"

func genC10Scan(rt *rapid.T) *C10Scenario {
	sc := &C10Scenario{Mode: "scan", L: rapid.SampledFrom([]int64{15, 30, 45}).Draw(rt, "L"), Via: "v1"}
	nl := rapid.IntRange(2, 5).Draw(rt, "layers")
	nf := rapid.IntRange(1, 2).Draw(rt, "nfiles")
	exists := map[string]bool{}
	for i := 0; i < nl; i++ {
		var l LayerSpec
		for _, f := range c10ScanFiles[:nf] {
			act := rapid.SampledFrom([]string{"none", "write", "write", "write", "delete"}).Draw(rt, "act")
			if i == 0 {
				act = "write"
			}
			switch {
			case act == "write":
				n := rapid.IntRange(0, 7).Draw(rt, "lines")
				var pk []string
				for j := 0; j < n; j++ {
					pk = append(pk, fmt.Sprintf("p%d 1.2.%d", j, rapid.IntRange(3, 4).Draw(rt, "ver")))
				}
				l.Entries = append(l.Entries, Entry{Kind: "f", Path: f, Perm: 0o644, Data: renderPkgs(pk)})
				exists[f] = true
			case act == "delete" && exists[f]:
				l.Entries = append(l.Entries, Entry{Kind: "w", Path: f})
				exists[f] = false
			}
		}
		if rapid.IntRange(0, 3).Draw(rt, "link") == 0 {
			t := rapid.SampledFrom(c10ScanFiles[:nf]).Draw(rt, "link.target")
			e := Entry{Kind: "l", Path: c10ScanLink, Perm: 0o777, Target: "/" + t}
			if rapid.Bool().Draw(rt, "link.relative") {
				e.Target = relTarget(c10ScanLink, t)
			}
			l.Entries = append(l.Entries, e)
		}
		l.Entries = append(l.Entries, Entry{Kind: "f", Path: fmt.Sprintf("layer-%d", i), Perm: 0o644, Data: fmt.Sprintf("%d\n", i)})
		l.Chunk = genChunk(rt, "chunk")
		sc.Image.Layers = append(sc.Image.Layers, l)
	}
	genHistory(rt, &sc.Image, nl, true)
	sc.ReadSymlinks = rapid.IntRange(0, 3).Draw(rt, "read_symlinks") > 0
	sc.Deadline = rapid.IntRange(0, 2).Draw(rt, "deadline") == 0
	sc.Inodes = rapid.SampledFrom([]string{"", "V-1", "V", "V", "V+1", "2V"}).Draw(rt, "inodes")
	return sc
}

func (C10) Gen(rt *rapid.T, tier string) any {
	if rapid.IntRange(0, 2).Draw(rt, "mode") == 0 {
		return genC10Scan(rt)
	}
	sc := &C10Scenario{L: rapid.SampledFrom([]int64{1, 7, 512}).Draw(rt, "L")}
	sc.Via = rapid.SampledFrom([]string{"v1", "v1", "v1", "tarball"}).Draw(rt, "via")
	nl := rapid.IntRange(1, 4).Draw(rt, "layers")
	sizes := []int64{sc.L - 1, sc.L, sc.L + 1, 2 * sc.L, sc.L - 1, sc.L, sc.L + 1, 0, 3}
	for i := 0; i < nl; i++ {
		var l LayerSpec
		ne := rapid.IntRange(1, 4).Draw(rt, "entries")
		used := map[string]bool{}
		for j := 0; j < ne; j++ {
			p := rapid.SampledFrom(c10Paths).Draw(rt, "path")
			// the same path twice in one archive is legal (the later entry wins); 1 in 4
			if used[p] && rapid.IntRange(0, 3).Draw(rt, "dup") != 3 {
				continue
			}
			used[p] = true
			sz := rapid.SampledFrom(sizes).Draw(rt, "size")
			e := Entry{Kind: "f", Path: p, Perm: 0o644, Size: int(sz),
				Style: rapid.SampledFrom([]string{"", "", "dot"}).Draw(rt, "style")}
			if rapid.IntRange(0, 5).Draw(rt, "whiteout_named") == 0 {
				// a regular entry NAMED like a whiteout that carries content
				e = Entry{Kind: "f", Raw: whiteoutSpelling(p), Perm: 0o644, Size: int(sz)}
			}
			l.Entries = append(l.Entries, e)
		}
		l.Chunk = genChunk(rt, "chunk")
		sc.Image.Layers = append(sc.Image.Layers, l)
	}
	genHistory(rt, &sc.Image, nl, sc.Via == "v1")
	return sc
}

func (C10) Decode(raw json.RawMessage) (any, error) {
	var s C10Scenario
	err := json.Unmarshal(raw, &s)
	return &s, err
}

func (C10) Run(t *testing.T, scAny any) *sim.Outcome {
	sc := scAny.(*C10Scenario)
	out := &sim.Outcome{Executions: 1}
	out.Sample = fmt.Sprintf("mode=%s L=%d via=%s %s", sc.Mode, sc.L, sc.Via, sc.Image.String())
	if sc.L <= 0 || len(sc.Image.Layers) == 0 {
		return out
	}
	if sc.Mode == "scan" {
		return runC10Scan(sc, out)
	}
	sb, err := NewSandbox()
	if err != nil {
		panic("harness: sandbox: " + err.Error())
	}
	defer sb.Close()
	var over, under int
	probeSet := map[string]bool{}
	for _, l := range sc.Image.Layers {
		for i := range l.Entries {
			e := &l.Entries[i]
			if e.Kind != "f" {
				continue
			}
			if e.Raw != "" {
				probeSet[e.Raw] = true
				if len(e.Content()) > 0 {
					out.Count("whiteout_named_entries_with_content", 1)
				}
				continue
			}
			probeSet[e.Path] = true
			if int64(len(e.Content())) >= sc.L {
				over++
			} else {
				under++
			}
		}
	}
	out.Nontrivial = over > 0 && under > 0
	out.Count("files_at_or_over_limit", int64(over))
	ctxs := out.Sample.(string)

	img, _, err := Load(sb, &sc.Image, LoadOpts{MaxFileBytes: sc.L, Via: sc.Via})
	if err != nil {
		if strings.HasPrefix(err.Error(), "harness:") {
			panic(err.Error())
		}
		out.Violate("load-failed", "load-failed:size-limit", "loading failed although only the size limit was in play: %v; %s", err, ctxs)
		return out
	}
	defer img.CleanUp()
	views, _ := ObserveImage(img, sortedKeys(probeSet))
	out.HistoryFP = sim.FP(views)
	for i, v := range views {
		for _, src := range []struct {
			name string
			m    map[string]NodeObs
		}{{"walk", v.Walk}, {"lookup", v.Look}} {
			for _, p := range sortedKeys(src.m) {
				n := src.m[p]
				if n.Type != "f" {
					continue
				}
				if n.Size >= sc.L || int64(len(n.Data)) >= sc.L {
					rel := "above"
					if n.Size == sc.L || (n.Size < sc.L && int64(len(n.Data)) == sc.L) {
						rel = "at"
					}
					out.Violate("oversize-exposed", "oversize-exposed:"+rel+"-limit", "view %d exposes %s (by %s) with size %d / %d readable bytes, limit %d; %s", i, p, src.name, n.Size, len(n.Data), sc.L, ctxs)
				}
			}
		}
	}
	// ExtractDir while the image is alive: nothing larger than L bytes was written.
	if rel, err := filepath.Rel(sb.Root, img.ExtractDir); err != nil || !strings.HasPrefix(rel, "tmp/") {
		out.Violate("extractdir-outside-tmp", "extractdir-outside-tmp", "ExtractDir %q is not under TMPDIR %q", img.ExtractDir, sb.Tmp)
	}
	snap := SnapshotDir(img.ExtractDir)
	for _, p := range sortedKeys(snap) {
		if e := snap[p]; e.Type == "file" && e.Size > sc.L {
			out.Violate("oversize-on-disk", "oversize-on-disk", "ExtractDir holds %s with %d bytes, limit %d; %s", p, e.Size, sc.L, ctxs)
		}
	}
	return out
}

// runC10Scan: ScanContainer with MaxFileSize = L never hands a larger file to an extractor,
// neither in the main scan nor while tracing layers; and once the scan context is cancelled
// (from inside the k-th Extract call, for EVERY k of the fault-free run) no extraction on
// another file or view starts.
func runC10Scan(sc *C10Scenario, out *sim.Outcome) *sim.Outcome {
	ctxs := out.Sample.(string)
	sb, err := NewSandbox()
	if err != nil {
		panic("harness: sandbox: " + err.Error())
	}
	defer sb.Close()
	img, _, err := Load(sb, &sc.Image, LoadOpts{Via: sc.Via})
	if err != nil {
		out.Violate("load-failed", "load-failed:scan-config", "loading a well-formed image failed: %v; %s", err, ctxs)
		return out
	}
	defer img.CleanUp()
	required := append(append([]string(nil), c10ScanFiles...), c10ScanLink)
	var lastAttribution string
	scan := func(cancelAt int) ([]extractRec, bool) {
		var recs []extractRec
		ctx, cancel := cancellable(sc.Deadline)
		defer cancel()
		x := &listExtractor{spec: &ListExtSpec{Name: "list/rec", PurlType: "generic", Files: required}, rec: &recs}
		if cancelAt > 0 {
			x.onExtract = func(n int) {
				if n == cancelAt {
					cancel()
				}
			}
		}
		res, err := scalibr.New().ScanContainer(ctx, img, &scalibr.ScanConfig{
			FilesystemExtractors: []filesystem.Extractor{x}, MaxFileSize: int(sc.L), ReadSymlinks: sc.ReadSymlinks})
		ok := err == nil && res.Status != nil && res.Status.Status == plugin.ScanStatusSucceeded
		var attr []string
		if res != nil {
			for _, p := range res.Inventory.Packages {
				if p.LayerDetails != nil {
					attr = append(attr, fmt.Sprintf("%s@%s:%d", p.Name, p.Version, p.LayerDetails.Index))
				}
			}
		}
		lastAttribution = strings.Join(attr, " ")
		return recs, ok
	}
	recs, ok := scan(0)
	if !ok {
		out.Violate("scan-failed", "scan-failed", "ScanContainer failed; %s", ctxs)
		return out
	}
	chain, _ := img.ChainLayers()
	last := len(chain) - 1
	sizeIn := func(i int, p string) int64 {
		st, err := chain[i].FS().Stat(p)
		if err != nil || !st.Mode().IsRegular() {
			return -1
		}
		return st.Size()
	}
	for _, f := range required {
		if fin := sizeIn(last, f); fin >= 0 && fin <= sc.L {
			for i := 0; i < last; i++ {
				if sizeIn(i, f) > sc.L {
					out.Nontrivial = true
					out.Count("probe_size_crosses_limit_between_layers", 1)
					break
				}
			}
		}
	}
	if sc.ReadSymlinks {
		if _, err := chain[last].FS().Stat(c10ScanLink); err == nil {
			out.Count("probe_required_symlink_in_final_view", 1)
		}
	}
	var hist []string
	checkSizes := func(recs []extractRec, tag string) {
		for _, r := range recs {
			hist = append(hist, fmt.Sprintf("%s %s %d %d", tag, r.Path, r.InfoSize, r.Bytes))
			if r.InfoSize > sc.L || int64(r.Bytes) > sc.L {
				where := "final-view-also-over-limit"
				if fin := sizeIn(last, r.Path); fin <= sc.L {
					where = "older-view-during-layer-tracing"
				}
				if r.Path == c10ScanLink {
					where = "through-symlink"
				}
				out.Violate("oversize-extract", "oversize-extract:"+where, "an extractor was handed %s with Info.Size()=%d / %d readable bytes although MaxFileSize=%d (size in the final view: %d); %s",
					r.Path, r.InfoSize, r.Bytes, sc.L, sizeIn(last, r.Path), ctxs)
			}
		}
	}
	checkSizes(recs, "free")
	out.Count("extract_calls", int64(len(recs)))

	// inode limit: counted over the WHOLE container scan (main scan + every tracing re-extraction)
	if sc.Inodes != "" {
		mk := func() *listExtractor {
			return &listExtractor{spec: &ListExtSpec{Name: "list/rec", PurlType: "generic", Files: required}}
		}
		count := func(container bool, maxInodes int) (int, bool) {
			col := &inodeCounter{}
			cfg := &scalibr.ScanConfig{FilesystemExtractors: []filesystem.Extractor{mk()}, ReadSymlinks: sc.ReadSymlinks, MaxInodes: maxInodes, Stats: col}
			var res *scalibr.ScanResult
			var err error
			if container {
				res, err = scalibr.New().ScanContainer(context.Background(), img, cfg)
			} else {
				cfg.ScanRoots = []*scalibrfs.ScanRoot{{FS: chain[last].FS()}}
				res = scalibr.New().Scan(context.Background(), cfg)
			}
			return col.n, err == nil && res != nil && res.Status != nil && res.Status.Status == plugin.ScanStatusSucceeded
		}
		V, _ := count(false, 0)
		limit := map[string]int{"V-1": V - 1, "V": V, "V+1": V + 1, "2V": 2 * V}[sc.Inodes]
		if limit > 0 {
			out.Executions += 2
			mainN, _ := count(false, limit)
			total, ok := count(true, limit)
			hist = append(hist, fmt.Sprintf("inodes V=%d limit=%d main=%d total=%d ok=%v", V, limit, mainN, total, ok))
			out.Count("inode_limit_container_scans", 1)
			if total > limit {
				where := "across-tracing-re-extractions"
				if mainN > limit {
					where = "main-scan"
				}
				out.Violate("inode-limit-exceeded", "inode-limit-exceeded:"+where, "MaxInodes=%d but the container scan processed %d inodes (a scan of the final view alone: %d without limit, %d with it); reported success: %v; %s", limit, total, V, mainN, ok, ctxs)
			}
			if V > limit && ok {
				out.Violate("inode-limit-not-reported", "inode-limit-not-reported", "the final view holds %d inodes, MaxInodes=%d, yet ScanContainer reports SUCCEEDED; %s", V, limit, ctxs)
			}
		}
	}

	// cancellation at every Extract call of the fault-free run
	n := len(recs)
	freeAttribution := lastAttribution
	// the main scan extracts every path once; the first repeated path starts the tracing phase
	nMain := 0
	seenPath := map[string]bool{}
	for _, r := range recs {
		if seenPath[r.Path] {
			break
		}
		seenPath[r.Path] = true
		nMain++
	}
	ks := sc.Cancels
	if len(ks) == 0 {
		for k := 1; k <= n && k <= 12; k++ {
			ks = append(ks, k)
		}
	}
	for _, k := range ks {
		if k < 1 || k > n {
			continue
		}
		out.Executions++
		out.Count("fault_planned_cancel_in_extract", 1)
		crecs, cok := scan(k)
		if cok && k < n && len(crecs) >= k {
			phase := "main-scan"
			if k >= nMain {
				phase = "layer-tracing"
			}
			out.Violate("cancel-not-reported", "cancel-not-reported:"+phase, "the scan context was cancelled inside Extract call %d of %d (the main scan makes %d of them); the remaining extractions did not happen, yet ScanContainer reports SUCCEEDED and no error; layer attribution with the cancellation [%s], without it [%s]; %s",
				k, n, nMain, lastAttribution, freeAttribution, ctxs)
		}
		if len(crecs) >= k {
			out.Count("fault_fired_cancel_in_extract", 1)
		}
		if k < n {
			out.Nontrivial = true
		}
		checkSizes(crecs, fmt.Sprintf("cancel@%d", k))
		for j := k; j < len(crecs); j++ {
			r := crecs[j]
			kind := "cancelled-context"
			if !r.CtxErr {
				kind = "live-context"
			}
			if out.ReplayScenario == nil {
				narrowed := *sc
				narrowed.Cancels = []int{k}
				out.ReplayScenario = &narrowed
			}
			out.Violate("post-cancel-extract", "post-cancel-extract:"+kind, "the scan context was cancelled inside Extract call %d (%s), yet Extract call %d started afterwards on %s (the context it was given was %s; %d calls in the fault-free run); %s",
				k, crecs[k-1].Path, j+1, r.Path, kind, n, ctxs)
			break
		}
	}
	out.HistoryFP = sim.FP(hist)
	dedupeByKey(out)
	return out
}

// inodeCounter counts the inodes the engine reports as visited.
type inodeCounter struct {
	stats.NoopCollector
	n int
}

func (c *inodeCounter) AfterInodeVisited(string) { c.n++ }
