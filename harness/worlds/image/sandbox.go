package imgworld

import (
	"crypto/sha256"
	"encoding/hex"
	"fmt"
	"io/fs"
	"os"
	"path/filepath"
	"sort"
	"strings"
)

// Sandbox is the per-scenario "durable state": a directory on the real disk holding the unpack
// target, decoy siblings whose names share a string prefix with the target, an unrelated
// outside directory, the process's working directory, its TMPDIR and the harness's own inputs.
// Runs are serial inside a worker process, so attribution of changes is exact.
type Sandbox struct {
	Jail    string // Root lies nestDepth levels below Jail; the whole jail is snapshotted
	Root    string
	Target  string
	Tmp     string
	Cwd     string
	Inputs  string
	oldCwd  string
	oldTmp  string
	hadTmp  bool
	entered bool
}

var sandboxSeq int

// nestDepth: every upward step of an escaping path needs one ".." token in an entry name or a
// link target, scenarios carry at most maxDotDot of them, so nothing can climb out of the jail.
const (
	nestDepth = 8
	maxDotDot = 7
)

// decoys are created next to the target before the run (relative to the sandbox root).
var sandboxDirs = []string{"target", "target-evil", "targetX", "outside", "outside/keep", "outside/empty", "sub", "cwd", "tmp", "inputs"}
var sandboxFiles = map[string]string{
	"target-evil/keep.txt":  "decoy\n",
	"targetX/keep.txt":      "decoy\n",
	"outside/keep/keep.txt": "outside\n",
	"outside/victim.txt":    "victim\n",
	"sub/keep.txt":          "keep\n",
	"cwd/keep.txt":          "cwd\n",
	"victim.txt":            "root victim\n",
}

// NewSandbox creates the sandbox under $VERIF_SCRATCH, chdirs into sandbox/cwd and points
// TMPDIR at sandbox/tmp.
func NewSandbox() (*Sandbox, error) {
	base := os.Getenv("VERIF_SCRATCH")
	if base == "" {
		cache := os.Getenv("XDG_CACHE_HOME")
		if cache == "" {
			cache = filepath.Join(os.Getenv("HOME"), ".cache")
		}
		base = filepath.Join(cache, "verif-scratch", fmt.Sprintf("image-%d", os.Getpid()))
	}
	if err := os.MkdirAll(base, 0o755); err != nil {
		return nil, err
	}
	base, err := filepath.EvalSymlinks(base)
	if err != nil {
		return nil, err
	}
	sandboxSeq++
	jail := filepath.Join(base, fmt.Sprintf("sb%d", sandboxSeq))
	os.RemoveAll(jail)
	root := jail
	for i := 0; i < nestDepth; i++ {
		root = filepath.Join(root, "n")
	}
	sb := &Sandbox{Jail: jail, Root: root, Target: filepath.Join(root, "target"), Tmp: filepath.Join(root, "tmp"),
		Cwd: filepath.Join(root, "cwd"), Inputs: filepath.Join(root, "inputs")}
	for _, d := range sandboxDirs {
		if err := os.MkdirAll(filepath.Join(root, d), 0o755); err != nil {
			return nil, err
		}
	}
	for _, f := range sortedKeys(sandboxFiles) {
		if err := os.WriteFile(filepath.Join(root, f), []byte(sandboxFiles[f]), 0o644); err != nil {
			return nil, err
		}
	}
	sb.oldCwd, _ = os.Getwd()
	sb.oldTmp, sb.hadTmp = os.LookupEnv("TMPDIR")
	if err := os.Chdir(sb.Cwd); err != nil {
		return nil, err
	}
	os.Setenv("TMPDIR", sb.Tmp)
	sb.entered = true
	return sb, nil
}

// Close restores cwd/TMPDIR and removes the sandbox.
func (sb *Sandbox) Close() {
	if sb.entered {
		os.Chdir(sb.oldCwd)
		if sb.hadTmp {
			os.Setenv("TMPDIR", sb.oldTmp)
		} else {
			os.Unsetenv("TMPDIR")
		}
	}
	// directories may have been created without write permission
	filepath.WalkDir(sb.Jail, func(p string, d fs.DirEntry, err error) error {
		if err == nil && d.IsDir() {
			os.Chmod(p, 0o755)
		}
		return nil
	})
	os.RemoveAll(sb.Jail)
}

// SnapEntry is one node of a recursive snapshot.
type SnapEntry struct {
	Type string // "dir" | "file" | "link" | "other"
	Link string
	Size int64
	Perm fs.FileMode
	Sum  string
}

func (e SnapEntry) String() string {
	switch e.Type {
	case "file":
		return fmt.Sprintf("file %dB o%o %s", e.Size, e.Perm, e.Sum)
	case "link":
		return "link->" + e.Link
	}
	return fmt.Sprintf("%s o%o", e.Type, e.Perm)
}

// Snapshot maps sandbox-relative paths to their state (lstat, link target, size, mode, hash).
type Snapshot map[string]SnapEntry

// Snapshot covers the whole jail; keys are relative to Root, nodes above Root are "^/...".
func (sb *Sandbox) Snapshot() Snapshot {
	raw := SnapshotDir(sb.Jail)
	pre := strings.Repeat("n/", nestDepth)
	out := Snapshot{}
	for k, v := range raw {
		switch {
		case k+"/" == pre:
			out["."] = v
		case strings.HasPrefix(k, pre):
			out[k[len(pre):]] = v
		default:
			out["^/"+k] = v
		}
	}
	return out
}

// SnapshotDir snapshots the tree below root (root itself is ".").
func SnapshotDir(root string) Snapshot {
	snap := Snapshot{}
	var walk func(abs, rel string)
	walk = func(abs, rel string) {
		fi, err := os.Lstat(abs)
		if err != nil {
			return
		}
		e := SnapEntry{Perm: fi.Mode().Perm()}
		switch {
		case fi.Mode()&fs.ModeSymlink != 0:
			e.Type = "link"
			e.Link, _ = os.Readlink(abs)
			e.Perm = 0
		case fi.IsDir():
			e.Type = "dir"
		case fi.Mode().IsRegular():
			e.Type = "file"
			e.Size = fi.Size()
			if b, err := os.ReadFile(abs); err == nil {
				h := sha256.Sum256(b)
				e.Sum = hex.EncodeToString(h[:6])
			} else {
				e.Sum = "unreadable"
			}
		default:
			e.Type = "other"
		}
		snap[rel] = e
		if e.Type == "dir" {
			ents, err := os.ReadDir(abs)
			if err != nil {
				return
			}
			for _, c := range ents {
				r := c.Name()
				if rel != "." {
					r = rel + "/" + c.Name()
				}
				walk(filepath.Join(abs, c.Name()), r)
			}
		}
	}
	walk(root, ".")
	return snap
}

// Change is one difference between two snapshots.
type Change struct {
	Path string
	Op   string // "created" | "removed" | "changed"
	Type string // type of the new (or removed) node
	Desc string
}

// Diff lists the differences outside the allowed sub-trees (sandbox-relative prefixes).
func Diff(before, after Snapshot, allowed ...string) []Change {
	ok := func(p string) bool {
		for _, a := range allowed {
			if a != "" && (p == a || strings.HasPrefix(p, a+"/")) {
				return true
			}
		}
		return false
	}
	var out []Change
	for _, p := range sortedKeys(after) {
		if ok(p) {
			continue
		}
		b, had := before[p]
		a := after[p]
		if !had {
			out = append(out, Change{Path: p, Op: "created", Type: a.Type, Desc: a.String()})
		} else if a != b {
			out = append(out, Change{Path: p, Op: "changed", Type: a.Type, Desc: b.String() + " => " + a.String()})
		}
	}
	for _, p := range sortedKeys(before) {
		if ok(p) {
			continue
		}
		if _, still := after[p]; !still {
			out = append(out, Change{Path: p, Op: "removed", Type: before[p].Type, Desc: before[p].String()})
		}
	}
	sort.Slice(out, func(i, j int) bool { return out[i].Path < out[j].Path })
	return out
}

// Abs maps a snapshot key back to an absolute path.
func (sb *Sandbox) Abs(rel string) string {
	if strings.HasPrefix(rel, "^/") {
		return filepath.Join(sb.Jail, rel[2:])
	}
	return filepath.Join(sb.Root, rel)
}

// Area names the part of the sandbox a relative path lies in: the target, a decoy sibling whose
// name has the target's name as a string prefix, TMPDIR, the working directory, the harness's
// inputs, or elsewhere (outside/, sub/, the sandbox root, the levels above it).
func Area(rel string) string {
	first := rel
	if i := strings.IndexByte(rel, '/'); i >= 0 {
		first = rel[:i]
	}
	switch first {
	case "target":
		return "target"
	case "target-evil", "targetX":
		return "decoy"
	case "tmp", "cwd", "inputs":
		return first
	}
	return "elsewhere"
}

func sortedKeys[V any](m map[string]V) []string {
	ks := make([]string, 0, len(m))
	for k := range m {
		ks = append(ks, k)
	}
	sort.Strings(ks)
	return ks
}
