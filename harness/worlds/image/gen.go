package imgworld

import (
	"context"
	"fmt"
	"sync"

	"pgregory.net/rapid"
)

// genHistory draws the config history for n real layers: valid (0-3 empty entries in any
// arrangement), missing, or inconsistent with the layer count.
func genHistory(rt *rapid.T, spec *ImageSpec, n int, allowBroken bool) {
	mode := rapid.SampledFrom([]string{"valid", "valid", "valid", "valid", "valid", "missing", "short", "long", "noconfig"}).Draw(rt, "hist.mode")
	if !allowBroken {
		mode = "valid"
	}
	// build commands as builders write them: synthetic, BuildKit style, and the legacy builder's
	// "#(nop)" form - which it uses for metadata-only entries AND for ADD/COPY, which create a layer
	style := rapid.SampledFrom([]string{"plain", "plain", "buildkit", "legacy", "mixed"}).Draw(rt, "hist.cmdstyle")
	cmd := func(i int) string {
		st := style
		if st == "mixed" {
			st = []string{"plain", "buildkit", "legacy"}[i%3]
		}
		switch st {
		case "buildkit":
			return fmt.Sprintf("COPY ./f%d /f%d # buildkit", i, i)
		case "legacy":
			return fmt.Sprintf("/bin/sh -c #(nop) ADD file:%04x in / ", i)
		}
		return fmt.Sprintf("cmd-%d", i)
	}
	switch mode {
	case "missing":
		return
	case "noconfig":
		spec.NoConfig = true
		return
	}
	nEmpty := rapid.SampledFrom([]int{0, 0, 1, 1, 2, 3}).Draw(rt, "hist.empties")
	// positions of the empty entries among the n+nEmpty slots
	total := n + nEmpty
	if total == 0 {
		return // no layers and no history entries at all (what empty.Image is)
	}
	isEmpty := make([]bool, total)
	for e := 0; e < nEmpty; e++ {
		pos := rapid.IntRange(0, total-1).Draw(rt, "hist.emptypos")
		for isEmpty[pos] {
			pos = (pos + 1) % total
		}
		isEmpty[pos] = true
	}
	for i := 0; i < total; i++ {
		spec.History = append(spec.History, HistEntry{Empty: isEmpty[i], CreatedBy: cmd(i)})
	}
	switch mode {
	case "short": // one real entry too few
		for i := len(spec.History) - 1; i >= 0; i-- {
			if !spec.History[i].Empty {
				spec.History = append(spec.History[:i], spec.History[i+1:]...)
				break
			}
		}
	case "long":
		spec.History = append(spec.History, HistEntry{CreatedBy: "cmd-extra"})
	}
}

func genChunk(rt *rapid.T, label string) int {
	return rapid.SampledFrom([]int{0, 0, 1, 7, 13, 512, 4096}).Draw(rt, label)
}

func tierThorough(tier string) bool { return tier == "thorough" }

// deadlineCtx is a context that ends, when fire is called, the way an expired deadline ends one:
// Err() reports context.DeadlineExceeded.  (A real deadline cannot be made to expire at a chosen
// seam event.)
type deadlineCtx struct {
	context.Context
	done  chan struct{}
	mu    sync.Mutex
	fired bool
}

func newDeadlineCtx() *deadlineCtx {
	return &deadlineCtx{Context: context.Background(), done: make(chan struct{})}
}
func (c *deadlineCtx) Done() <-chan struct{} { return c.done }
func (c *deadlineCtx) Err() error {
	c.mu.Lock()
	defer c.mu.Unlock()
	if c.fired {
		return context.DeadlineExceeded
	}
	return nil
}
func (c *deadlineCtx) fire() {
	c.mu.Lock()
	defer c.mu.Unlock()
	if !c.fired {
		c.fired = true
		close(c.done)
	}
}

// cancellable returns a context and the function that ends it: by cancellation, or the way an
// expired deadline does.
func cancellable(deadline bool) (context.Context, func()) {
	if deadline {
		dc := newDeadlineCtx()
		return dc, dc.fire
	}
	return context.WithCancel(context.Background())
}
