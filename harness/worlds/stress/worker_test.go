package stress

import (
	"testing"

	"verif/sim"
)

func TestWorker(t *testing.T) {
	sim.Quiet()
	sim.RunWorker(t, []sim.Check{New()})
}
