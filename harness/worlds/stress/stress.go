// Package stress is the free-running part of C16: real goroutines, started together and not
// synchronised with each other by the harness, hammer the shared request cache and the lazily
// initialised CombinedNativeClient under the race detector.  The cooperative scheduler of
// worlds K and R serialises actors through channel hand-overs, which creates happens-before
// edges and therefore hides unsynchronised accesses from the race detector; this world is the
// complement the property's quantifier asks for ("randomised schedules under the race
// detector").  The interleaving here is NOT controlled by the simulator and is not claimed to
// be: the race detector's verdict is schedule-insensitive for accesses that are unordered by
// happens-before, which is what makes an uncontrolled schedule acceptable for this one oracle.
package stress

import (
	"context"
	"encoding/json"
	"fmt"
	"net/http"
	"net/http/httptest"
	"os"
	"path/filepath"
	"sort"
	"strings"
	"sync"
	"testing"

	"deps.dev/util/resolve"
	"github.com/google/osv-scalibr/clients/datasource"
	"github.com/google/osv-scalibr/clients/resolution"
	"pgregory.net/rapid"
	"verif/sim"
)

// Scenario: what each free-running goroutine does.
type Scenario struct {
	// Per goroutine a list of operations: "get:<key>", "getmap", "setmap", "sys:<Maven|NPM|PyPI|Other>"
	Ops [][]string `json:"ops"`
	// MavenRegs: registries added (sequentially, before the goroutines start) to the shared Maven
	// registry client that the "mvn:*" operations query.
	MavenRegs int `json:"maven_regs,omitempty"`
}

type C16d struct{ rw *sim.RaceWatcher }

func New() *C16d { return &C16d{rw: sim.NewRaceWatcher()} }

func (*C16d) ID() string       { return "C16" }
func (*C16d) CrashProne() bool { return true }
func (*C16d) Rule() string {
	return "(d) free-running stress under the race detector: 2-8 real goroutines released together, each performing 1-6 operations on one shared RequestCache (Get on 1-2 keys with instant fetch functions, GetMap followed by iteration of the result, SetMap) and on one shared CombinedNativeClient (lazy per-ecosystem client initialisation via AddRegistries / an unsupported system) and on one shared MavenRegistryAPIClient with 0-6 added registries (GetVersions / GetProject with a cancelled context, WithoutRegistries, GobEncode of the cache; and on one shared NPMRegistryClient and one shared MavenRegistryClient of clients/resolution against a static registry universe served over loopback HTTP - every Requirements answer must equal the answer a client that is alone gets (package with optional dependencies; artifacts whose parent poms declare different repositories): the client guided remediation's Maven resolver shares between concurrent patch attempts); schedule NOT simulator-controlled (stated); non-trivial = at least two goroutines touch the same object; a runtime fatal error (concurrent map access) that kills the worker is reported as violation class crash"
}

func (*C16d) Gen(rt *rapid.T, tier string) any {
	sc := &Scenario{}
	n := rapid.IntRange(2, 8).Draw(rt, "goroutines")
	all := []string{"get:k0", "get:k0", "get:k1", "getmap", "getmap", "setmap", "sys:Maven", "sys:NPM", "sys:PyPI", "sys:Other", "mvn:versions", "mvn:versions", "mvn:project", "mvn:without", "mvn:gob", "reg:npm", "reg:npm", "reg:mvn-a", "reg:mvn-b", "reg:mvn-b"}
	sc.MavenRegs = rapid.IntRange(0, 6).Draw(rt, "maven_regs")
	for i := 0; i < n; i++ {
		sc.Ops = append(sc.Ops, rapid.SliceOfN(rapid.SampledFrom(all), 1, 6).Draw(rt, fmt.Sprintf("g%d", i)))
	}
	return sc
}

func (*C16d) Decode(raw json.RawMessage) (any, error) {
	var s Scenario
	err := json.Unmarshal(raw, &s)
	return &s, err
}

func (c *C16d) Run(t *testing.T, scn any) *sim.Outcome {
	sc := scn.(*Scenario)
	out := &sim.Outcome{Executions: 1}
	if c.rw == nil {
		out.Violate("harness", "harness:no-race-log", "VERIF_RACE_LOG not set")
		return out
	}
	c.rw.Poll()
	cache := datasource.NewRequestCache[string, string]()
	// one empty project directory per worker (t.TempDir() would leave one directory per scenario
	// behind until the worker exits)
	projectDir := filepath.Join(os.Getenv("VERIF_SCRATCH"), "stress-project")
	if os.Getenv("VERIF_SCRATCH") == "" {
		projectDir = filepath.Join(os.TempDir(), fmt.Sprintf("verif-stress-%d", os.Getpid()))
	}
	os.MkdirAll(projectDir, 0o755)
	cl, err := resolution.NewCombinedNativeClient(resolution.CombinedNativeClientOptions{ProjectDir: projectDir})
	if err != nil {
		out.Violate("harness", "harness:client", "NewCombinedNativeClient: %v", err)
		return out
	}
	// the registry client guided remediation's Maven resolve client shares between its concurrent
	// patch attempts; URLs are never contacted (every request carries a cancelled context)
	mvn, err := datasource.NewMavenRegistryAPIClient(datasource.MavenRegistry{URL: "http://127.0.0.1:1/default", ReleasesEnabled: true})
	if err != nil {
		out.Violate("harness", "harness:client", "NewMavenRegistryAPIClient: %v", err)
		return out
	}
	for i := 0; i < sc.MavenRegs; i++ {
		if err := mvn.AddRegistry(datasource.MavenRegistry{URL: fmt.Sprintf("http://127.0.0.1:1/r%d", i), ID: fmt.Sprint(i), ReleasesEnabled: true}); err != nil {
			out.Violate("harness", "harness:client", "AddRegistry: %v", err)
			return out
		}
	}
	usesReg := false
	for _, ops := range sc.Ops {
		for _, op := range ops {
			if strings.HasPrefix(op, "reg:") {
				usesReg = true
			}
		}
	}
	var npmCl *resolution.NPMRegistryClient
	var mvnCl *resolution.MavenRegistryClient
	if usesReg {
		regOnce.Do(func() { regSetup(filepath.Dir(projectDir)) })
		if reg.err == nil {
			npmCl, mvnCl, reg.err = regClients()
		}
		if reg.err != nil {
			out.Violate("harness", "harness:registry-universe", "registry universe: %v", reg.err)
			return out
		}
	}
	var regMu sync.Mutex
	var regDiffs []string
	cancelled, cancel := context.WithCancel(context.Background())
	cancel()
	start := make(chan struct{})
	var wg sync.WaitGroup
	touched := map[string]int{}
	for gi, ops := range sc.Ops {
		seen := map[string]bool{}
		for _, op := range ops {
			obj := "cache"
			if len(op) > 4 && op[:4] == "sys:" {
				obj = "client"
			}
			if len(op) > 4 && op[:4] == "mvn:" {
				obj = "maven-registry-client"
			}
			if len(op) > 4 && op[:4] == "reg:" {
				obj = "resolution-" + op[4:7] + "-client"
			}
			if !seen[obj] {
				seen[obj] = true
				touched[obj]++
			}
		}
		wg.Add(1)
		go func(gi int, ops []string) {
			defer wg.Done()
			<-start
			for _, op := range ops {
				switch {
				case op == "getmap":
					m := cache.GetMap()
					n := 0
					for k, v := range m { // a caller reading what it was given
						n += len(k) + len(v)
					}
					_ = n
				case op == "setmap":
					cache.SetMap(map[string]string{"seed": "v"})
				case len(op) > 4 && op[:4] == "get:":
					k := op[4:]
					cache.Get(k, func() (string, error) { return fmt.Sprintf("%s-by-g%d", k, gi), nil })
				case strings.HasPrefix(op, "reg:"):
					if got := regAsk(npmCl, mvnCl, op); got != reg.want[op] {
						regMu.Lock()
						regDiffs = append(regDiffs, fmt.Sprintf("%s asked by goroutine %d (its operations: %v): got %q, a client that is alone gets %q", op, gi, ops, got, reg.want[op]))
						regMu.Unlock()
					}
				case op == "mvn:versions":
					mvn.GetVersions(cancelled, "org.example", "thing")
				case op == "mvn:without":
					// what the Maven resolve client does on every Requirements call
					mvn.WithoutRegistries().GetVersions(cancelled, "org.example", "thing")
				case op == "mvn:gob":
					// the cache being persisted while lookups are still running
					mvn.GobEncode()
				case op == "mvn:project":
					mvn.GetProject(cancelled, "org.example", "thing", "1.0.0")
				case op == "sys:Maven":
					cl.AddRegistries(nil)
				case op == "sys:NPM":
					// lazy constructor + a request that fails at once on an already cancelled context
					func() {
						defer func() { recover() }()
						cl.Versions(cancelled, resolve.PackageKey{System: resolve.NPM, Name: "left-pad"})
					}()
				case op == "sys:PyPI":
					func() {
						defer func() { recover() }()
						cl.Versions(cancelled, resolve.PackageKey{System: resolve.PyPI, Name: "requests"})
					}()
				default:
					func() {
						defer func() { recover() }()
						cl.Version(cancelled, resolve.VersionKey{PackageKey: resolve.PackageKey{System: resolve.UnknownSystem}})
					}()
				}
			}
		}(gi, ops)
	}
	close(start)
	wg.Wait()
	for _, r := range c.rw.Poll() {
		out.Violate("data-race", "data-race:"+r.Key, "race detector report under free-running goroutines %v:\n%s", sc.Ops, r.Text)
		out.NoShrink = true
	}
	sort.Strings(regDiffs)
	for _, d := range regDiffs {
		out.Violate("schedule-dependent", "schedule-dependent-requirements:"+strings.SplitN(d, " ", 2)[0], "an answer of a shared resolution client depends on what else is asked of it: %s; all goroutines: %v", d, sc.Ops)
		out.NoShrink = true
		break
	}
	var ks []string
	for k, v := range touched {
		if v >= 2 {
			ks = append(ks, k)
		}
	}
	sort.Strings(ks)
	out.Nontrivial = len(ks) > 0
	out.Sample = map[string]any{"goroutines": sc.Ops}
	out.HistoryFP = sim.FP(sc) // no history: the schedule is not controlled in this world
	return out
}

// ---- registry universe served over loopback HTTP (one per worker process; static content) ----
//
//	npm:    pkg@1.0.0 with 40 dependencies that are also optionalDependencies, plus one plain one
//	maven:  central: a:1.0 (parent pa:1.0), pa:1.0 (declares <repository> "mirror"),
//	                 b:1.0 (parent pb:1.0), pb:1.0 (depends on x:1.0)
//	        mirror:  pb:1.0 (another build: depends on x:2.0)
//
// What a caller gets from the resolution clients must not depend on what other callers ask for
// before or at the same time: the reference answers are taken once from fresh clients used alone.
type staticServer map[string]string

func (m staticServer) ServeHTTP(w http.ResponseWriter, r *http.Request) {
	body, ok := m[strings.TrimPrefix(r.URL.EscapedPath(), "/")]
	if !ok {
		w.WriteHeader(http.StatusNotFound)
		return
	}
	w.Write([]byte(body))
}

type regUniverse struct {
	central, mirror, npm *httptest.Server
	npmDir               string
	want                 map[string]string // op -> answer of a client that is alone
	err                  error
}

var (
	regOnce sync.Once
	reg     regUniverse
)

func npmVK() resolve.VersionKey {
	return resolve.VersionKey{PackageKey: resolve.PackageKey{System: resolve.NPM, Name: "pkg"}, Version: "1.0.0", VersionType: resolve.Concrete}
}
func mvnVK(a string) resolve.VersionKey {
	return resolve.VersionKey{PackageKey: resolve.PackageKey{System: resolve.Maven, Name: "org.ex:" + a}, Version: "1.0", VersionType: resolve.Concrete}
}

func reqString(rs []resolve.RequirementVersion, err error) string {
	if err != nil {
		return "error: " + err.Error()
	}
	var es []string
	for _, r := range rs {
		es = append(es, fmt.Sprintf("%s@%s[%s]", r.Name, r.Version, r.Type.String()))
	}
	sort.Strings(es) // the order of a regular and an optional requirement on one package is not defined
	return strings.Join(es, " ")
}

func regClients() (*resolution.NPMRegistryClient, *resolution.MavenRegistryClient, error) {
	n, err := resolution.NewNPMRegistryClient(reg.npmDir)
	if err != nil {
		return nil, nil, err
	}
	m, err := resolution.NewMavenRegistryClient(reg.central.URL)
	return n, m, err
}

func regAsk(n *resolution.NPMRegistryClient, m *resolution.MavenRegistryClient, op string) string {
	switch op {
	case "reg:npm":
		return reqString(n.Requirements(context.Background(), npmVK()))
	case "reg:mvn-a":
		return reqString(m.Requirements(context.Background(), mvnVK("a")))
	default:
		return reqString(m.Requirements(context.Background(), mvnVK("b")))
	}
}

func regSetup(scratch string) {
	pom := func(artifact, extra string) string {
		return fmt.Sprintf("<project>\n  <groupId>org.ex</groupId>\n  <artifactId>%s</artifactId>\n  <version>1.0</version>\n  %s\n</project>", artifact, extra)
	}
	parent := func(a string) string {
		return fmt.Sprintf("<parent><groupId>org.ex</groupId><artifactId>%s</artifactId><version>1.0</version></parent>", a)
	}
	depOnX := func(v string) string {
		return fmt.Sprintf("<packaging>pom</packaging>\n  <dependencies><dependency><groupId>org.ex</groupId><artifactId>x</artifactId><version>%s</version></dependency></dependencies>", v)
	}
	mirror := staticServer{"org/ex/pb/1.0/pb-1.0.pom": pom("pb", depOnX("2.0"))}
	reg.mirror = httptest.NewServer(mirror)
	central := staticServer{
		"org/ex/a/1.0/a-1.0.pom":   pom("a", parent("pa")),
		"org/ex/pa/1.0/pa-1.0.pom": pom("pa", fmt.Sprintf("<packaging>pom</packaging>\n  <repositories><repository><id>mirror</id><url>%s</url></repository></repositories>", reg.mirror.URL)),
		"org/ex/b/1.0/b-1.0.pom":   pom("b", parent("pb")),
		"org/ex/pb/1.0/pb-1.0.pom": pom("pb", depOnX("1.0")),
	}
	reg.central = httptest.NewServer(central)
	var deps, opt []string
	for i := 0; i < 40; i++ {
		deps = append(deps, fmt.Sprintf("%q: \"^1.0.0\"", fmt.Sprintf("dep%02d", i)))
		opt = append(opt, fmt.Sprintf("%q: \"^1.0.0\"", fmt.Sprintf("dep%02d", i)))
	}
	deps = append(deps, "\"plain\": \"^2.0.0\"")
	reg.npm = httptest.NewServer(staticServer{"pkg": fmt.Sprintf("{\"name\":\"pkg\",\"dist-tags\":{\"latest\":\"1.0.0\"},\"versions\":{\"1.0.0\":{\"name\":\"pkg\",\"version\":\"1.0.0\",\"dependencies\":{%s},\"optionalDependencies\":{%s}}}}", strings.Join(deps, ","), strings.Join(opt, ","))})
	reg.npmDir = filepath.Join(scratch, "stress-npm-project")
	os.MkdirAll(reg.npmDir, 0o755)
	blank := filepath.Join(reg.npmDir, "blank")
	os.WriteFile(blank, nil, 0o644)
	if err := os.WriteFile(filepath.Join(reg.npmDir, ".npmrc"), []byte("registry="+reg.npm.URL+"\nglobalconfig="+blank+"\nuserconfig="+blank+"\n"), 0o644); err != nil {
		reg.err = err
		return
	}
	reg.want = map[string]string{}
	for _, op := range []string{"reg:npm", "reg:mvn-a", "reg:mvn-b"} {
		n, m, err := regClients() // a client of its own for every reference answer
		if err != nil {
			reg.err = err
			return
		}
		reg.want[op] = regAsk(n, m, op)
		if strings.HasPrefix(reg.want[op], "error") {
			reg.err = fmt.Errorf("reference answer for %s: %q", op, reg.want[op])
			return
		}
	}
}
