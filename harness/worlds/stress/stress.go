// Package stress is the free-running part of C16: real goroutines, started together and not
// synchronised with each other by the harness, hammer the shared request cache and the lazily
// initialised CombinedNativeClient under the race detector.  The cooperative scheduler of
// worlds K and R serialises actors through channel hand-overs, which creates happens-before
// edges and therefore hides unsynchronised accesses from the race detector; this world is the
// complement the property's quantifier asks for ("randomised schedules under the race
// detector").  The interleaving here is NOT controlled by the simulator and is not claimed to
// be: the race detector's verdict is schedule-insensitive for accesses that are unordered by
// happens-before, which is what makes an uncontrolled schedule acceptable for this one oracle.
package stress

import (
	"context"
	"encoding/json"
	"fmt"
	"os"
	"path/filepath"
	"sort"
	"sync"
	"testing"

	"deps.dev/util/resolve"
	"github.com/google/osv-scalibr/clients/datasource"
	"github.com/google/osv-scalibr/clients/resolution"
	"pgregory.net/rapid"
	"verif/sim"
)

// Scenario: what each free-running goroutine does.
type Scenario struct {
	// Per goroutine a list of operations: "get:<key>", "getmap", "setmap", "sys:<Maven|NPM|PyPI|Other>"
	Ops [][]string `json:"ops"`
	// MavenRegs: registries added (sequentially, before the goroutines start) to the shared Maven
	// registry client that the "mvn:*" operations query.
	MavenRegs int `json:"maven_regs,omitempty"`
}

type C16d struct{ rw *sim.RaceWatcher }

func New() *C16d { return &C16d{rw: sim.NewRaceWatcher()} }

func (*C16d) ID() string       { return "C16" }
func (*C16d) CrashProne() bool { return true }
func (*C16d) Rule() string {
	return "(d) free-running stress under the race detector: 2-8 real goroutines released together, each performing 1-6 operations on one shared RequestCache (Get on 1-2 keys with instant fetch functions, GetMap followed by iteration of the result, SetMap) and on one shared CombinedNativeClient (lazy per-ecosystem client initialisation via AddRegistries / an unsupported system) and on one shared MavenRegistryAPIClient with 0-6 added registries (GetVersions / GetProject with a cancelled context, WithoutRegistries, GobEncode of the cache: the client guided remediation's Maven resolver shares between concurrent patch attempts); schedule NOT simulator-controlled (stated); non-trivial = at least two goroutines touch the same object; a runtime fatal error (concurrent map access) that kills the worker is reported as violation class crash"
}

func (*C16d) Gen(rt *rapid.T, tier string) any {
	sc := &Scenario{}
	n := rapid.IntRange(2, 8).Draw(rt, "goroutines")
	all := []string{"get:k0", "get:k0", "get:k1", "getmap", "getmap", "setmap", "sys:Maven", "sys:NPM", "sys:PyPI", "sys:Other", "mvn:versions", "mvn:versions", "mvn:project", "mvn:without", "mvn:gob"}
	sc.MavenRegs = rapid.IntRange(0, 6).Draw(rt, "maven_regs")
	for i := 0; i < n; i++ {
		sc.Ops = append(sc.Ops, rapid.SliceOfN(rapid.SampledFrom(all), 1, 6).Draw(rt, fmt.Sprintf("g%d", i)))
	}
	return sc
}

func (*C16d) Decode(raw json.RawMessage) (any, error) {
	var s Scenario
	err := json.Unmarshal(raw, &s)
	return &s, err
}

func (c *C16d) Run(t *testing.T, scn any) *sim.Outcome {
	sc := scn.(*Scenario)
	out := &sim.Outcome{Executions: 1}
	if c.rw == nil {
		out.Violate("harness", "harness:no-race-log", "VERIF_RACE_LOG not set")
		return out
	}
	c.rw.Poll()
	cache := datasource.NewRequestCache[string, string]()
	// one empty project directory per worker (t.TempDir() would leave one directory per scenario
	// behind until the worker exits)
	projectDir := filepath.Join(os.Getenv("VERIF_SCRATCH"), "stress-project")
	if os.Getenv("VERIF_SCRATCH") == "" {
		projectDir = filepath.Join(os.TempDir(), fmt.Sprintf("verif-stress-%d", os.Getpid()))
	}
	os.MkdirAll(projectDir, 0o755)
	cl, err := resolution.NewCombinedNativeClient(resolution.CombinedNativeClientOptions{ProjectDir: projectDir})
	if err != nil {
		out.Violate("harness", "harness:client", "NewCombinedNativeClient: %v", err)
		return out
	}
	// the registry client guided remediation's Maven resolve client shares between its concurrent
	// patch attempts; URLs are never contacted (every request carries a cancelled context)
	mvn, err := datasource.NewMavenRegistryAPIClient(datasource.MavenRegistry{URL: "http://127.0.0.1:1/default", ReleasesEnabled: true})
	if err != nil {
		out.Violate("harness", "harness:client", "NewMavenRegistryAPIClient: %v", err)
		return out
	}
	for i := 0; i < sc.MavenRegs; i++ {
		if err := mvn.AddRegistry(datasource.MavenRegistry{URL: fmt.Sprintf("http://127.0.0.1:1/r%d", i), ID: fmt.Sprint(i), ReleasesEnabled: true}); err != nil {
			out.Violate("harness", "harness:client", "AddRegistry: %v", err)
			return out
		}
	}
	cancelled, cancel := context.WithCancel(context.Background())
	cancel()
	start := make(chan struct{})
	var wg sync.WaitGroup
	touched := map[string]int{}
	for gi, ops := range sc.Ops {
		seen := map[string]bool{}
		for _, op := range ops {
			obj := "cache"
			if len(op) > 4 && op[:4] == "sys:" {
				obj = "client"
			}
			if len(op) > 4 && op[:4] == "mvn:" {
				obj = "maven-registry-client"
			}
			if !seen[obj] {
				seen[obj] = true
				touched[obj]++
			}
		}
		wg.Add(1)
		go func(gi int, ops []string) {
			defer wg.Done()
			<-start
			for _, op := range ops {
				switch {
				case op == "getmap":
					m := cache.GetMap()
					n := 0
					for k, v := range m { // a caller reading what it was given
						n += len(k) + len(v)
					}
					_ = n
				case op == "setmap":
					cache.SetMap(map[string]string{"seed": "v"})
				case len(op) > 4 && op[:4] == "get:":
					k := op[4:]
					cache.Get(k, func() (string, error) { return fmt.Sprintf("%s-by-g%d", k, gi), nil })
				case op == "mvn:versions":
					mvn.GetVersions(cancelled, "org.example", "thing")
				case op == "mvn:without":
					// what the Maven resolve client does on every Requirements call
					mvn.WithoutRegistries().GetVersions(cancelled, "org.example", "thing")
				case op == "mvn:gob":
					// the cache being persisted while lookups are still running
					mvn.GobEncode()
				case op == "mvn:project":
					mvn.GetProject(cancelled, "org.example", "thing", "1.0.0")
				case op == "sys:Maven":
					cl.AddRegistries(nil)
				case op == "sys:NPM":
					// lazy constructor + a request that fails at once on an already cancelled context
					func() {
						defer func() { recover() }()
						cl.Versions(cancelled, resolve.PackageKey{System: resolve.NPM, Name: "left-pad"})
					}()
				case op == "sys:PyPI":
					func() {
						defer func() { recover() }()
						cl.Versions(cancelled, resolve.PackageKey{System: resolve.PyPI, Name: "requests"})
					}()
				default:
					func() {
						defer func() { recover() }()
						cl.Version(cancelled, resolve.VersionKey{PackageKey: resolve.PackageKey{System: resolve.UnknownSystem}})
					}()
				}
			}
		}(gi, ops)
	}
	close(start)
	wg.Wait()
	for _, r := range c.rw.Poll() {
		out.Violate("data-race", "data-race:"+r.Key, "race detector report under free-running goroutines %v:\n%s", sc.Ops, r.Text)
		out.NoShrink = true
	}
	var ks []string
	for k, v := range touched {
		if v >= 2 {
			ks = append(ks, k)
		}
	}
	sort.Strings(ks)
	out.Nontrivial = len(ks) > 0
	out.Sample = map[string]any{"goroutines": sc.Ops}
	out.HistoryFP = sim.FP(sc) // no history: the schedule is not controlled in this world
	return out
}
