// Package cache is world K: the real datasource.RequestCache, instrumented at build time with
// yields at its lock boundaries, driven by simulated clients under the cooperative scheduler;
// the recorded history is checked for linearizability with porcupine and for the
// "at most one fetch per success" counter invariant.
package cache

import (
	"encoding/json"
	"errors"
	"fmt"
	"sort"
	"strings"
	"testing"
	"time"

	"github.com/anishathalye/porcupine"
	"github.com/google/osv-scalibr/clients/datasource"
	"github.com/google/osv-scalibr/verifshim"
	"pgregory.net/rapid"
	"verif/sim"
)

// Scenario is one simulated run of the cache.
type Scenario struct {
	Keys   []string          `json:"keys"`             // 1-2 keys
	Preset map[string]string `json:"preset,omitempty"` // initial cache content (SetMap before the clients start)
	// PresetNil: SetMap(nil) before the clients start - what loading a cache file without entries does
	PresetNil bool              `json:"preset_nil,omitempty"`
	Clients   [][]string        `json:"clients"`            // per client: the keys it looks up, in order
	Fetch     map[string][]bool `json:"fetch"`              // per key: outcome of the n-th fetch invocation (true = success); beyond the list: success
	Vec       []int             `json:"vec"`                // schedule vector
	Observer  int               `json:"observer,omitempty"` // >0: an extra actor takes GetMap() at a scheduled instant and re-reads the returned map after this many further releases
}

type C16b struct{}

func (C16b) ID() string { return "C16" }
func (C16b) Rule() string {
	return "(b) request cache: 2-4 simulated clients issuing 1-3 sequential Get calls over 1-2 keys; fetch functions are harness callbacks that park (slow fetch) and succeed with a value unique per invocation or fail, per a scenario-defined outcome list; 1 in 6 scenarios start from SetMap(preset), 1 in 7 from SetMap(nil) (a cache file without entries); the real cache.go is instrumented at build time with yields before every Lock(), after every Unlock() and around wg.Wait(); a seeded schedule vector decides which parked actor runs next; history (<= 12 operations) checked with porcupine against a sequential cache model + fetch-count invariant; non-trivial = at least two clients were parked simultaneously inside Get on the same key; distinct = distinct scenario JSON"
}

func (C16b) Gen(rt *rapid.T, tier string) any {
	sc := &Scenario{Fetch: map[string][]bool{}}
	nk := rapid.IntRange(1, 2).Draw(rt, "nkeys")
	for i := 0; i < nk; i++ {
		sc.Keys = append(sc.Keys, fmt.Sprintf("k%d", i))
	}
	if rapid.IntRange(0, 5).Draw(rt, "preset") == 0 {
		sc.Preset = map[string]string{sc.Keys[0]: "preset-" + sc.Keys[0]}
	} else if rapid.IntRange(0, 5).Draw(rt, "preset-nil") == 0 {
		sc.PresetNil = true
	}
	nc := rapid.IntRange(2, 4).Draw(rt, "nclients")
	total := 0
	for c := 0; c < nc; c++ {
		n := rapid.IntRange(1, 3).Draw(rt, fmt.Sprintf("c%d.n", c))
		var ks []string
		for j := 0; j < n && total < 12; j++ {
			ks = append(ks, rapid.SampledFrom(sc.Keys).Draw(rt, fmt.Sprintf("c%d.k%d", c, j)))
			total++
		}
		sc.Clients = append(sc.Clients, ks)
	}
	for _, k := range sc.Keys {
		sc.Fetch[k] = rapid.SliceOfN(rapid.Bool(), 0, 4).Draw(rt, "fetch."+k)
	}
	sc.Vec = rapid.SliceOfN(rapid.IntRange(0, 7), 0, 60).Draw(rt, "vec")
	if rapid.IntRange(0, 2).Draw(rt, "observer") == 0 {
		sc.Observer = rapid.IntRange(1, 4).Draw(rt, "observer.holds")
	}
	return sc
}

func (C16b) Decode(raw json.RawMessage) (any, error) {
	var s Scenario
	err := json.Unmarshal(raw, &s)
	return &s, err
}

type opIn struct{ Key string }
type opOut struct {
	Val string
	Err string
}

type fetchRec struct {
	LeaderCall int // invoke seq of the Get call that ran this fetch
	Key        string
	N          int
	StartSeq   int
	EndSeq     int
	OK         bool
}

func (C16b) Run(t *testing.T, scn any) *sim.Outcome {
	sc := scn.(*Scenario)
	out := &sim.Outcome{Executions: 1}
	var ops []porcupine.Operation
	var fetches []*fetchRec
	var hist []string
	seq := 0
	next := func() int { seq++; return seq }
	var runErr error
	var sched *sim.Sched
	sameKeyOverlap := false
	snapshotChanged := ""

	func() {
		defer func() {
			if r := recover(); r != nil {
				if runErr == nil {
					runErr = fmt.Errorf("panic: %v", r)
				}
			}
		}()
		sim.Bubble(t, func() {
			cache := datasource.NewRequestCache[string, string]()
			if sc.Preset != nil {
				cache.SetMap(sc.Preset)
			} else if sc.PresetNil {
				cache.SetMap(nil)
			}
			sched = sim.NewSched(sc.Vec)
			verifshim.Yield = func(site string) { sched.Park(site) }
			defer func() { verifshim.Yield = nil }()
			fetchCount := map[string]int{}
			inGet := map[string]int{} // key -> clients currently inside Get
			for ci, keys := range sc.Clients {
				ci, keys := ci, keys
				sched.Go(ci, func() {
					for _, k := range keys {
						k := k
						call := next()
						hist = append(hist, fmt.Sprintf("%d invoke c%d Get(%s)", call, ci, k))
						inGet[k]++
						if inGet[k] >= 2 {
							sameKeyOverlap = true
						}
						v, err := cache.Get(k, func() (string, error) {
							n := fetchCount[k]
							fetchCount[k]++
							fr := &fetchRec{Key: k, N: n, StartSeq: next(), LeaderCall: call}
							fetches = append(fetches, fr)
							hist = append(hist, fmt.Sprintf("%d fetch-start c%d %s#%d", fr.StartSeq, ci, k, n))
							sched.Park("fetch:" + k) // slow fetch
							ok := true
							if n < len(sc.Fetch[k]) {
								ok = sc.Fetch[k][n]
							}
							fr.OK = ok
							fr.EndSeq = next()
							hist = append(hist, fmt.Sprintf("%d fetch-end c%d %s#%d ok=%v", fr.EndSeq, ci, k, n, ok))
							if !ok {
								return "", fmt.Errorf("fetch-error-%s#%d", k, n)
							}
							return fmt.Sprintf("%s-v%d", k, n), nil
						})
						inGet[k]--
						ret := next()
						o := opOut{Val: v}
						if err != nil {
							o.Err = err.Error()
						}
						hist = append(hist, fmt.Sprintf("%d return c%d Get(%s) = %q err=%q", ret, ci, k, o.Val, o.Err))
						ops = append(ops, porcupine.Operation{ClientId: ci, Input: opIn{k}, Call: int64(call), Output: o, Return: int64(ret)})
						sched.Park("between-ops")
					}
				})
			}
			if sc.Observer > 0 {
				sched.Go(100, func() {
					m := cache.GetMap()
					snap := encode(m)
					for i := 0; i < sc.Observer; i++ {
						sched.Park("observer-hold")
						if now := encode(m); now != snap {
							snapshotChanged = fmt.Sprintf("map returned by GetMap() was %q and became %q while the caller held it", snap, now)
							return
						}
					}
				})
			}
			runErr = sched.Run(2000)
			if runErr == nil {
				// read-only observation of the final cache content
				m := cache.GetMap()
				var ks []string
				for k := range m {
					ks = append(ks, k)
				}
				sort.Strings(ks)
				for _, k := range ks {
					hist = append(hist, fmt.Sprintf("final %s=%s", k, m[k]))
				}
			}
		})
	}()
	out.HistoryFP = sim.FP(hist)
	ctx := fmt.Sprintf("clients=%v fetch=%v preset=%v vec=%v\nhistory:\n  %s", sc.Clients, sc.Fetch, sc.Preset, sc.Vec, strings.Join(hist, "\n  "))
	if runErr != nil {
		class := "deadlock"
		if strings.Contains(runErr.Error(), "budget") {
			class = "nontermination"
		} else if strings.Contains(runErr.Error(), "panic") {
			class = "panic"
		}
		out.Violate(class, "cache-"+class, "%v; %s", runErr, ctx)
		return out
	}
	if sched != nil {
		out.Count("schedule_steps", int64(sched.Steps))
		out.Count("max_parked", int64(sched.MaxPar))
		out.Sample = map[string]any{"clients": sc.Clients, "fetch_outcomes": sc.Fetch, "interleaving": strings.Join(sched.Trace, " ")}
	}
	out.Nontrivial = sameKeyOverlap
	if sameKeyOverlap {
		out.Count("probe_same_key_overlap", 1)
	}

	if snapshotChanged != "" {
		out.Violate("shared-map-escapes-lock", "cache-shared-map-escapes-lock", "%s: the cache's internal map is read by a caller without the lock while lookups write it (a data race in a real deployment); %s", snapshotChanged, ctx)
	}
	// ---- counter invariant: at most one fetch per success; no fetch starts after a successful
	// fetch for that key had returned
	succ := map[string]*fetchRec{}
	for _, f := range fetches {
		if f.OK {
			if prev := succ[f.Key]; prev != nil {
				out.Violate("fetch-twice", "cache-fetch-twice", "key %s: fetch invocations #%d and #%d both succeeded; %s", f.Key, prev.N, f.N, ctx)
			} else {
				succ[f.Key] = f
			}
		} else {
			out.Count("fault_fetch_error", 1)
		}
	}
	for _, f := range fetches {
		if s := succ[f.Key]; s != nil && s != f && f.StartSeq > s.EndSeq {
			out.Violate("fetch-after-success", "cache-fetch-after-success", "key %s: fetch #%d started (seq %d) after fetch #%d had succeeded (seq %d); %s", f.Key, f.N, f.StartSeq, s.N, s.EndSeq, ctx)
		}
		if _, preset := sc.Preset[f.Key]; preset {
			out.Violate("fetch-of-cached-key", "cache-fetch-of-cached-key", "key %s was preset in the cache but a fetch was invoked; %s", f.Key, ctx)
		}
	}

	// ---- linearizability against the sequential cache model
	model := porcupine.Model{
		Init: func() interface{} {
			st := map[string]string{}
			for k, v := range sc.Preset {
				st[k] = v
			}
			return encode(st)
		},
		Step: func(state, input, output interface{}) (bool, interface{}) {
			st := decode(state.(string))
			in := input.(opIn)
			o := output.(opOut)
			cur, cached := st[in.Key]
			if o.Err != "" {
				return !cached, state // a failed fetch is not cached; a cached key never errors
			}
			if cached {
				return cur == o.Val, state
			}
			if !strings.HasPrefix(o.Val, in.Key+"-v") {
				return false, state // not a value any fetch of this key produced
			}
			st[in.Key] = o.Val
			return true, encode(st)
		},
		Equal: func(a, b interface{}) bool { return a.(string) == b.(string) },
	}
	res := porcupine.CheckOperationsTimeout(model, ops, 30*time.Second)
	switch res {
	case porcupine.Illegal:
		out.Violate("nonlinearizable", "cache-nonlinearizable", "history is not linearizable against the sequential cache model; %s", ctx)
	case porcupine.Unknown:
		out.Count("porcupine_unknown", 1)
	}
	// a waiter must observe exactly the in-flight fetch's outcome: every returned error names a
	// fetch invocation that really failed
	for _, op := range ops {
		o := op.Output.(opOut)
		if o.Err == "" {
			continue
		}
		found := false
		for _, f := range fetches {
			if !f.OK && o.Err == fmt.Sprintf("fetch-error-%s#%d", f.Key, f.N) {
				found = true
				// errors are never cached: a lookup may return the error of a fetch only if it ran that
				// fetch itself or was invoked while the lookup that ran it was still in progress
				leaderReturn := int64(1 << 60)
				for _, lo := range ops {
					if lo.Call == int64(f.LeaderCall) {
						leaderReturn = lo.Return
					}
				}
				if op.Call > leaderReturn {
					out.Violate("stale-error", "cache-stale-error", "Get (seq %d..%d) returned the error of fetch #%d although the lookup that ran that fetch had already returned at seq %d: a failed fetch was remembered; %s", op.Call, op.Return, f.N, leaderReturn, ctx)
				}
			}
		}
		if !found {
			out.Violate("phantom-error", "cache-phantom-error", "Get returned error %q that no fetch invocation produced; %s", o.Err, ctx)
		}
	}
	return out
}

func encode(m map[string]string) string {
	var ks []string
	for k := range m {
		ks = append(ks, k)
	}
	sort.Strings(ks)
	var sb strings.Builder
	for _, k := range ks {
		sb.WriteString(k + "=" + m[k] + ";")
	}
	return sb.String()
}

func decode(s string) map[string]string {
	m := map[string]string{}
	for _, kv := range strings.Split(s, ";") {
		if i := strings.Index(kv, "="); i > 0 {
			m[kv[:i]] = kv[i+1:]
		}
	}
	return m
}

var _ = errors.New
