// verifctl builds the world test binaries from the current working tree of $VERIF_REPO,
// spawns worker processes, merges their results, matches known findings, writes the evidence
// file and sets the exit code: 0 held, 1 violation (VIOLATION line printed), 2 harness trouble.
package main

import (
	"bytes"
	"encoding/json"
	"fmt"
	"os"
	"os/exec"
	"path/filepath"
	"regexp"
	"sort"
	"strconv"
	"strings"
	"sync"
	"time"

	"verif/sim"
)

type budget struct {
	Workers   int
	Scenarios int // per worker
	Seconds   int // per worker
}

type partDef struct {
	World   string
	Race    bool
	Overlay bool
	Env     []string
}

type checkDef struct {
	Parts    []partDef // several worlds serving one property; workers are dealt round-robin
	ID       string
	World    string // package under harness/worlds
	Race     bool
	Overlay  bool
	Level    string
	Quick    budget
	Thorough budget
	Assume   []string
	Real     []string
	Stub     []string
	Env      []string
}

var verifDir = "/verif"

// builtBins are this invocation's private test binaries (and overlay dirs), removed on exit.
var builtBins []string

func cleanupBuilt() {
	for _, b := range builtBins {
		os.Remove(b)
	}
	// build directories of scratch repositories (mutant runs) are single-use
	if repo := env("VERIF_REPO", "/repo"); repo != "/repo" {
		os.RemoveAll(buildDir(repo))
	}
	matches, _ := filepath.Glob(filepath.Join(verifDir, ".build", "*", fmt.Sprintf("overlay-%d*", os.Getpid())))
	for _, m := range matches {
		os.RemoveAll(m)
	}
}

// checks loads harness/worlds/*/checkdef.json.  Each file lists the checks a world serves;
// entries with the same ID in several worlds are merged into one multi-part check.
func checks() map[string]*checkDef {
	m := map[string]*checkDef{}
	files, _ := filepath.Glob(filepath.Join(verifDir, "harness", "worlds", "*", "checkdef.json"))
	sort.Strings(files)
	for _, f := range files {
		b, err := os.ReadFile(f)
		if err != nil {
			die2("%v", err)
		}
		var defs []struct {
			ID       string
			Level    string
			Quick    budget
			Thorough budget
			Part     partDef
			Assume   []string
			Real     []string
			Stub     []string
		}
		if err := json.Unmarshal(b, &defs); err != nil {
			die2("%s: %v", f, err)
		}
		for _, d := range defs {
			c := m[d.ID]
			if c == nil {
				c = &checkDef{ID: d.ID, Level: d.Level, Quick: d.Quick, Thorough: d.Thorough}
				m[d.ID] = c
			} else {
				c.Quick = maxBudget(c.Quick, d.Quick)
				c.Thorough = maxBudget(c.Thorough, d.Thorough)
			}
			c.Parts = append(c.Parts, d.Part)
			c.Assume = append(c.Assume, d.Assume...)
			c.Real = appendUniq(c.Real, d.Real)
			c.Stub = appendUniq(c.Stub, d.Stub)
		}
	}
	return m
}

func maxBudget(a, b budget) budget {
	if b.Workers > a.Workers {
		a.Workers = b.Workers
	}
	if b.Scenarios > a.Scenarios {
		a.Scenarios = b.Scenarios
	}
	if b.Seconds > a.Seconds {
		a.Seconds = b.Seconds
	}
	return a
}

func appendUniq(a, b []string) []string {
	seen := map[string]bool{}
	for _, x := range a {
		seen[x] = true
	}
	for _, x := range b {
		if !seen[x] {
			seen[x] = true
			a = append(a, x)
		}
	}
	return a
}

func env(k, def string) string {
	if v := os.Getenv(k); v != "" {
		return v
	}
	return def
}

func die2(format string, a ...any) {
	fmt.Fprintf(os.Stderr, "verifctl: "+format+"\n", a...)
	os.Exit(2)
}

func goEnv() []string {
	e := os.Environ()
	e = append(e, "GOFLAGS=-mod=mod", "GOPROXY=off", "GOSUMDB=off", "GOTOOLCHAIN=local", "CGO_ENABLED=1")
	return e
}

func goBin() string {
	if p, err := exec.LookPath("go1.26.8"); err == nil {
		return p
	}
	return "/opt/veriftools/go1.26.8/bin/go"
}

// prepareModfile writes .build/go.mod + go.sum pointing at the repository under test.
// buildDir is specific to the repository path, so that checks of a scratch copy (mutants)
// never share go.mod, overlay or binaries with checks of /repo running at the same time.
func buildDir(repo string) string {
	if repo == "/repo" {
		return filepath.Join(verifDir, ".build", "default")
	}
	return filepath.Join(verifDir, ".build", "r-"+sim.FP(repo))
}

func prepareModfile(repo string) string {
	bd := buildDir(repo)
	os.MkdirAll(filepath.Join(bd, "bin"), 0o755)
	src, err := os.ReadFile(filepath.Join(verifDir, "harness", "go.mod"))
	if err != nil {
		die2("%v", err)
	}
	mod := strings.ReplaceAll(string(src), "=> /repo", "=> "+repo)
	modPath := filepath.Join(bd, "go.mod")
	if old, _ := os.ReadFile(modPath); string(old) != mod {
		os.WriteFile(modPath, []byte(mod), 0o644)
	}
	sums := map[string]bool{}
	var lines []string
	for _, f := range []string{filepath.Join(repo, "go.sum"), filepath.Join(verifDir, "harness", "go.sum")} {
		b, _ := os.ReadFile(f)
		for _, l := range strings.Split(string(b), "\n") {
			if l != "" && !sums[l] {
				sums[l] = true
				lines = append(lines, l)
			}
		}
	}
	sort.Strings(lines)
	sum := strings.Join(lines, "\n") + "\n"
	sumPath := filepath.Join(bd, "go.sum")
	if old, _ := os.ReadFile(sumPath); string(old) != sum {
		os.WriteFile(sumPath, []byte(sum), 0o644)
	}
	return modPath
}

func (c *checkDef) parts() []partDef {
	if len(c.Parts) > 0 {
		return c.Parts
	}
	return []partDef{{World: c.World, Race: c.Race, Overlay: c.Overlay, Env: c.Env}}
}

func buildWorld(c partDef, repo string) string {
	mod := prepareModfile(repo)
	name := c.World
	args := []string{"test", "-c", "-modfile=" + mod, "-vet=off"}
	if c.Race {
		args = append(args, "-race")
		name += ".race"
	}
	if c.Overlay {
		ov := filepath.Join(buildDir(repo), fmt.Sprintf("overlay-%d.json", os.Getpid()))
		cmd := exec.Command(goBin(), "run", "-modfile="+mod, "./cmd/instrument", "-repo", repo, "-out", filepath.Join(buildDir(repo), fmt.Sprintf("overlay-%d", os.Getpid())), "-json", ov, "-extras", filepath.Join(verifDir, "harness", "overlay"))
		cmd.Dir = filepath.Join(verifDir, "harness")
		cmd.Env = goEnv()
		if outb, err := cmd.CombinedOutput(); err != nil {
			die2("instrumenter failed: %v\n%s", err, outb)
		}
		args = append(args, "-overlay="+ov)
		name += ".ov"
	}
	// build under a private name and move into place: another check may be executing the
	// previous binary right now
	bin := filepath.Join(buildDir(repo), "bin", fmt.Sprintf("%s.%d.test", name, os.Getpid()))
	args = append(args, "-o", bin, "./worlds/"+c.World)
	cmd := exec.Command(goBin(), args...)
	cmd.Dir = filepath.Join(verifDir, "harness")
	cmd.Env = goEnv()
	if outb, err := cmd.CombinedOutput(); err != nil {
		die2("build of world %s from %s failed: %v\n%s", c.World, repo, err, outb)
	}
	builtBins = append(builtBins, bin)
	return bin
}

type evidence struct {
	PropertyID  string         `json:"property_id"`
	Tier        string         `json:"tier"`
	Seed        int64          `json:"seed"`
	Level       string         `json:"level"`
	Coverage    map[string]any `json:"coverage"`
	Assumptions []string       `json:"assumptions"`
	WallS       float64        `json:"wall_s"`
	Violations  int            `json:"violations"`
}

func main() {
	if len(os.Args) < 2 {
		die2("usage: verifctl <id> quick|thorough | <id> --replay <file> | build")
	}
	if v := os.Getenv("VERIF_DIR"); v != "" {
		verifDir = v
	}
	repo := env("VERIF_REPO", "/repo")
	defs := checks()
	if os.Args[1] == "build" {
		seen := map[string]bool{}
		for _, id := range sortedIDs(defs) {
			for _, c := range defs[id].parts() {
				k := fmt.Sprint(c.World, c.Race, c.Overlay)
				if seen[k] {
					continue
				}
				seen[k] = true
				fmt.Printf("building world %s (race=%v overlay=%v)\n", c.World, c.Race, c.Overlay)
				buildWorld(c, repo)
				cleanupBuilt()
				builtBins = nil
			}
		}
		return
	}
	if os.Args[1] == "selftest" {
		selftest(defs, repo, os.Args[2:])
		return
	}
	c := defs[os.Args[1]]
	if c == nil {
		die2("unknown property %q", os.Args[1])
	}
	tier := "quick"
	replay := ""
	if len(os.Args) >= 4 && os.Args[2] == "--replay" {
		replay, _ = filepath.Abs(os.Args[3])
	} else if len(os.Args) >= 3 {
		tier = os.Args[2]
	}
	if t := os.Getenv("VERIF_TIER"); t != "" && replay == "" && len(os.Args) < 3 {
		tier = t
	}
	if tier != "quick" && tier != "thorough" {
		die2("tier must be quick or thorough")
	}
	seed, _ := strconv.ParseInt(env("VERIF_SEED", "1"), 10, 64)
	start := time.Now()
	parts := c.parts()
	bins := make([]string, len(parts))
	for i, p := range parts {
		bins[i] = buildWorld(p, repo)
	}
	buildS := time.Since(start).Seconds()

	b := c.Quick
	if tier == "thorough" {
		b = c.Thorough
	}
	if j := os.Getenv("VERIF_JOBS"); j != "" {
		if n, err := strconv.Atoi(j); err == nil && n > 0 && n < b.Workers {
			b.Workers = n
		}
	}
	if s := os.Getenv("VERIF_SECONDS"); s != "" {
		if n, err := strconv.Atoi(s); err == nil && n > 0 {
			b.Seconds = n
		}
	}
	if replay != "" {
		b.Workers = 1
	}
	runDir := filepath.Join(verifDir, ".build", "run", fmt.Sprintf("%s-%d", c.ID, os.Getpid()))
	os.MkdirAll(runDir, 0o755)
	defer os.RemoveAll(runDir)
	replayDir := env("VERIF_REPLAYS", filepath.Join(verifDir, "replays"))
	os.MkdirAll(replayDir, 0o755)

	var crashMu sync.Mutex
	var crashes []sim.ReplayRef
	results := make([]*sim.WorkerResult, b.Workers)
	logs := make([]string, b.Workers)
	var wg sync.WaitGroup
	for w := 0; w < b.Workers; w++ {
		wg.Add(1)
		go func(w int) {
			defer wg.Done()
			outp := filepath.Join(runDir, fmt.Sprintf("w%d.json", w))
			timeout := time.Duration(b.Seconds)*time.Second + 5*time.Minute
			if replay != "" {
				timeout = 4 * time.Minute
			}
			pi := w % len(parts)
			if replay != "" {
				pi = replayPart(replay, len(parts))
			}
			cmd := exec.Command(bins[pi], "-test.run", "^TestWorker$", "-test.timeout", "0", "-test.cpu", "1")
			cmd.Dir = runDir
			cmd.Env = append(os.Environ(),
				"VERIF_PROP="+c.ID, "VERIF_TIER="+tier, fmt.Sprintf("VERIF_SEED=%d", seed),
				fmt.Sprintf("VERIF_WORKER=%d", w), fmt.Sprintf("VERIF_NWORKERS=%d", b.Workers),
				fmt.Sprintf("VERIF_MAX_SCENARIOS=%d", b.Scenarios), fmt.Sprintf("VERIF_MAX_SECONDS=%d", b.Seconds),
				"VERIF_OUT="+outp, "VERIF_REPLAY_DIR="+replayDir, "VERIF_KNOWN="+env("VERIF_KNOWN_FILE", filepath.Join(verifDir, "known_findings.json")),
				"VERIF_SCRATCH="+filepath.Join(runDir, fmt.Sprintf("scratch%d", w)),
				"VERIF_CURRENT_FILE="+filepath.Join(runDir, fmt.Sprintf("current%d.json", w)),
				"GORACE=log_path="+filepath.Join(runDir, fmt.Sprintf("race%d", w))+" halt_on_error=0 exitcode=0",
				"VERIF_RACE_LOG="+filepath.Join(runDir, fmt.Sprintf("race%d", w)),
				fmt.Sprintf("VERIF_PART=%d", pi),
				"GOMAXPROCS="+env("VERIF_GOMAXPROCS", "2"))
			cmd.Env = append(cmd.Env, parts[pi].Env...)
			if replay != "" {
				cmd.Env = append(cmd.Env, "VERIF_REPLAY="+replay, "VERIF_REPLAY_REPS="+env("VERIF_REPLAY_REPS", "1"))
			}
			var buf bytes.Buffer
			cmd.Stdout = &buf
			cmd.Stderr = &buf
			if err := cmd.Start(); err != nil {
				logs[w] = err.Error()
				return
			}
			done := make(chan error, 1)
			go func() { done <- cmd.Wait() }()
			select {
			case err := <-done:
				if err != nil {
					logs[w] = fmt.Sprintf("worker exit: %v\n%s", err, tail(buf.String(), 60))
				}
			case <-time.After(timeout):
				cmd.Process.Kill()
				<-done
				logs[w] = fmt.Sprintf("worker killed by watchdog after %v\n%s", timeout, tail(buf.String(), 60))
				buf.WriteString("\nfatal error: verif watchdog: scenario still running " + timeout.String() + " after start of the batch (hang)\n")
			}
			if rb, err := os.ReadFile(outp); err == nil {
				var r sim.WorkerResult
				if json.Unmarshal(rb, &r) == nil {
					results[w] = &r
				}
			}
			if results[w] == nil && logs[w] == "" {
				logs[w] = "worker wrote no result\n" + tail(buf.String(), 60)
			}
			// the process died while running a scenario of a crash-prone check: that scenario is
			// the replay file, the crash is the violation
			if (results[w] == nil || !results[w].Done) && replay != "" {
				if sig := crashSignature(buf.String()); sig != "" {
					crashMu.Lock()
					crashes = append(crashes, sim.ReplayRef{Class: "crash", Key: "crash:" + sig, Detail: "worker process died while replaying:\n" + tail(buf.String(), 40), Path: replay})
					crashMu.Unlock()
				}
			}
			if (results[w] == nil || !results[w].Done) && replay == "" {
				if cur, err := os.ReadFile(filepath.Join(runDir, fmt.Sprintf("current%d.json", w))); err == nil && len(cur) > 0 {
					if sig := crashSignature(buf.String()); sig != "" {
						rf := sim.ReplayFile{Property: c.ID, Seed: seed, Class: "crash", Key: "crash:" + sig, Detail: "worker process died while executing this scenario:\n" + tail(buf.String(), 40), Scenario: cur, Part: pi}
						rb, _ := json.MarshalIndent(rf, "", " ")
						rp := filepath.Join(replayDir, fmt.Sprintf("%s-s%d-w%d-crash.json", c.ID, seed, w))
						if os.WriteFile(rp, rb, 0o644) == nil {
							crashMu.Lock()
							crashes = append(crashes, sim.ReplayRef{Class: "crash", Key: rf.Key, Detail: rf.Detail, Path: rp})
							crashMu.Unlock()
						}
					}
				}
			}
		}(w)
	}
	wg.Wait()

	// merge
	cov := map[string]any{}
	counters := map[string]int64{}
	fps := map[uint64]bool{}
	hists := map[uint64]bool{}
	var samples []any
	var viol []sim.ReplayRef
	known := map[string]int{}
	knownSample := map[string]string{}
	var rseeds []uint64
	scen, execs, nontriv := 0, 0, 0
	var simNs int64
	trouble := []string{}
	for w, r := range results {
		if r == nil {
			trouble = append(trouble, fmt.Sprintf("worker %d: %s", w, logs[w]))
			continue
		}
		if !r.Done {
			trouble = append(trouble, fmt.Sprintf("worker %d did not finish: %s", w, logs[w]))
		}
		if r.Trouble != "" {
			trouble = append(trouble, fmt.Sprintf("worker %d: %s", w, r.Trouble))
		}
		scen += r.Scenarios
		execs += r.Executions
		nontriv += r.Nontrivial
		simNs += r.SimTimeNs
		for k, v := range r.Counters {
			counters[k] += v
		}
		for _, f := range r.DistinctFPs {
			fps[f] = true
		}
		for _, f := range r.DistinctHist {
			hists[f] = true
		}
		if len(samples) < 4 {
			samples = append(samples, r.Samples...)
		}
		viol = append(viol, r.Violations...)
		for k, v := range r.Known {
			known[k] += v
			if _, ok := knownSample[k]; !ok {
				knownSample[k] = r.KnownSample[k]
			}
		}
		rseeds = append(rseeds, r.RapidSeeds...)
	}
	if len(samples) > 4 {
		samples = samples[:4]
	}
	viol = append(viol, crashes...)
	wall := time.Since(start).Seconds()
	cov["evaluations"] = execs
	cov["scenarios"] = scen
	cov["distinct_nontrivial"] = len(fps)
	cov["nontrivial_scenarios"] = nontriv
	rules := map[string]bool{}
	var ruleList []string
	for _, r := range results {
		if r != nil && r.Rule != "" && !rules[r.Rule] {
			rules[r.Rule] = true
			ruleList = append(ruleList, r.Rule)
		}
	}
	sort.Strings(ruleList)
	cov["rule"] = strings.Join(ruleList, " || ")
	if len(ruleList) == 0 {
		cov["rule"] = ruleOf(c.ID)
	}
	cov["samples"] = samples
	cov["distinct_histories"] = len(hists)
	cov["counters"] = counters
	cov["simulated_time_s"] = float64(simNs) / 1e9
	if wall > buildS {
		cov["runs_per_hour"] = int(float64(execs) / (wall - buildS) * 3600)
	}
	cov["workers"] = b.Workers
	cov["rapid_seeds"] = len(rseeds)
	cov["build_s"] = buildS
	cov["real_components"] = c.Real
	cov["stub_components"] = c.Stub
	cov["known_findings_matched"] = known
	cov["exhaustive"] = false
	cov["repo"] = repo

	// report
	exit := 0
	allKnown := loadAllKnown()
	for _, id := range sortedKeys(known) {
		what := id
		if k, ok := allKnown[id]; ok {
			what = k.ID + ": " + k.What
		}
		fmt.Printf("KNOWN-FINDING: property=%s %s (matched %d time(s); e.g. %s)\n", c.ID, what, known[id], oneLine(knownSample[id]))
	}
	seenClass := map[string]bool{}
	for _, v := range viol {
		if seenClass[v.Key] {
			continue
		}
		seenClass[v.Key] = true
		fmt.Printf("VIOLATION property=%s replay=%s\n", c.ID, v.Path)
		fmt.Printf("  class=%s key=%s\n  %s\n", v.Class, v.Key, oneLine(v.Detail))
		exit = 1
	}
	if exit == 0 && len(trouble) > 0 {
		for _, t := range trouble {
			fmt.Fprintln(os.Stderr, "TROUBLE:", t)
		}
		exit = 2
	}
	if replay == "" {
		ev := evidence{PropertyID: c.ID, Tier: tier, Seed: seed, Level: c.Level, Coverage: cov, Assumptions: c.Assume, WallS: wall, Violations: len(seenClass)}
		eb, _ := json.MarshalIndent(ev, "", " ")
		evDir := env("VERIF_EVIDENCE_DIR", filepath.Join(verifDir, "evidence"))
		os.MkdirAll(evDir, 0o755)
		if err := os.WriteFile(filepath.Join(evDir, c.ID+".json"), eb, 0o644); err != nil {
			die2("cannot write evidence: %v", err)
		}
	}
	fmt.Printf("%s %s seed=%d: %d scenarios, %d executions, %d distinct non-trivial, %d violation class(es), %d known finding(s), %.1fs (build %.1fs)\n",
		c.ID, tier, seed, scen, execs, len(fps), len(seenClass), len(known), wall, buildS)
	cleanupBuilt()
	os.RemoveAll(runDir)
	os.Exit(exit)
}

func ruleOf(id string) string {
	b, err := os.ReadFile(filepath.Join(verifDir, "harness", "rules.json"))
	if err == nil {
		m := map[string]string{}
		if json.Unmarshal(b, &m) == nil && m[id] != "" {
			return m[id]
		}
	}
	return "see DESIGN.md section 4, " + id
}

func loadAllKnown() map[string]*sim.KnownFinding {
	m := map[string]*sim.KnownFinding{}
	b, err := os.ReadFile(env("VERIF_KNOWN_FILE", filepath.Join(verifDir, "known_findings.json")))
	if err != nil {
		return m
	}
	var all []*sim.KnownFinding
	if json.Unmarshal(b, &all) == nil {
		for _, k := range all {
			m[k.ID] = k
		}
	}
	return m
}

func sortedIDs(m map[string]*checkDef) []string {
	var ks []string
	for k := range m {
		ks = append(ks, k)
	}
	sort.Strings(ks)
	return ks
}

func sortedKeys(m map[string]int) []string {
	var ks []string
	for k := range m {
		ks = append(ks, k)
	}
	sort.Strings(ks)
	return ks
}

func oneLine(s string) string {
	s = strings.ReplaceAll(s, "\n", " | ")
	if len(s) > 400 {
		s = s[:400] + "..."
	}
	return s
}

func tail(s string, n int) string {
	lines := strings.Split(s, "\n")
	if len(lines) > n {
		lines = lines[len(lines)-n:]
	}
	return strings.Join(lines, "\n")
}

// replayPart reads the "part" recorded in a replay file's scenario (0 if absent).
func replayPart(path string, n int) int {
	b, err := os.ReadFile(path)
	if err != nil {
		return 0
	}
	var rf struct {
		Part int `json:"part"`
	}
	if json.Unmarshal(b, &rf) != nil || rf.Part < 0 || rf.Part >= n {
		return 0
	}
	return rf.Part
}

// selftest proves determinism: for every check part, the same PRNG value is run in fresh
// processes with GOMAXPROCS 1, 4 and 16 (twice each) and the sets of history fingerprints,
// the counters and the verdicts must be identical.
func selftest(defs map[string]*checkDef, repo string, only []string) {
	n := env("VERIF_SELFTEST_SCENARIOS", "60")
	fail := 0
	for _, id := range sortedIDs(defs) {
		if len(only) > 0 && !contains(only, id) {
			continue
		}
		c := defs[id]
		for pi, p := range c.parts() {
			bin := buildWorld(p, repo)
			var ref string
			for run, gmp := range []string{"1", "4", "16", "1", "16", "4"} {
				runDir := filepath.Join(verifDir, ".build", "run", fmt.Sprintf("selftest-%s-%d-%d", id, pi, run))
				os.MkdirAll(runDir, 0o755)
				outp := filepath.Join(runDir, "w.json")
				cmd := exec.Command(bin, "-test.run", "^TestWorker$", "-test.timeout", "0")
				cmd.Dir = runDir
				cmd.Env = append(os.Environ(), "VERIF_PROP="+id, "VERIF_TIER=quick", "VERIF_SEED="+env("VERIF_SEED", "7"), "VERIF_WORKER=0", "VERIF_NWORKERS=1",
					"VERIF_MAX_SCENARIOS="+n, "VERIF_MAX_SECONDS=3600", "VERIF_OUT="+outp, "VERIF_REPLAY_DIR="+runDir,
					"VERIF_KNOWN="+env("VERIF_KNOWN_FILE", filepath.Join(verifDir, "known_findings.json")), "VERIF_SCRATCH="+filepath.Join(runDir, "scratch"),
					"GORACE=log_path="+filepath.Join(runDir, "race")+" halt_on_error=0 exitcode=0", "VERIF_RACE_LOG="+filepath.Join(runDir, "race"),
					fmt.Sprintf("VERIF_PART=%d", pi), "GOMAXPROCS="+gmp)
				cmd.Env = append(cmd.Env, p.Env...)
				ob, err := cmd.CombinedOutput()
				rb, _ := os.ReadFile(outp)
				var r sim.WorkerResult
				json.Unmarshal(rb, &r)
				os.RemoveAll(runDir)
				if err != nil || !r.Done {
					fmt.Printf("selftest %s part %d (%s) GOMAXPROCS=%s: TROUBLE %v\n%s\n", id, pi, p.World, gmp, err, tail(string(ob), 20))
					fail++
					break
				}
				cb, _ := json.Marshal(r.Counters)
				for i := range r.Violations {
					r.Violations[i].Path = filepath.Base(r.Violations[i].Path) // the directory is per run
				}
				vb, _ := json.Marshal(r.Violations)
				sig := fmt.Sprintf("scen=%d exec=%d nontriv=%d hist=%v fps=%v counters=%s viol=%s known=%v", r.Scenarios, r.Executions, r.Nontrivial, r.DistinctHist, r.DistinctFPs, cb, vb, r.Known)
				if run == 0 {
					ref = sig
					continue
				}
				if sig != ref {
					fmt.Printf("selftest %s part %d (%s): NONDETERMINISTIC at GOMAXPROCS=%s\n ref: %.400s\n got: %.400s\n", id, pi, p.World, gmp, ref, sig)
					fail++
					break
				}
			}
			if fail == 0 {
				fmt.Printf("selftest %s part %d (%s): deterministic over 6 fresh processes (GOMAXPROCS 1/4/16), %s scenarios each\n", id, pi, p.World, n)
			}
		}
	}
	cleanupBuilt()
	if fail > 0 {
		os.Exit(1)
	}
}

func contains(l []string, x string) bool {
	for _, y := range l {
		if y == x {
			return true
		}
	}
	return false
}

var reCrash = regexp.MustCompile(`(?m)^(panic: [^\n]{0,80}|fatal error: [^\n]{0,80})`)
var reRepoFrame = regexp.MustCompile(`(?m)^(github\.com/google/osv-scalibr[^\s(]*)`)

// crashSignature extracts a stable signature from the output of a worker that died.
func crashSignature(out string) string {
	m := reCrash.FindString(out)
	if m == "" {
		return ""
	}
	m = regexp.MustCompile(`0x[0-9a-f]+`).ReplaceAllString(m, "0x?")
	if f := reRepoFrame.FindString(out[strings.Index(out, m[:6]):]); f != "" {
		m += " @ " + f
	}
	return m
}
