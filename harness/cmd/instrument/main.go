// instrument generates a `go build -overlay` description from the CURRENT sources of the
// repository under test, so that the harness needs no hooks committed there:
//
//   - package <repo>/verifshim is added (hook variables, nil => pass-through);
//   - clients/datasource/cache.go is replaced by a copy with verifshim.Yield calls inserted
//     before every X.Lock() statement, after every X.Unlock() statement and around X.Wait()
//     (statement level; never while a lock is held: `defer X.Unlock()` gets no yield);
//   - every file harness/overlay/<dir>/<name>.go is added as <repo>/<dir>/<name>.go.
//
// A missing anchor is an error (exit 1): the caller then exits 2 instead of running
// uninstrumented.
package main

import (
	"bytes"
	"encoding/json"
	"flag"
	"fmt"
	"go/ast"
	"go/format"
	"go/parser"
	"go/token"
	"os"
	"path/filepath"
	"strconv"
	"strings"
)

const shimSrc = `// Package verifshim holds the hook variables of the verification harness.  It exists only in
// the build-time overlay; all hooks are nil (pass-through) unless a simulated world sets them.
package verifshim

import (
	"io"
	"io/fs"
	"os"
)

// Yield, when set, is called at the instrumented scheduling points.
var Yield func(site string)

// Y calls Yield if it is set.
func Y(site string) {
	if Yield != nil {
		Yield(site)
	}
}

// OSFault, when set, is consulted before every redirected os call (op = function name, path =
// its path argument).  A non-nil error makes the call fail with it without touching the disk.
var OSFault func(op, path string) error

// CopyFault, when set, is consulted before every redirected io.Copy: (n, err) with err != nil
// copies at most n bytes and then returns err (a disk that fills up in the middle of a write).
var CopyFault func() (int64, error)

func osf(op, path string) error {
	if OSFault != nil {
		return OSFault(op, path)
	}
	return nil
}

func MkdirTemp(dir, pattern string) (string, error) {
	if e := osf("MkdirTemp", dir); e != nil {
		return "", e
	}
	return os.MkdirTemp(dir, pattern)
}

func Mkdir(name string, perm fs.FileMode) error {
	if e := osf("Mkdir", name); e != nil {
		return e
	}
	return os.Mkdir(name, perm)
}

func MkdirAll(path string, perm fs.FileMode) error {
	if e := osf("MkdirAll", path); e != nil {
		return e
	}
	return os.MkdirAll(path, perm)
}

func OpenFile(name string, flag int, perm fs.FileMode) (*os.File, error) {
	if e := osf("OpenFile", name); e != nil {
		return nil, e
	}
	return os.OpenFile(name, flag, perm)
}

func Create(name string) (*os.File, error) {
	if e := osf("Create", name); e != nil {
		return nil, e
	}
	return os.Create(name)
}

func WriteFile(name string, data []byte, perm fs.FileMode) error {
	if e := osf("WriteFile", name); e != nil {
		return e
	}
	return os.WriteFile(name, data, perm)
}

func Symlink(oldname, newname string) error {
	if e := osf("Symlink", newname); e != nil {
		return e
	}
	return os.Symlink(oldname, newname)
}

func Remove(name string) error {
	if e := osf("Remove", name); e != nil {
		return e
	}
	return os.Remove(name)
}

func RemoveAll(path string) error {
	if e := osf("RemoveAll", path); e != nil {
		return e
	}
	return os.RemoveAll(path)
}

func Copy(dst io.Writer, src io.Reader) (int64, error) {
	if CopyFault != nil {
		if n, e := CopyFault(); e != nil {
			w, _ := io.CopyN(dst, src, n)
			return w, e
		}
	}
	return io.Copy(dst, src)
}
` + "\n"

// osRedirect lists the files whose os.* / io.Copy calls are redirected to the shim, and the
// functions concerned.
var osRedirectFiles = []string{
	"artifact/image/layerscanning/image/image.go",
	"artifact/image/unpack/unpack.go",
	"extractor/filesystem/filesystem.go",
	"guidedremediation/internal/manifest/npm/packagejson.go",
	"guidedremediation/internal/manifest/maven/pomxml.go",
}

var osRedirectFuncs = map[string]bool{"MkdirTemp": true, "Mkdir": true, "MkdirAll": true, "OpenFile": true, "Create": true,
	"WriteFile": true, "Symlink": true, "Remove": true, "RemoveAll": true}

// redirectOS rewrites os.F(...) (F in osRedirectFuncs) and io.Copy(...) to verifshim.F / Copy.
func redirectOS(f *ast.File) int {
	n := 0
	ast.Inspect(f, func(nd ast.Node) bool {
		se, ok := nd.(*ast.SelectorExpr)
		if !ok {
			return true
		}
		id, ok := se.X.(*ast.Ident)
		if !ok || id.Obj != nil {
			return true
		}
		if (id.Name == "os" && osRedirectFuncs[se.Sel.Name]) || (id.Name == "io" && se.Sel.Name == "Copy") {
			se.X = ast.NewIdent("verifshim")
			n++
		}
		return true
	})
	return n
}

func importsPkg(f *ast.File, path string) bool {
	for _, im := range f.Imports {
		if im.Path.Value == strconv.Quote(path) {
			return true
		}
	}
	return false
}

func die(format string, a ...any) {
	fmt.Fprintf(os.Stderr, "instrument: "+format+"\n", a...)
	os.Exit(1)
}

func yieldStmt(site string) ast.Stmt {
	return &ast.ExprStmt{X: &ast.CallExpr{
		Fun:  &ast.SelectorExpr{X: ast.NewIdent("verifshim"), Sel: ast.NewIdent("Y")},
		Args: []ast.Expr{&ast.BasicLit{Kind: token.STRING, Value: strconv.Quote(site)}},
	}}
}

func methodCall(s ast.Stmt) string {
	es, ok := s.(*ast.ExprStmt)
	if !ok {
		return ""
	}
	ce, ok := es.X.(*ast.CallExpr)
	if !ok || len(ce.Args) != 0 {
		return ""
	}
	se, ok := ce.Fun.(*ast.SelectorExpr)
	if !ok {
		return ""
	}
	return se.Sel.Name
}

// instrumentLocks inserts yields into every statement list of the file.  Returns the number
// of Lock anchors found.
func instrumentLocks(fset *token.FileSet, f *ast.File, base string) (locks, waits int) {
	var rewrite func(list []ast.Stmt) []ast.Stmt
	rewrite = func(list []ast.Stmt) []ast.Stmt {
		var out []ast.Stmt
		for _, s := range list {
			line := fset.Position(s.Pos()).Line
			site := func(what string) string { return fmt.Sprintf("%s:%d:%s", base, line, what) }
			switch methodCall(s) {
			case "Lock", "RLock":
				locks++
				out = append(out, yieldStmt(site("before-lock")), s)
			case "Unlock", "RUnlock":
				out = append(out, s, yieldStmt(site("after-unlock")))
			case "Wait":
				waits++
				out = append(out, yieldStmt(site("before-wait")), s, yieldStmt(site("after-wait")))
			default:
				out = append(out, s)
			}
		}
		return out
	}
	ast.Inspect(f, func(n ast.Node) bool {
		switch b := n.(type) {
		case *ast.BlockStmt:
			b.List = rewrite(b.List)
		case *ast.CaseClause:
			b.Body = rewrite(b.Body)
		case *ast.CommClause:
			b.Body = rewrite(b.Body)
		}
		return true
	})
	return
}

func addImport(f *ast.File, path string) {
	for _, d := range f.Decls {
		gd, ok := d.(*ast.GenDecl)
		if ok && gd.Tok == token.IMPORT {
			gd.Specs = append(gd.Specs, &ast.ImportSpec{Path: &ast.BasicLit{Kind: token.STRING, Value: strconv.Quote(path)}})
			if !gd.Lparen.IsValid() {
				gd.Lparen = gd.Pos()
				gd.Rparen = gd.End()
			}
			return
		}
	}
	die("no import declaration to extend")
}

func main() {
	repo := flag.String("repo", "/repo", "repository under test")
	outDir := flag.String("out", "", "directory for generated files")
	jsonPath := flag.String("json", "", "overlay JSON to write")
	extras := flag.String("extras", "", "directory with extra files to add (harness/overlay)")
	flag.Parse()
	if *outDir == "" || *jsonPath == "" {
		die("usage: instrument -repo R -out DIR -json FILE [-extras DIR]")
	}
	os.RemoveAll(*outDir)
	if err := os.MkdirAll(*outDir, 0o755); err != nil {
		die("%v", err)
	}
	replace := map[string]string{}
	redirected := 0

	// 1. shim package
	shim := filepath.Join(*outDir, "verifshim.go")
	os.WriteFile(shim, []byte(shimSrc), 0o644)
	replace[filepath.Join(*repo, "verifshim", "shim.go")] = shim

	// 2. request cache with yields at lock boundaries
	cachePath := filepath.Join(*repo, "clients", "datasource", "cache.go")
	fset := token.NewFileSet()
	f, err := parser.ParseFile(fset, cachePath, nil, 0)
	if err != nil {
		die("cannot parse %s: %v", cachePath, err)
	}
	locks, waits := instrumentLocks(fset, f, "cache.go")
	if locks == 0 {
		die("anchor missing: no X.Lock() statement found in %s (was the request cache moved or rewritten?)", cachePath)
	}
	_ = waits
	addImport(f, "github.com/google/osv-scalibr/verifshim")
	var buf bytes.Buffer
	if err := format.Node(&buf, fset, f); err != nil {
		die("cannot print instrumented cache.go: %v", err)
	}
	cacheOut := filepath.Join(*outDir, "cache.go")
	os.WriteFile(cacheOut, buf.Bytes(), 0o644)
	replace[cachePath] = cacheOut

	// 2b. os.* / io.Copy redirection (tier 2 fault injection); pass-through unless hooks are set
	for _, rel := range osRedirectFiles {
		src := filepath.Join(*repo, rel)
		fs2 := token.NewFileSet()
		pf, err := parser.ParseFile(fs2, src, nil, parser.ParseComments)
		if err != nil {
			die("cannot parse %s: %v", src, err)
		}
		n := redirectOS(pf)
		if n == 0 {
			die("anchor missing: no redirectable os/io call found in %s (was the file refactored?)", src)
		}
		addImport(pf, "github.com/google/osv-scalibr/verifshim")
		var b2 bytes.Buffer
		if err := format.Node(&b2, fs2, pf); err != nil {
			die("cannot print %s: %v", rel, err)
		}
		// keep the original imports used even if every use was redirected
		if importsPkg(pf, "os") {
			b2.WriteString("\nvar _ = os.ErrNotExist\n")
		}
		if importsPkg(pf, "io") {
			b2.WriteString("\nvar _ io.Reader\n")
		}
		outp := filepath.Join(*outDir, strings.ReplaceAll(rel, "/", "__"))
		os.WriteFile(outp, b2.Bytes(), 0o644)
		replace[src] = outp
		redirected += n
	}

	// 3. extras
	if *extras != "" {
		filepath.Walk(*extras, func(p string, info os.FileInfo, err error) error {
			if err != nil || info.IsDir() || !strings.HasSuffix(p, ".go") {
				return nil
			}
			rel, _ := filepath.Rel(*extras, p)
			replace[filepath.Join(*repo, rel)] = p
			return nil
		})
	}
	b, _ := json.MarshalIndent(map[string]any{"Replace": replace}, "", " ")
	if err := os.WriteFile(*jsonPath, b, 0o644); err != nil {
		die("%v", err)
	}
	fmt.Printf("instrument: %d lock sites, %d wait sites, %d os/io calls redirected, %d overlay entries\n", locks, waits, redirected, len(replace))
}
