#!/bin/sh
# tools/run_seeded.sh [name...] - run every confirmed seeded change under /verif/seeded against the quick
# check(s) of the property it breaks (meta.json: "property", optional "also": [...]) and print one line each.
# Nothing in /repo is touched (tools/mutant.sh works on a scratch copy).
cd "$(dirname "$0")/.." || exit 2
names="$*"
[ -z "$names" ] && names=$(ls seeded | grep -v '\.json$')
for n in $names; do
  d=seeded/$n
  [ -f "$d/patch.diff" ] || continue
  if grep -q superseded_by_fix "$d/meta.json"; then echo "$n: superseded by a fix: commit (see meta.json)"; continue; fi
  ids=$(python3 -c "import json;m=json.load(open('$d/meta.json'));print(' '.join([m['property']]+m.get('also',[])))")
  r=$(tools/mutant.sh "$d/patch.diff" $ids 2>&1 | grep -E '^C[0-9]+ exit=' | sed -E 's/^(C[0-9]+ exit=[0-9]+).*class=([a-z-]+).*/\1(\2)/; s/^(C[0-9]+ exit=[0-9]+) *$/\1/' | tr '\n' ' ')
  echo "$n: $r"
done
