#!/bin/sh
# Runs the repository's pinned test suite (guard off = plain tree) and compares with BASELINE.json:
# every test in stable_pass must still pass.  Usage: tools/baseline_compare.sh [repo]
REPO="${1:-/repo}"
OUT="${XDG_CACHE_HOME:-$HOME/.cache}/verif-scratch/baseline-$$.json"
mkdir -p "$(dirname "$OUT")"
export GOFLAGS=-mod=mod GOPROXY=off
for m in $(cat /w/out/gomods.txt); do (cd "$REPO/$m" && go test -mod=mod -json -vet=off -count=1 -timeout 25m ./... ); done > "$OUT" 2>/dev/null
python3 - "$OUT" <<'PY'
import json,sys
base=set(json.load(open('/root/.vp/BASELINE.json'))['stable_pass'])
res={}
for l in open(sys.argv[1]):
    try: e=json.loads(l)
    except Exception: continue
    if e.get('Test') and e.get('Action') in('pass','fail','skip'):
        res[e['Package']+'::'+e['Test']]=e['Action']
missing=[t for t in base if res.get(t)!='pass']
print("baseline stable_pass:",len(base),"passing now:",sum(1 for t in base if res.get(t)=='pass'))
for t in sorted(missing)[:40]: print("  NOT PASSING:",t,res.get(t))
sys.exit(1 if missing else 0)
PY
rc=$?
rm -f "$OUT"
exit $rc
