#!/usr/bin/env python3
"""tools/matrix_table.py <run_seeded output file>...  - rewrites the detection matrix at the end of
DESIGN.md section 14 from the output of tools/run_seeded.sh (lines "<name>: C01 exit=1(class) ...")
and the meta.json of every seeded change.  Later files override earlier ones per change."""
import json, os, re, sys
V = os.path.join(os.path.dirname(os.path.abspath(__file__)), '..')
res = {}
for f in sys.argv[1:]:
    for l in open(f):
        m = re.match(r'^(C\d\d(?:-w\d)?-\d+): (.*)$', l.strip())
        if m:
            res[m.group(1)] = m.group(2).strip()
def key(n):
    m = re.match(r'^(C\d\d)(?:-w(\d))?-(\d+)$', n)
    return (m.group(1), int(m.group(2) or 1), int(m.group(3)))
rows = ['| change | property | clause broken (from the author\'s meta.json) | caught by |', '|---|---|---|---|']
names = sorted([d for d in os.listdir(os.path.join(V, 'seeded')) if os.path.exists(os.path.join(V, 'seeded', d, 'meta.json'))], key=key)
missed = []
for n in names:
    meta = json.load(open(os.path.join(V, 'seeded', n, 'meta.json')))
    prop = meta['property']
    clause = ' '.join(meta.get('breaks', '').split())[:110].replace('|', '/')
    if 'superseded_by_fix' in meta:
        caught = 'superseded by a repair (caught before it; see meta.json)'
    else:
        r = res.get(n, '')
        parts = re.findall(r'(C\d\d) exit=(\d)(?:\(([a-z-]+)\))?', r)
        out = []
        for (cid, rc, cls) in parts:
            if rc == '1':
                out.append('%s: `%s`' % (cid, cls or 'violation'))
            elif cid == prop and len(parts) > 1:
                out.append('(%s: not its domain - see note)' % cid)
            else:
                out.append('%s: MISSED' % cid)
        caught = ' '.join(out) if out else 'not run'
        if not any(rc == '1' for (_, rc, _) in parts):
            missed.append(n)
    rows.append('| %s | %s | %s | %s |' % (n, prop, clause, caught))
p = os.path.join(V, 'DESIGN.md')
s = open(p).read()
i = s.index("| change | property | clause broken (from the author's meta.json) | caught by |")
j = i
lines = s[i:].split('\n')
k = 0
while k < len(lines) and lines[k].startswith('|'):
    k += 1
rest = '\n'.join(lines[k:])
open(p, 'w').write(s[:i] + '\n'.join(rows) + '\n' + rest)
print('rows:', len(names), 'not caught:', missed)
