#!/usr/bin/env python3
"""Regenerates /verif/MANIFEST.json from the table below (kept valid at all times)."""
import json, os, subprocess
V = os.path.dirname(os.path.dirname(os.path.abspath(__file__)))
NA = {
 "C03": "pure function from file bytes to a package list on well-formed input; no seam, schedule, clock or fault the simulator could own (decoders hide chunking)",
 "C07": "pure function of two strings; no seam, schedule, clock or fault",
 "C13": "pure function (original bytes, update list) -> bytes with one os.WriteFile at the end; the statement has no schedule, fault or history",
 "C14": "universally quantified statement about pure conversions of a value; no seam between value and result",
 "C15": "composition of a pure serialiser and a pure parser; the file between them is incidental, no fault or ordering in the statement",
 "C17": "pure single-threaded walk over an in-memory tree; the quantifier asks for exhaustive enumeration of a bounded space, which is model checking, excluded by this task's technique",
 "C18": "pure predicate on (record, package)",
 "C19": "finite static registry and pure filter/lookup functions; nothing at run time that a schedule or fault could influence",
}
PENDING = {}
CHECKS = {}
def chk(id, level, text, note, tech, engine, ref):
    CHECKS[id] = dict(property_id=id, quick_cmd="./check %s quick" % id, thorough_cmd="./check %s thorough" % id,
        evidence_file="/verif/evidence/%s.json" % id, replay_cmd_template="./check %s --replay {path}" % id, engine=engine,
        level_claimed=dict(category=level, text=text, design_ref=ref), level_note=note, technique=tech)

exec(open(os.path.join(V, "tools", "manifest_table.py")).read())

repo_fix = subprocess.run(["git", "-C", "/repo", "log", "--format=%h %s", "d4e81a89..HEAD"], capture_output=True, text=True).stdout.strip().split("\n")
m = {
 "version": 1,
 "setup_cmd": "./setup.sh",
 "hooks": {
  "guard": "none committed: instrumentation is a build-time `go test -overlay` generated from the current tree by harness/cmd/instrument (yields in clients/datasource/cache.go, export file in package guidedremediation); nothing under /repo is modified, the shipped build is byte-identical",
  "enable": "./check <id> <tier> regenerates the overlay from $VERIF_REPO (default /repo) and builds the world test binaries with it (go1.26.8, GOTOOLCHAIN=local)",
  "baseline_off_cmd": "for m in $(cat /w/out/gomods.txt); do MF=$(cd /repo/$m && . /w/out/goenv.sh && gomodflag); (cd /repo/$m && go test $MF -json -vet=off -count=1 -timeout 25m ./...); done",
  "source_commits": [],
  "add_only": True,
 },
 "engines": ENGINES,
 "checks": [CHECKS[k] for k in sorted(CHECKS)],
 "notes": NOTES + " Unguarded fix: commits in /repo: " + "; ".join(repo_fix),
 "not_applicable": [{"property_id": k, "reason": v} for k, v in sorted(NA.items())] + [{"property_id": k, "reason": v} for k, v in sorted(PENDING.items()) if k not in CHECKS],
}
json.dump(m, open(os.path.join(V, "MANIFEST.json"), "w"), indent=1)
print("checks:", sorted(CHECKS), "n/a:", [x["property_id"] for x in m["not_applicable"]])
