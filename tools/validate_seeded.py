#!/usr/bin/env python3
"""Validates breakage patches delivered under /tmp/wt/<ID>-out/<n>/ against the CURRENT /repo HEAD and
stores the confirmed ones under /verif/seeded/<ID>-<n>/ (patch.diff re-generated against HEAD, the
demonstration, meta.json with what was run).  Uses a scratch git worktree under /tmp, removed at the end."""
import json, os, shutil, subprocess, sys, glob, tempfile
ENV = dict(os.environ, GOFLAGS="-mod=mod", GOPROXY="off")
def sh(cmd, cwd=None, timeout=3000):
    p = subprocess.run(cmd, shell=True, cwd=cwd, env=ENV, capture_output=True, text=True, timeout=timeout)
    return p.returncode, (p.stdout + p.stderr)
def main():
    only = sys.argv[1:]
    for src in sorted(glob.glob("/tmp/wt/C*-out/[0-9]")) + sorted(glob.glob("/tmp/wt[0-9]/C*-out/[0-9]")):
        pid = src.split("/")[3].replace("-out", "")
        n = os.path.basename(src)
        wave = src.split("/")[2].replace("wt", "")
        name = "%s-%s" % (pid, n) if wave == "" else "%s-w%s-%s" % (pid, wave, n)
        if only and name not in only and pid not in only: continue
        dst = "/verif/seeded/" + name
        if os.path.exists(os.path.join(dst, "meta.json")) and not only: continue
        meta = json.load(open(os.path.join(src, "meta.json")))
        wt = tempfile.mkdtemp(prefix="val-", dir="/tmp/wt")
        for k in ("copy_to",):
            meta["demo"][k] = meta["demo"][k].split()[0].lstrip("/")
        os.rmdir(wt)
        res = {"name": name}
        try:
            rc, out = sh("git -C /repo worktree add --detach %s HEAD" % wt)
            assert rc == 0, out
            tmpd = wt + "-tmp"; os.makedirs(tmpd, exist_ok=True)
            ENV["TMPDIR"] = tmpd
            demo_dir = os.path.dirname(meta["demo"]["copy_to"])
            demos = glob.glob(os.path.join(src, "zz_*_test.go")) + glob.glob(os.path.join(src, "*demo*_test.go"))
            demos = sorted(set(demos))
            for d in demos:
                tgt = os.path.join(wt, demo_dir, os.path.basename(d)) if len(demos) > 1 or os.path.basename(meta["demo"]["copy_to"]) == "" else os.path.join(wt, meta["demo"]["copy_to"])
                if len(demos) > 1: tgt = os.path.join(wt, demo_dir, os.path.basename(d))
                shutil.copy(d, tgt)
            cmd = meta["demo"]["cmd"]
            rc0, out0 = sh(cmd, cwd=wt)
            res["demo_without_change_rc"] = rc0
            rc, out = sh("git apply --whitespace=nowarn %s/patch.diff" % src, cwd=wt)
            if rc != 0:
                rc, out = sh("patch -p1 -s --fuzz=3 --no-backup-if-mismatch < %s/patch.diff" % src, cwd=wt)
            res["applies"] = rc == 0
            if rc != 0:
                res["apply_error"] = out[-500:]
            else:
                rcb, outb = sh("go build ./...", cwd=wt)
                res["build_rc"] = rcb
                rc1, out1 = sh(cmd, cwd=wt)
                res["demo_with_change_rc"] = rc1
                res["demo_with_change_tail"] = out1[-600:]
                # existing suite, unedited, without the demo files
                for d in demos:
                    for f in glob.glob(os.path.join(wt, demo_dir, os.path.basename(d))): os.remove(f)
                if os.path.exists(os.path.join(wt, meta["demo"]["copy_to"])): os.remove(os.path.join(wt, meta["demo"]["copy_to"]))
                rcs, outs = sh("/verif/tools/baseline_compare.sh %s" % wt, cwd=wt)
                res["suite_rc"] = rcs
                res["suite_tail"] = outs[-400:]
                rcd, diff = sh("git diff", cwd=wt)
                res["ok"] = (rc0 == 0 and rcb == 0 and rc1 != 0 and rcs == 0)
                if res["ok"]:
                    os.makedirs(dst, exist_ok=True)
                    open(os.path.join(dst, "patch.diff"), "w").write(diff)
                    for d in demos: shutil.copy(d, dst)
                    if os.path.exists(os.path.join(src, "README.md")): shutil.copy(os.path.join(src, "README.md"), dst)
                    m = dict(meta)
                    m["validated_against"] = subprocess.run("git -C /repo rev-parse --short HEAD", shell=True, capture_output=True, text=True).stdout.strip()
                    m["what_was_run"] = {"demo_without_change": "rc=%d (passes)" % rc0, "go build ./...": "rc=%d" % rcb, "demo_with_change": "rc=%d (fails)" % rc1, "pinned suite (tools/baseline_compare.sh, 2080 stable tests)": "all still pass"}
                    json.dump(m, open(os.path.join(dst, "meta.json"), "w"), indent=1)
        except Exception as e:
            res["error"] = str(e)
        finally:
            sh("git -C /repo worktree remove --force %s" % wt)
            shutil.rmtree(wt + "-tmp", ignore_errors=True)
            shutil.rmtree(wt, ignore_errors=True)
        print(json.dumps(res), flush=True)
main()
