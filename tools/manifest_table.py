ENGINES = [
 {"name": "world-S", "path": "harness/worlds/scan", "serves_properties": ["C01", "C08", "C09", "C10", "C16", "C20"],
  "kind_free_text": "deterministic simulation: real scan engine on SimFS (in-memory disk with seeded listing order, chunking, latency on a synctest fake clock, fault plans keyed by k-th occurrence of an operation on a path) + harness plugins + recording collector; rapid generates and shrinks scenarios; replay file = scenario"},
]
NOTES = "Deterministic simulation with fault injection; see DESIGN.md. ./check selftest proves determinism (same scenario, fresh processes, GOMAXPROCS 1/4/16 => identical history fingerprints)."
PENDING = {k: "claimed in DESIGN.md; check not yet built in this commit" for k in ["C02", "C04", "C05", "C06"]}
ENGINES += [
 {"name": "world-K", "path": "harness/worlds/cache", "serves_properties": ["C16"],
  "kind_free_text": "deterministic simulation: real RequestCache with build-time inserted yields at lock boundaries, simulated clients and fetch callbacks under a seeded cooperative scheduler inside a synctest bubble; porcupine linearizability + counter invariants"},
 {"name": "world-R", "path": "harness/worlds/remed", "serves_properties": ["C11", "C12", "C16"],
  "kind_free_text": "deterministic simulation: real guidedremediation.FixVulns/Update over a generated package universe served by the real deps.dev LocalClient wrapped in SimClient (park at every call, transient errors) + SimMatcher, content-named cooperative scheduler deciding every interleaving of the patch goroutines, manifests on sandboxed real disk, tier-2 os.WriteFile faults through the overlay shim"},
 {"name": "world-stress", "path": "harness/worlds/stress", "serves_properties": ["C16"],
  "kind_free_text": "free-running goroutines under the race detector on the shared RequestCache and CombinedNativeClient lazy initialisation (schedule NOT simulator-controlled, stated)"},
]

chk("C01", "exploration",
    "seeded exploration: ~50k (quick) / millions (thorough) generated tree x option x predicate scenarios run through the real Scanner.Scan on a simulated disk; the recorded seam history (FileRequired/Open/Extract/Close) is compared with an independent reference walker (exactly-once multiset), inventory = union of returns, statuses, and the sub-directory law on every reachable directory. Sampling, not proof.",
    "trusted: the reference walker (harness/worlds/scan/ref.go) and its gitignore dialect; SimFS faithfully models os.DirFS semantics (Stat/Open follow symlinks, ReadDir entries are lstat-like); go-git matcher and gobwas/glob are dependencies, not under test",
    "deterministic simulation (fault-free configuration) + reference-model refinement over the recorded seam history", "world-S", "DESIGN.md 4/C01")
chk("C08", "exploration",
    "seeded schedule exploration: every scenario is executed under the identity order and 5 (quick) / 23 (thorough) seeded schedules (each directory listing permuted independently, extractor/detector lists permuted, both dir-handle flavours), each twice; oracle = equality of result multisets across schedules, independent sortedness comparator, and the multi-root union law against single-root scans.",
    "Go map iteration order inside the library is sampled by repetition, not controlled; failure reasons compared as sets of lines",
    "deterministic simulation: seeded schedules of directory listing / plugin order, metamorphic equality across schedules", "world-S", "DESIGN.md 4/C08")
chk("C09", "fault_enumeration",
    "per generated tree the fault-free history is recorded and EVERY single fault (each file-system operation site x error kind) is injected, plus every ordered pair of faults when the history has <= 40 (quick) / 90 (thorough) operations; oracle = blast radius vs the fault-free run, statuses derived from the recorded history, fatality rule. Exhaustive per tree, sampled across trees.",
    "the classification of a delivered fault into its failing object (directory / file / (file,extractor) attempt) is the harness's reading of the statement; inside the failing object nothing is asserted",
    "deterministic simulation with exhaustive single/pair fault enumeration over the sites of the recorded fault-free history", "world-S", "DESIGN.md 4/C09")
chk("C10", "fault_enumeration",
    "scan half: per generated scenario, inode limits around the measured visit count, size limits around every file size present, and cancel() delivered at EVERY seam event of the fault-free history (plus pre-cancelled); oracle from the recorded history: counters vs limit, nothing starts after the cancel instant, failure iff work remained. Image byte-limit half runs in world I.",
    "'file being handled' at a cancel instant is the most recent AfterInodeVisited path; if only traversal remained either outcome is accepted",
    "deterministic simulation: cancellation-instant enumeration over the recorded history; boundary-value limits", "world-S", "DESIGN.md 4/C10")
chk("C11", "exploration",
    "seeded exploration of generated npm and Maven universes x manifests x vulnerability sets x upgrade configurations x seeded goroutine schedules x transient registry errors through the real FixVulns (relax, override) and Update; every proposed and applied update is checked against independent resolutions of 'manifest + patch minus this update' (strictly upward, within level, never a package configured none), applied changes against the file on disk, termination by a call budget.",
    "SimClient serves the universe through the real deps.dev LocalClient; the base/new versions are computed with the real resolvers over harness-rendered variant manifests; Maven manifests with duplicate declarations / shared or foreign properties hit known findings R-F3, R-F4, R-F8 (listed in known_findings.json), which mask C11 violations on exactly those manifest shapes",
    "deterministic simulation: simulated registry + vulnerability database, seeded cooperative scheduling of the patch goroutines, transient-error injection; reference resolutions as oracle", "world-R", "DESIGN.md 4/C11")
chk("C12", "exploration",
    "as C11 x remediation options; the manifest FixVulns wrote to (sandboxed real) disk is analysed again by a fresh FixVulns over fresh client/matcher instances: vulnerabilities found = original - fixed + introduced for a single applied patch; no patch => requirements unchanged (independent minimal reader); fixed => not unactionable; under an injected write failure (overlay shim) FixVulns must return an error.",
    "second analysis uses the library's own reader and resolver (the claim is about report vs disk, not about reading); known findings R-F2, R-F3b, R-F8 mask the manifest shapes they name",
    "deterministic simulation: durable-state check (report vs disk) under seeded schedules and injected registry / disk faults", "world-R", "DESIGN.md 4/C12")
chk("C16", "exploration",
    "(a) world R: the same remediation problem under FIFO and seeded schedule vectors (every interleaving of resolve-client and matcher calls of the patch goroutines decided by the simulator), patch and vulnerability lists must be deep-equal, sorted, de-duplicated; (b) world K: RequestCache with yields at lock boundaries, 2-4 clients over 1-2 keys, slow/failing fetches, GetMap observer: porcupine linearizability + at-most-one-fetch-per-success + stale-error + snapshot invariants; (c) world S: whole scans under -race in a synctest bubble with simulated latency so the 2 s status ticker fires; (d) free-running stress of cache and CombinedNativeClient lazy init under -race.",
    "interleavings at seam granularity (client/matcher calls, lock boundaries); the cooperative scheduler's hand-overs create happens-before edges, so unsynchronised sharing is left to parts (c) and (d) and to the snapshot observer; part (d) is not replayable",
    "deterministic simulation: seeded cooperative scheduler + porcupine linearizability + race detector on a fake clock", "world-K", "DESIGN.md 4/C16")
chk("C20", "exploration",
    "seeded exploration of whole simulated scans with 0-4 harness detectors in seeded order, plugin failures as the fault kind; oracle over the history at the plugin seam: each detector called once, index answers = extracted purl-bearing packages, findings tagged, statuses, advisory-conflict => failed scan.",
    "findings with an advisory but a nil advisory ID are not generated",
    "deterministic simulation: plugin-seam history + plugin-failure faults", "world-S", "DESIGN.md 4/C20")
