ENGINES = [
 {"name": "world-S", "path": "harness/worlds/scan", "serves_properties": ["C01", "C08", "C09", "C10", "C16", "C20"],
  "kind_free_text": "deterministic simulation: real scan engine on SimFS (in-memory disk with seeded listing order, chunking, latency on a synctest fake clock, fault plans keyed by k-th occurrence of an operation on a path) + harness plugins + recording collector; rapid generates and shrinks scenarios; replay file = scenario"},
]
NOTES = "Deterministic simulation with fault injection; see DESIGN.md. ./check selftest proves determinism (same scenario, fresh processes, GOMAXPROCS 1/4/16 => identical history fingerprints)."
PENDING = {k: "claimed in DESIGN.md; check not yet built in this commit" for k in ["C02", "C04", "C05", "C06", "C11", "C12"]}

chk("C01", "exploration",
    "seeded exploration: ~50k (quick) / millions (thorough) generated tree x option x predicate scenarios run through the real Scanner.Scan on a simulated disk; the recorded seam history (FileRequired/Open/Extract/Close) is compared with an independent reference walker (exactly-once multiset), inventory = union of returns, statuses, and the sub-directory law on every reachable directory. Sampling, not proof.",
    "trusted: the reference walker (harness/worlds/scan/ref.go) and its gitignore dialect; SimFS faithfully models os.DirFS semantics (Stat/Open follow symlinks, ReadDir entries are lstat-like); go-git matcher and gobwas/glob are dependencies, not under test",
    "deterministic simulation (fault-free configuration) + reference-model refinement over the recorded seam history", "world-S", "DESIGN.md 4/C01")
chk("C08", "exploration",
    "seeded schedule exploration: every scenario is executed under the identity order and 5 (quick) / 23 (thorough) seeded schedules (each directory listing permuted independently, extractor/detector lists permuted, both dir-handle flavours), each twice; oracle = equality of result multisets across schedules, independent sortedness comparator, and the multi-root union law against single-root scans.",
    "Go map iteration order inside the library is sampled by repetition, not controlled; failure reasons compared as sets of lines",
    "deterministic simulation: seeded schedules of directory listing / plugin order, metamorphic equality across schedules", "world-S", "DESIGN.md 4/C08")
chk("C09", "fault_enumeration",
    "per generated tree the fault-free history is recorded and EVERY single fault (each file-system operation site x error kind) is injected, plus every ordered pair of faults when the history has <= 40 (quick) / 90 (thorough) operations; oracle = blast radius vs the fault-free run, statuses derived from the recorded history, fatality rule. Exhaustive per tree, sampled across trees.",
    "the classification of a delivered fault into its failing object (directory / file / (file,extractor) attempt) is the harness's reading of the statement; inside the failing object nothing is asserted",
    "deterministic simulation with exhaustive single/pair fault enumeration over the sites of the recorded fault-free history", "world-S", "DESIGN.md 4/C09")
chk("C10", "fault_enumeration",
    "scan half: per generated scenario, inode limits around the measured visit count, size limits around every file size present, and cancel() delivered at EVERY seam event of the fault-free history (plus pre-cancelled); oracle from the recorded history: counters vs limit, nothing starts after the cancel instant, failure iff work remained. Image byte-limit half runs in world I.",
    "'file being handled' at a cancel instant is the most recent AfterInodeVisited path; if only traversal remained either outcome is accepted",
    "deterministic simulation: cancellation-instant enumeration over the recorded history; boundary-value limits", "world-S", "DESIGN.md 4/C10")
chk("C16", "exploration",
    "(c) whole scans under the race detector in a synctest bubble with simulated latency so the 2 s status ticker fires (reports attributed per scenario via GORACE log_path). Parts (a) patch-list schedule independence and (b) request cache linearizability are added by worlds R and K.",
    "race detector finds races only on executed paths; interleavings at seam granularity",
    "deterministic simulation on a fake clock + race detector; (a)/(b): cooperative seeded scheduler, porcupine linearizability", "world-S", "DESIGN.md 4/C16")
chk("C20", "exploration",
    "seeded exploration of whole simulated scans with 0-4 harness detectors in seeded order, plugin failures as the fault kind; oracle over the history at the plugin seam: each detector called once, index answers = extracted purl-bearing packages, findings tagged, statuses, advisory-conflict => failed scan.",
    "findings with an advisory but a nil advisory ID are not generated",
    "deterministic simulation: plugin-seam history + plugin-failure faults", "world-S", "DESIGN.md 4/C20")
