ENGINES = [
 {"name": "world-S", "path": "harness/worlds/scan", "serves_properties": ["C01", "C08", "C09", "C10", "C16", "C20"],
  "kind_free_text": "deterministic simulation: real scan engine on SimFS (in-memory disk with seeded listing order, chunking, latency on a synctest fake clock, fault plans keyed by k-th occurrence of an operation on a path) + harness plugins + recording collector; rapid generates and shrinks scenarios; replay file = scenario"},
]
NOTES = "Deterministic simulation with fault injection; see DESIGN.md. ./check selftest proves determinism (same scenario, fresh processes, GOMAXPROCS 1/4/16 => identical history fingerprints)."
PENDING = {k: "claimed in DESIGN.md; check not yet built in this commit" for k in ["C04", "C05"]}
ENGINES += [
 {"name": "world-X", "path": "harness/worlds/extract", "serves_properties": ["C02", "C06"],
  "kind_free_text": "deterministic simulation: the real built-in extractors (57 of 58) and the real scan engine on SimFS or a sandboxed real directory; stored-data corruption operators on the repository's fixtures, read faults, OS-call faults through the overlay shim, cancellation instants; before/after SHA-256 snapshots of the sandbox"},
 {"name": "world-I", "path": "harness/worlds/image", "serves_properties": ["C04", "C05", "C06", "C10"],
  "kind_free_text": "deterministic simulation: layer-history model served as v1.Image/v1.Layer (seeded entry order, naming style, chunking, mid-stream failures) to the real loader, chain-layer FS, unpacker and ScanContainer/tracing; RefOverlay(D) reference model with named deviations; sandbox snapshots"},
]
ENGINES += [
 {"name": "world-K", "path": "harness/worlds/cache", "serves_properties": ["C16"],
  "kind_free_text": "deterministic simulation: real RequestCache with build-time inserted yields at lock boundaries, simulated clients and fetch callbacks under a seeded cooperative scheduler inside a synctest bubble; porcupine linearizability + counter invariants"},
 {"name": "world-R", "path": "harness/worlds/remed", "serves_properties": ["C11", "C12", "C16"],
  "kind_free_text": "deterministic simulation: real guidedremediation.FixVulns/Update over a generated package universe served by the real deps.dev LocalClient wrapped in SimClient (park at every call, transient errors) + SimMatcher, content-named cooperative scheduler deciding every interleaving of the patch goroutines, manifests on sandboxed real disk, tier-2 os.WriteFile faults through the overlay shim"},
 {"name": "world-stress", "path": "harness/worlds/stress", "serves_properties": ["C16"],
  "kind_free_text": "free-running goroutines under the race detector on the shared RequestCache and CombinedNativeClient lazy initialisation (schedule NOT simulator-controlled, stated)"},
]

chk("C01", "exploration",
    "seeded exploration: ~50k (quick) / millions (thorough) generated tree x option x predicate scenarios run through the real Scanner.Scan on a simulated disk; the recorded seam history (FileRequired/Open/Extract/Close) is compared with an independent reference walker (exactly-once multiset), inventory = union of returns, statuses, and the sub-directory law on every reachable directory. Sampling, not proof.",
    "trusted: the reference walker (harness/worlds/scan/ref.go) and its gitignore dialect; SimFS faithfully models os.DirFS semantics (Stat/Open follow symlinks, ReadDir entries are lstat-like); go-git matcher and gobwas/glob are dependencies, not under test",
    "deterministic simulation (fault-free configuration) + reference-model refinement over the recorded seam history", "world-S", "DESIGN.md 4/C01")
chk("C02", "exploration",
    "seeded fault injection on stored data: every scenario places 3-8 healthy fixtures of different extractors at production paths plus one victim = a repository fixture with 1-4 stacked corruption operators (truncate, bit flip, byte substitution, zero block, duplicated/transposed block, garbage tail, emptied; also inside zip/jar entries, include families, sibling files, zip bombs), seeded chunking and optional read faults; two real scans (healthy baseline vs corrupted): no panic/crash/hang, per-Extract budgets at the seam, scan completes, dispatch and statuses consistent, every (extractor, file) that did not see the victim identical to baseline.",
    "a fault model (disk rot, truncated writes, failing reads), not a coverage-guided fuzzer: the evidence counts distinct corrupted contents per extractor; os/rpm Timeout and java/archive MaxOpenedBytes are lowered (stated); java/pomxmlnet needs the network and is not covered; known finding X-macapps-plist-unbounded-recursion masks hang keys of os/macapps only",
    "deterministic simulation with stored-data corruption and read-fault injection; containment oracle against the corruption-free run", "world-X", "DESIGN.md 4/C02")
chk("C06", "exploration",
    "(scan) trees with valid/empty/truncated/corrupted fixtures at production paths scanned through a sandboxed real directory (DirectFS) and through SimFS with a virtual root, with read faults and OS-call faults during temporary copies and cancellation instants: SHA-256 snapshot of scan root and working directory unchanged, temp dir empty after Scan returns; (image) hostile entry names / link targets / sequences through FromV1Image, FromTarball, UnpackSquashed(FromTarball) and CleanUp with reader faults and OS-call faults: nothing outside the designated directory created/changed/removed, links left inside resolve inside, temp dir gone after CleanUp or a failed load.",
    "the sandbox is a real directory tree on the real file system (per worker, per scenario); what lies outside the sandbox is not observed",
    "deterministic simulation with fault injection; durable-state (sandbox snapshot) oracle", "world-X", "DESIGN.md 4/C06")
chk("C08", "exploration",
    "seeded schedule exploration: every scenario is executed under the identity order and 5 (quick) / 23 (thorough) seeded schedules (each directory listing permuted independently, extractor/detector lists permuted, both dir-handle flavours), each twice; oracle = equality of result multisets across schedules, independent sortedness comparator, and the multi-root union law against single-root scans.",
    "Go map iteration order inside the library is sampled by repetition, not controlled; failure reasons compared as sets of lines",
    "deterministic simulation: seeded schedules of directory listing / plugin order, metamorphic equality across schedules", "world-S", "DESIGN.md 4/C08")
chk("C09", "fault_enumeration",
    "per generated tree the fault-free history is recorded and EVERY single fault (each file-system operation site x error kind) is injected, plus every ordered pair of faults when the history has <= 40 (quick) / 90 (thorough) operations; oracle = blast radius vs the fault-free run, statuses derived from the recorded history, fatality rule. Exhaustive per tree, sampled across trees.",
    "the classification of a delivered fault into its failing object (directory / file / (file,extractor) attempt) is the harness's reading of the statement; inside the failing object nothing is asserted",
    "deterministic simulation with exhaustive single/pair fault enumeration over the sites of the recorded fault-free history", "world-S", "DESIGN.md 4/C09")
chk("C10", "fault_enumeration",
    "scan half: per generated scenario, inode limits around the measured visit count, size limits around every file size present, and cancel() delivered at EVERY seam event of the fault-free history (plus pre-cancelled); oracle from the recorded history: counters vs limit, nothing starts after the cancel instant, failure iff work remained. Image half (world I): layer files of size L-1, L, L+1, 2L for MaxFileBytes=L are never exposed at or above the limit in any view nor written beyond it; ScanContainer with MaxFileSize never hands an over-limit file of an older view to an extractor during layer tracing.",
    "'file being handled' at a cancel instant is the most recent AfterInodeVisited path; if only traversal remained either outcome is accepted",
    "deterministic simulation: cancellation-instant enumeration over the recorded history; boundary-value limits", "world-S", "DESIGN.md 4/C10")
chk("C11", "exploration",
    "seeded exploration of generated npm and Maven universes x manifests x vulnerability sets x upgrade configurations x seeded goroutine schedules x transient registry errors through the real FixVulns (relax, override) and Update; every proposed and applied update is checked against independent resolutions of 'manifest + patch minus this update' (strictly upward, within level, never a package configured none), applied changes against the file on disk, termination by a call budget.",
    "SimClient serves the universe through the real deps.dev LocalClient; the base/new versions are computed with the real resolvers over harness-rendered variant manifests; Maven manifests with duplicate declarations / shared or foreign properties hit known findings R-F3, R-F4, R-F8 (listed in known_findings.json), which mask C11 violations on exactly those manifest shapes",
    "deterministic simulation: simulated registry + vulnerability database, seeded cooperative scheduling of the patch goroutines, transient-error injection; reference resolutions as oracle", "world-R", "DESIGN.md 4/C11")
chk("C12", "exploration",
    "as C11 x remediation options; the manifest FixVulns wrote to (sandboxed real) disk is analysed again by a fresh FixVulns over fresh client/matcher instances: vulnerabilities found = original - fixed + introduced for a single applied patch; no patch => requirements unchanged (independent minimal reader); fixed => not unactionable; under an injected write failure (overlay shim) FixVulns must return an error.",
    "second analysis uses the library's own reader and resolver (the claim is about report vs disk, not about reading); known findings R-F2, R-F3b, R-F8 mask the manifest shapes they name",
    "deterministic simulation: durable-state check (report vs disk) under seeded schedules and injected registry / disk faults", "world-R", "DESIGN.md 4/C12")
chk("C16", "exploration",
    "(a) world R: the same remediation problem under FIFO and seeded schedule vectors (every interleaving of resolve-client and matcher calls of the patch goroutines decided by the simulator), patch and vulnerability lists must be deep-equal, sorted, de-duplicated; (b) world K: RequestCache with yields at lock boundaries, 2-4 clients over 1-2 keys, slow/failing fetches, GetMap observer: porcupine linearizability + at-most-one-fetch-per-success + stale-error + snapshot invariants; (c) world S: whole scans under -race in a synctest bubble with simulated latency so the 2 s status ticker fires; (d) free-running stress of cache and CombinedNativeClient lazy init under -race.",
    "interleavings at seam granularity (client/matcher calls, lock boundaries); the cooperative scheduler's hand-overs create happens-before edges, so unsynchronised sharing is left to parts (c) and (d) and to the snapshot observer; part (d) is not replayable",
    "deterministic simulation: seeded cooperative scheduler + porcupine linearizability + race detector on a fake clock", "world-K", "DESIGN.md 4/C16")
chk("C20", "exploration",
    "seeded exploration of whole simulated scans with 0-4 harness detectors in seeded order, plugin failures as the fault kind; oracle over the history at the plugin seam: each detector called once, index answers = extracted purl-bearing packages, findings tagged, statuses, advisory-conflict => failed scan.",
    "findings with an advisory but a nil advisory ID are not generated",
    "deterministic simulation: plugin-seam history + plugin-failure faults", "world-S", "DESIGN.md 4/C20")
