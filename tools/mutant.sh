#!/bin/sh
# tools/mutant.sh <patch.diff> <id> [<id>...]  - apply a patch to a scratch copy of /repo (outside
# /repo and /verif), run the quick checks of the given properties against it, remove the copy.
# Prints "<id> exit=<code>" per check.  Nothing in /repo is touched.
set -u
PATCH="$(readlink -f "$1")"; shift
VERIF_DIR="$(cd "$(dirname "$0")/.." && pwd)"
SCR="${XDG_CACHE_HOME:-$HOME/.cache}/verif-scratch/m-$$"
mkdir -p "$SCR" && trap 'rm -rf "$SCR"' EXIT INT TERM
rsync -a --exclude .git /repo/ "$SCR/repo/" || exit 2
( cd "$SCR/repo" && git init -q . 2>/dev/null; git apply --whitespace=nowarn "$PATCH" 2>/dev/null || patch -p1 -s --fuzz=3 --no-backup-if-mismatch < "$PATCH" ) || { echo "patch does not apply"; exit 2; }
for id in "$@"; do
  VERIF_REPO="$SCR/repo" VERIF_MUTANT=1 VERIF_REPLAYS="${MUTANT_REPLAYS:-$SCR/replays}" VERIF_EVIDENCE_DIR="$SCR/evidence" "$VERIF_DIR/check" "$id" ${VERIF_TIER:-quick} > "$SCR/$id.log" 2>&1
  rc=$?
  echo "$id exit=$rc $(grep -m1 -A2 '^VIOLATION' "$SCR/$id.log" | tr '\n' ' ' | cut -c1-300)"
  [ $rc -eq 2 ] && tail -5 "$SCR/$id.log"
done
