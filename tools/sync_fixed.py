#!/usr/bin/env python3
"""Keeps the commit ids of the `fixed` entries of known_findings.json in step with /repo's history
(fix commits are occasionally amended by autosquash): entries carry the commit subject."""
import json, subprocess, re
log = subprocess.run(["git", "-C", "/repo", "log", "--format=%h\t%s", "d4e81a89..HEAD"], capture_output=True, text=True).stdout.strip().split("\n")
by_subject = {l.split("\t", 1)[1]: l.split("\t", 1)[0] for l in log if "\t" in l}
kf = json.load(open("/verif/known_findings.json"))
for k in kf:
    if k.get("status") != "fixed": continue
    subj = k.get("subject")
    if not subj or subj not in by_subject:
        print("NO MATCH for", k["id"], subj); continue
    new = by_subject[subj]
    old = k.get("commit", "")
    k["commit"] = new
    k["what"] = re.sub(r"^fixed: property=(C\d+)\s+(?:[0-9a-f]{7,}\s+)?", lambda m: "fixed: property=%s %s " % (m.group(1), new), k["what"])
json.dump(kf, open("/verif/known_findings.json", "w"), indent=1)
print("fix commits in /repo:", len(by_subject), "fixed entries:", sum(1 for k in kf if k.get("status") == "fixed"))
